/* envshim.so - LD_PRELOAD monitor for ambient reads: logs the NAME of every environment variable the process asks libc for
 * (getenv / secure_getenv; Rust's std::env::var goes through getenv) to the file named by VP_ENVSHIM_LOG. Observing only. */
#define _GNU_SOURCE
#include <dlfcn.h>
#include <fcntl.h>
#include <string.h>
#include <sys/syscall.h>
#include <unistd.h>

static int g_fd = -2;
static char *(*real_getenv)(const char *);
static char *(*real_secure_getenv)(const char *);

static void note(const char *name) {
    if (!real_getenv) real_getenv = dlsym(RTLD_NEXT, "getenv");
    if (g_fd == -2) {
        const char *p = real_getenv ? real_getenv("VP_ENVSHIM_LOG") : 0;
        /* only the executors that run code under test (vpmon, vpbp, vpbpm, vptest): helper programs on the way to them (setpriv, taskset, sh)
         * and the scripted child have an ambient of their own that is nobody's business here */
        char comm[32] = {0};
        int cfd = (int)syscall(SYS_open, "/proc/self/comm", O_RDONLY);
        if (cfd >= 0) {
            syscall(SYS_read, cfd, comm, sizeof comm - 1);
            syscall(SYS_close, cfd);
        }
        int ours = !strncmp(comm, "vpmon", 5) || !strncmp(comm, "vpbp", 4) || !strncmp(comm, "vptest", 6) || !strncmp(comm, "detect", 6) || !strncmp(comm, "build", 5);
        g_fd = (p && ours) ? (int)syscall(SYS_open, p, O_WRONLY | O_CREAT | O_APPEND | O_CLOEXEC, 0644) : -1;
    }
    if (g_fd >= 0 && name) {
        char line[512];
        size_t n = strlen(name);
        if (n > sizeof line - 2) n = sizeof line - 2;
        memcpy(line, name, n);
        line[n] = '\n';
        syscall(SYS_write, g_fd, line, n + 1);
    }
}

char *getenv(const char *name) {
    note(name);
    return real_getenv ? real_getenv(name) : 0;
}

char *secure_getenv(const char *name) {
    note(name);
    if (!real_secure_getenv) real_secure_getenv = dlsym(RTLD_NEXT, "secure_getenv");
    return real_secure_getenv ? real_secure_getenv(name) : 0;
}
