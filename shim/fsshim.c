/* fsshim.so — LD_PRELOAD effect tracer / k-th-call fault injector / crash injector.
 *
 * Watches libc file-system calls whose (physical) target lies beneath $VP_SHIM_PREFIX.
 *   VP_SHIM_MODE   trace | count | inject | crash
 *   VP_SHIM_LOG    file that receives one line per matching call:
 *                  seq \t call \t class \t raw path \t physical target \t result \t errno [\t INJECTED|CRASH]
 *   VP_SHIM_CLASS  comma separated classes that are *counted* for inject/crash
 *                  (open_w open_r read write mkdir unlink rmdir rename chmod symlink link truncate readdir); empty = all mutating
 *   VP_SHIM_K      1-based index of the counted call to fail (inject) or to die at (crash)
 *   VP_SHIM_ERRNO  errno for inject (default EIO)
 *   VP_SHIM_COMM   if set, the shim is only active in processes whose /proc/self/comm equals it
 *
 * "physical target": computed BEFORE the call — realpath(dirname)/basename for calls that act on a
 * directory entry (unlink, rmdir, rename, mkdir, symlink, link, O_NOFOLLOW|O_CREAT opens) and
 * realpath(path) for calls that follow links (chmod, plain open, truncate).
 */
#define _GNU_SOURCE
#include <dirent.h>
#include <dlfcn.h>
#include <errno.h>
#include <fcntl.h>
#include <limits.h>
#include <stdarg.h>
#include <stdio.h>
#include <stdlib.h>
#include <string.h>
#include <sys/sendfile.h>
#include <sys/stat.h>
#include <sys/syscall.h>
#include <sys/types.h>
#include <sys/uio.h>
#include <unistd.h>

static int g_init = 0, g_active = 0, g_mode = 0; /* 1 trace 2 count 3 inject 4 crash */
static char g_prefix[PATH_MAX];
static size_t g_prefix_len = 0;
static int g_logfd = -1;
static long g_k = 0;
static int g_errno = EIO;
static char g_classes[256];
static long g_seq = 0, g_count = 0;
static int g_paused = 0; /* set by the executor around its own (test-buildpack) file operations */
static int g_armed = 1; /* counting for inject/crash only while armed; VP_SHIM_ARMED=0 starts disarmed */
static __thread int t_in = 0;

#define REAL(name) static __typeof__(name) *real_##name; if (!real_##name) real_##name = dlsym(RTLD_NEXT, #name)

static void shim_init(void) {
    if (g_init) return;
    g_init = 1;
    const char *p = getenv("VP_SHIM_PREFIX");
    const char *m = getenv("VP_SHIM_MODE");
    if (!p || !m) return;
    const char *comm = getenv("VP_SHIM_COMM");
    if (comm && *comm) {
        char buf[64] = {0};
        int fd = syscall(SYS_open, "/proc/self/comm", O_RDONLY);
        if (fd >= 0) {
            long n = syscall(SYS_read, fd, buf, sizeof buf - 1);
            syscall(SYS_close, fd);
            if (n > 0 && buf[n - 1] == '\n') buf[n - 1] = 0;
        }
        if (strcmp(buf, comm) != 0) return;
    }
    strncpy(g_prefix, p, sizeof g_prefix - 1);
    g_prefix_len = strlen(g_prefix);
    while (g_prefix_len > 1 && g_prefix[g_prefix_len - 1] == '/') g_prefix[--g_prefix_len] = 0;
    if (!strcmp(m, "trace")) g_mode = 1; else if (!strcmp(m, "count")) g_mode = 2; else if (!strcmp(m, "inject")) g_mode = 3; else if (!strcmp(m, "crash")) g_mode = 4;
    const char *k = getenv("VP_SHIM_K");
    if (k) g_k = atol(k);
    const char *e = getenv("VP_SHIM_ERRNO");
    if (e) g_errno = atoi(e);
    const char *c = getenv("VP_SHIM_CLASS");
    snprintf(g_classes, sizeof g_classes, ",%s,", c ? c : "");
    const char *a = getenv("VP_SHIM_ARMED");
    if (a && !strcmp(a, "0")) g_armed = 0;
    const char *l = getenv("VP_SHIM_LOG");
    if (l) g_logfd = syscall(SYS_open, l, O_WRONLY | O_CREAT | O_APPEND | O_CLOEXEC, 0644);
    g_active = g_mode != 0;
}

static int under_prefix(const char *phys) {
    if (!phys || !g_prefix_len) return 0;
    if (strncmp(phys, g_prefix, g_prefix_len) != 0) return 0;
    return phys[g_prefix_len] == 0 || phys[g_prefix_len] == '/';
}

static int class_counted(const char *cls) {
    if (!strcmp(g_classes, ",,")) return 1; /* no class list: every watched call counts */
    char pat[64];
    snprintf(pat, sizeof pat, ",%s,", cls);
    return strstr(g_classes, pat) != NULL;
}

/* absolute (not yet resolved) path of `path` relative to dirfd */
static int abs_of(int dirfd, const char *path, char *out) {
    if (!path) return -1;
    if (path[0] == '/') {
        snprintf(out, PATH_MAX, "%s", path);
        return 0;
    }
    char base[PATH_MAX];
    if (dirfd == AT_FDCWD) {
        if (syscall(SYS_getcwd, base, sizeof base) < 0) return -1;
    } else {
        char lnk[64];
        snprintf(lnk, sizeof lnk, "/proc/self/fd/%d", dirfd);
        long n = syscall(SYS_readlink, lnk, base, sizeof base - 1);
        if (n < 0) return -1;
        base[n] = 0;
    }
    if (path[0] == 0) snprintf(out, PATH_MAX, "%s", base);
    else snprintf(out, PATH_MAX, "%s/%s", base, path);
    return 0;
}

/* follow = 1: realpath(whole); follow = 0: realpath(dirname)/basename */
static void phys_of(const char *abs, int follow, char *out) {
    char tmp[PATH_MAX];
    if (follow) {
        if (realpath(abs, tmp)) { snprintf(out, PATH_MAX, "%s", tmp); return; }
    }
    char copy[PATH_MAX];
    snprintf(copy, sizeof copy, "%s", abs);
    size_t n = strlen(copy);
    while (n > 1 && copy[n - 1] == '/') copy[--n] = 0;
    char *slash = strrchr(copy, '/');
    if (!slash) { snprintf(out, PATH_MAX, "%s", abs); return; }
    char basebuf[NAME_MAX + 2];
    snprintf(basebuf, sizeof basebuf, "%s", slash + 1);
    if (slash == copy) { snprintf(out, PATH_MAX, "/%s", basebuf); return; }
    *slash = 0;
    if (realpath(copy, tmp)) snprintf(out, PATH_MAX, "%s/%s", tmp, basebuf);
    else snprintf(out, PATH_MAX, "%s/%s", copy, basebuf);
}

static void fd_path(int fd, char *out) {
    char lnk[64];
    snprintf(lnk, sizeof lnk, "/proc/self/fd/%d", fd);
    long n = syscall(SYS_readlink, lnk, out, PATH_MAX - 1);
    if (n < 0) n = 0;
    out[n] = 0;
}

void vp_shim_pause(int on) { g_paused = on; }

/* called by the executor (looked up with dlsym) to start / stop the counted window */
void vp_shim_arm(int on) {
    shim_init();
    g_armed = on;
    if (on) g_count = 0;
}

/* paths may hold tabs, newlines and backslashes (legal in file names): they are written escaped, the reader undoes it */
static void esc_path(const char *in, char *out, size_t cap) {
    size_t o = 0;
    for (; in && *in && o + 3 < cap; in++) {
        if (*in == '\t') { out[o++] = '\\'; out[o++] = 't'; }
        else if (*in == '\n') { out[o++] = '\\'; out[o++] = 'n'; }
        else if (*in == '\\') { out[o++] = '\\'; out[o++] = '\\'; }
        else out[o++] = *in;
    }
    out[o] = 0;
}

static void logline(const char *call, const char *cls, const char *raw_in, const char *phys_in, long result, int err, const char *tag) {
    if (g_logfd < 0 || ((!g_armed || g_paused) && g_mode != 1)) return;
    char line[4 * PATH_MAX + 256];
    char raw[2 * PATH_MAX], phys[2 * PATH_MAX];
    esc_path(raw_in, raw, sizeof raw);
    esc_path(phys_in, phys, sizeof phys);
    long seq = __sync_add_and_fetch(&g_seq, 1);
    int n = snprintf(line, sizeof line, "%ld\t%s\t%s\t%s\t%s\t%ld\t%d%s%s\n", seq, call, cls, raw, phys, result, err, tag ? "\t" : "", tag ? tag : "");
    if (n > 0) syscall(SYS_write, g_logfd, line, (size_t)(n < (int)sizeof line ? n : (int)sizeof line - 1));
}

/* decide what to do with a matching call before it runs: 0 = perform, 1 = fail with g_errno */
static int before(const char *call, const char *cls, const char *raw, const char *phys) {
    if (g_mode == 1 || !g_armed || g_paused) return 0;
    if (!class_counted(cls)) return 0;
    long c = __sync_add_and_fetch(&g_count, 1);
    if (g_mode == 3 && c == g_k) {
        logline(call, cls, raw, phys, -1, g_errno, "INJECTED");
        return 1;
    }
    if (g_mode == 4 && c == g_k) {
        logline(call, cls, raw, phys, 0, 0, "CRASH");
        syscall(SYS_exit_group, 137);
    }
    return 0;
}

#define ENTER() shim_init(); int _live = g_active && !t_in; if (_live) t_in = 1
#define LEAVE() if (_live) t_in = 0

/* ---- path based helpers ------------------------------------------------------------------ */

#define PATH_CALL(callname, cls, dirfd, path, follow, invoke)                                          \
    do {                                                                                               \
        ENTER();                                                                                       \
        if (!_live) { long r_ = (long)(invoke); return r_; }                                           \
        char abs_[PATH_MAX], phys_[PATH_MAX];                                                          \
        int hit_ = 0;                                                                                  \
        if (abs_of(dirfd, path, abs_) == 0) { phys_of(abs_, follow, phys_); hit_ = under_prefix(phys_); } \
        if (!hit_) { LEAVE(); return (invoke); }                                                        \
        if (before(callname, cls, path, phys_)) { LEAVE(); errno = g_errno; return -1; }               \
        long r_ = (long)(invoke);                                                                      \
        int e_ = errno;                                                                                \
        logline(callname, cls, path, phys_, r_, r_ < 0 ? e_ : 0, NULL);                                \
        errno = e_;                                                                                    \
        LEAVE();                                                                                       \
        return r_;                                                                                     \
    } while (0)

static int open_common(const char *callname, int dirfd, const char *path, int flags, mode_t mode, int use64) {
    REAL(openat);
    ENTER();
    if (!_live) return real_openat(dirfd, path, flags | (use64 ? O_LARGEFILE : 0), mode);
    int w = (flags & O_ACCMODE) != O_RDONLY || (flags & (O_CREAT | O_TRUNC));
    const char *cls = w ? "open_w" : "open_r";
    char abs_[PATH_MAX], phys_[PATH_MAX];
    int hit = 0;
    if (abs_of(dirfd, path, abs_) == 0) {
        int follow = !(flags & O_NOFOLLOW) && !((flags & O_CREAT) && (flags & O_EXCL));
        phys_of(abs_, follow, phys_);
        hit = under_prefix(phys_);
    }
    if (!hit) { LEAVE(); return real_openat(dirfd, path, flags | (use64 ? O_LARGEFILE : 0), mode); }
    if (flags & O_DIRECTORY) cls = "open_dir";
    if (before(callname, cls, path, phys_)) { LEAVE(); errno = g_errno; return -1; }
    int r = real_openat(dirfd, path, flags | (use64 ? O_LARGEFILE : 0), mode);
    int e = errno;
    logline(callname, cls, path, phys_, r, r < 0 ? e : 0, NULL);
    errno = e;
    LEAVE();
    return r;
}

static mode_t mode_arg(int flags, va_list ap) {
    if ((flags & O_CREAT) || (flags & O_TMPFILE) == O_TMPFILE) return (mode_t)va_arg(ap, int);
    return 0;
}

int open(const char *path, int flags, ...) { va_list ap; va_start(ap, flags); mode_t m = mode_arg(flags, ap); va_end(ap); return open_common("open", AT_FDCWD, path, flags, m, 0); }
int open64(const char *path, int flags, ...) { va_list ap; va_start(ap, flags); mode_t m = mode_arg(flags, ap); va_end(ap); return open_common("open64", AT_FDCWD, path, flags, m, 1); }
int openat(int dirfd, const char *path, int flags, ...) { va_list ap; va_start(ap, flags); mode_t m = mode_arg(flags, ap); va_end(ap); return open_common("openat", dirfd, path, flags, m, 0); }
int openat64(int dirfd, const char *path, int flags, ...) { va_list ap; va_start(ap, flags); mode_t m = mode_arg(flags, ap); va_end(ap); return open_common("openat64", dirfd, path, flags, m, 1); }
int creat(const char *path, mode_t mode) { return open_common("creat", AT_FDCWD, path, O_CREAT | O_WRONLY | O_TRUNC, mode, 0); }
int creat64(const char *path, mode_t mode) { return open_common("creat64", AT_FDCWD, path, O_CREAT | O_WRONLY | O_TRUNC, mode, 1); }

int mkdir(const char *path, mode_t mode) { REAL(mkdir); PATH_CALL("mkdir", "mkdir", AT_FDCWD, path, 0, real_mkdir(path, mode)); }
int mkdirat(int dirfd, const char *path, mode_t mode) { REAL(mkdirat); PATH_CALL("mkdirat", "mkdir", dirfd, path, 0, real_mkdirat(dirfd, path, mode)); }
int unlink(const char *path) { REAL(unlink); PATH_CALL("unlink", "unlink", AT_FDCWD, path, 0, real_unlink(path)); }
int unlinkat(int dirfd, const char *path, int flags) {
    REAL(unlinkat);
    if (flags & AT_REMOVEDIR) PATH_CALL("unlinkat(dir)", "rmdir", dirfd, path, 0, real_unlinkat(dirfd, path, flags));
    PATH_CALL("unlinkat", "unlink", dirfd, path, 0, real_unlinkat(dirfd, path, flags));
}
int rmdir(const char *path) { REAL(rmdir); PATH_CALL("rmdir", "rmdir", AT_FDCWD, path, 0, real_rmdir(path)); }
int chmod(const char *path, mode_t mode) { REAL(chmod); PATH_CALL("chmod", "chmod", AT_FDCWD, path, 1, real_chmod(path, mode)); }
int fchmodat(int dirfd, const char *path, mode_t mode, int flags) { REAL(fchmodat); PATH_CALL("fchmodat", "chmod", dirfd, path, !(flags & AT_SYMLINK_NOFOLLOW), real_fchmodat(dirfd, path, mode, flags)); }
int symlink(const char *target, const char *linkpath) { REAL(symlink); PATH_CALL("symlink", "symlink", AT_FDCWD, linkpath, 0, real_symlink(target, linkpath)); }
int symlinkat(const char *target, int dirfd, const char *linkpath) { REAL(symlinkat); PATH_CALL("symlinkat", "symlink", dirfd, linkpath, 0, real_symlinkat(target, dirfd, linkpath)); }
int link(const char *a, const char *b) { REAL(link); PATH_CALL("link", "link", AT_FDCWD, b, 0, real_link(a, b)); }
int linkat(int ad, const char *a, int bd, const char *b, int flags) { REAL(linkat); PATH_CALL("linkat", "link", bd, b, 0, real_linkat(ad, a, bd, b, flags)); }
int truncate(const char *path, off_t len) { REAL(truncate); PATH_CALL("truncate", "truncate", AT_FDCWD, path, 1, real_truncate(path, len)); }
int truncate64(const char *path, off64_t len) { REAL(truncate64); PATH_CALL("truncate64", "truncate", AT_FDCWD, path, 1, real_truncate64(path, len)); }

static int rename_common(const char *callname, int od, const char *o, int nd, const char *n, unsigned flags, int which) {
    REAL(rename); REAL(renameat); REAL(renameat2);
#define DO_RENAME() (which == 0 ? real_rename(o, n) : which == 1 ? real_renameat(od, o, nd, n) : real_renameat2(od, o, nd, n, flags))
    ENTER();
    if (!_live) return DO_RENAME();
    char abs_[PATH_MAX], po[PATH_MAX] = "", pn[PATH_MAX] = "";
    int hit = 0;
    if (abs_of(od, o, abs_) == 0) { phys_of(abs_, 0, po); hit |= under_prefix(po); }
    if (abs_of(nd, n, abs_) == 0) { phys_of(abs_, 0, pn); hit |= under_prefix(pn); }
    if (!hit) { LEAVE(); return DO_RENAME(); }
    char both[2 * PATH_MAX + 8];
    snprintf(both, sizeof both, "%s -> %s", po, pn);
    if (before(callname, "rename", o, both)) { LEAVE(); errno = g_errno; return -1; }
    int r = DO_RENAME();
    int e = errno;
    logline(callname, "rename", o, both, r, r < 0 ? e : 0, NULL);
    errno = e;
    LEAVE();
    return r;
}
int rename(const char *o, const char *n) { return rename_common("rename", AT_FDCWD, o, AT_FDCWD, n, 0, 0); }
int renameat(int od, const char *o, int nd, const char *n) { return rename_common("renameat", od, o, nd, n, 0, 1); }
int renameat2(int od, const char *o, int nd, const char *n, unsigned flags) { return rename_common("renameat2", od, o, nd, n, flags, 2); }

/* ---- fd based calls ---------------------------------------------------------------------- */

#define FD_CALL(callname, cls, fd, invoke, rettype)                                                    \
    do {                                                                                               \
        ENTER();                                                                                       \
        if (!_live) return (invoke);                                                                   \
        char phys_[PATH_MAX];                                                                          \
        fd_path(fd, phys_);                                                                            \
        if (!under_prefix(phys_)) { LEAVE(); return (invoke); }                                        \
        if (before(callname, cls, "", phys_)) { LEAVE(); errno = g_errno; return (rettype)-1; }        \
        rettype r_ = (invoke);                                                                         \
        int e_ = errno;                                                                                \
        logline(callname, cls, "", phys_, (long)r_, r_ < 0 ? e_ : 0, NULL);                           \
        errno = e_;                                                                                    \
        LEAVE();                                                                                       \
        return r_;                                                                                     \
    } while (0)

ssize_t read(int fd, void *buf, size_t n) { REAL(read); FD_CALL("read", "read", fd, real_read(fd, buf, n), ssize_t); }
ssize_t pread64(int fd, void *buf, size_t n, off64_t off) { REAL(pread64); FD_CALL("pread64", "read", fd, real_pread64(fd, buf, n, off), ssize_t); }
ssize_t readv(int fd, const struct iovec *iov, int c) { REAL(readv); FD_CALL("readv", "read", fd, real_readv(fd, iov, c), ssize_t); }
ssize_t write(int fd, const void *buf, size_t n) { REAL(write); FD_CALL("write", "write", fd, real_write(fd, buf, n), ssize_t); }
ssize_t pwrite64(int fd, const void *buf, size_t n, off64_t off) { REAL(pwrite64); FD_CALL("pwrite64", "write", fd, real_pwrite64(fd, buf, n, off), ssize_t); }
ssize_t writev(int fd, const struct iovec *iov, int c) { REAL(writev); FD_CALL("writev", "write", fd, real_writev(fd, iov, c), ssize_t); }
ssize_t copy_file_range(int in, off64_t *oi, int out, off64_t *oo, size_t len, unsigned flags) { REAL(copy_file_range); FD_CALL("copy_file_range", "write", out, real_copy_file_range(in, oi, out, oo, len, flags), ssize_t); }
ssize_t sendfile64(int out, int in, off64_t *off, size_t n) { REAL(sendfile64); FD_CALL("sendfile64", "write", out, real_sendfile64(out, in, off, n), ssize_t); }
int fchmod(int fd, mode_t mode) { REAL(fchmod); FD_CALL("fchmod", "chmod", fd, real_fchmod(fd, mode), int); }
int ftruncate(int fd, off_t len) { REAL(ftruncate); FD_CALL("ftruncate", "truncate", fd, real_ftruncate(fd, len), int); }
int ftruncate64(int fd, off64_t len) { REAL(ftruncate64); FD_CALL("ftruncate64", "truncate", fd, real_ftruncate64(fd, len), int); }
int fsync(int fd) { REAL(fsync); FD_CALL("fsync", "sync", fd, real_fsync(fd), int); }
int fdatasync(int fd) { REAL(fdatasync); FD_CALL("fdatasync", "sync", fd, real_fdatasync(fd), int); }

struct dirent64 *readdir64(DIR *d) {
    REAL(readdir64);
    ENTER();
    if (!_live) return real_readdir64(d);
    char phys_[PATH_MAX];
    fd_path(dirfd(d), phys_);
    if (!under_prefix(phys_)) { LEAVE(); return real_readdir64(d); }
    if (before("readdir64", "readdir", "", phys_)) { LEAVE(); errno = g_errno; return NULL; }
    errno = 0;
    struct dirent64 *r = real_readdir64(d);
    int e_ = errno;
    /* logged like every other counted call: the position of a call in the log is its index for inject/crash */
    logline("readdir64", "readdir", r ? r->d_name : "", phys_, r ? 1 : 0, r ? 0 : e_, NULL);
    errno = e_;
    LEAVE();
    return r;
}
