"""C05 — exit codes and output files of the detect/build executables (the real libcnb_runtime),
over the product of executable name x argc x buildpack.toml x CNB_* presence x behaviour x
pre-existing outputs, judged by a decision table written from the statement."""
import itertools
import os
import zlib
import tomllib

import phase
import tomlw
import vp
import c07

NAMES = ["detect", "build", "bin", "detect.sh"]
TOMLS = ["ok", "ok-sbom-formats", "api09", "api10", "ok-broken-rest", "malformed", "absent", "bpdir-unset", "api-not-string", "api-wraps", "api-wraps-major", "bad-utf8-comment", "bad-utf8-string"]
PLATFORMS = ["ok", "no-env-dir", "env-is-file", "plan-missing", "plan-malformed"]
SBOMS = ["cdx", "spdx", "syft"]
DETECT_BEH = ["pass", "plan", "fail", "err"]
MANDATORY = [0, 1, 3, 4]   # indices into phase.TARGET_VARS (ARCH_VARIANT is optional)
STALE = b"".join(b"stale_key_%d = \"from an earlier, longer file\"\n" % i for i in range(60))


def build_behaviours():
    out = []
    for launch, store, bs, ls in itertools.product([False, True], [False, True], [(), ("cdx",), ("cdx", "spdx", "syft")], [(), ("syft",), ("spdx", "cdx")]):
        out.append({"result": "ok", "launch": launch, "store": store, "build_sboms": list(bs), "launch_sboms": list(ls)})
        if (launch or store) and len(out) % 2:
            # ... after a layer the buildpack could do without failed to be written (the error is handled inside build)
            out.append(dict(out[-1], optional_layer=True))
    out.append({"result": "boom-build"})
    out.append({"result": "layer_err"})
    return out


BUILD_BEH = build_behaviours()


def toml_text(kind):
    return {"ok": phase.BP_TOML_OK, "api09": phase.BP_TOML_OK.replace('"0.10"', '"0.9"'), "api10": phase.BP_TOML_OK.replace('"0.10"', '"1.0"'),
            "ok-broken-rest": 'api = "0.10"\n\n[buildpack]\nid = "vp/scripted"\n', "malformed": "api = = 0.10\n[[[", "api-not-string": phase.BP_TOML_OK.replace('"0.10"', "0.10"),
            # 2^64 + 10 and 2^64 + 0: a different API version than 0.10, whatever a 64-bit parser makes of it
            # sbom-formats declares what the buildpack MAY emit; it is metadata for the platform, not a filter for what the build returned
            "ok-sbom-formats": phase.BP_TOML_OK + 'sbom-formats = ["application/vnd.cyclonedx+json"]\n',
            # not UTF-8, hence not TOML - however sensible the rest looks (the byte 0xE9 is written through surrogateescape)
            "bad-utf8-comment": phase.BP_TOML_OK + "# caf\udce9\n", "bad-utf8-string": phase.BP_TOML_OK.replace('id = "', 'name = "caf\udce9"\nid = "', 1),
            "api-wraps": phase.BP_TOML_OK.replace('"0.10"', '"0.18446744073709551626"'), "api-wraps-major": phase.BP_TOML_OK.replace('"0.10"', '"18446744073709551616.10"')}.get(kind)


def launch_spec(r):
    return {"processes": [{"type": r.choice(["web", "worker"]), "command": ["run", r.choice(tomlw.RND_STRINGS)], "args": [r.choice(tomlw.RND_STRINGS)], "default": r.random() < 0.5,
                           # (a working directory other than the app directory - spelled ".", relative, absolute, empty: written as it was given)
                           **({"wd": r.choice([".", "sub dir", "/abs/dir", "", "./"])} if r.random() < 0.5 else {})}],
            "labels": [[r.choice(tomlw.RND_STRINGS), r.choice(tomlw.RND_STRINGS)]],
            # (slices, some of them repeated; "plural": everything goes through the batch setters processes() / labels() / slices())
            "slices": [r.choice([["a/*"], ["b", "c/**"], ["a/*"], [r.choice(tomlw.RND_STRINGS)]]) for _ in range(r.choice([0, 0, 1, 3, 5]))], "plural": r.random() < 0.5}


def make_script(cfg, r, lay):
    s = {"marker": lay.marker}
    if cfg["name"].startswith("detect") or cfg["name"] == "bin":
        b = cfg["beh"] if isinstance(cfg["beh"], str) else "pass"
        s["detect"] = {"result": b if b != "err" else "boom-detect"}
        if b == "plan":
            calls = [["provides", "x"], ["requires", "x", tomlw.tagged({"v": 1, "s": r.choice(tomlw.RND_STRINGS)})], ["or"], ["provides", r.choice(tomlw.RND_STRINGS)]]
            s["detect"]["plan"] = calls
    if cfg["name"] == "build" or cfg["name"] == "bin":
        b = cfg["beh"] if isinstance(cfg["beh"], dict) else BUILD_BEH[0]
        bb = dict(b)
        if bb.get("launch"):
            bb["launch"] = launch_spec(r)
        else:
            bb["launch"] = None
        if bb.get("store"):
            bb["store_intent"] = tomlw.rnd_table(r, 0) if r.random() < 0.7 else {}      # an empty store must be written too
            bb["store"] = tomlw.tagged(bb["store_intent"])
        else:
            bb["store"] = None
        order = ["launch", "store", "bsbom", "lsbom"]
        r.shuffle(order)
        bb["order"] = order          # the order in which the BuildResultBuilder setters are called
        s["build"] = bb
    return s


def prepare(lay, cfg):
    vp.rmtree(lay.root)
    # both ways of getting a main: the direct call of libcnb_runtime and the buildpack_main! macro (a property of the configuration's text,
    # so that it is independent of every factor of the product)
    lay.exe = "vpbpm" if zlib.crc32(repr(sorted((k, repr(v)) for k, v in cfg.items())).encode()) % 2 else "vpbp"
    lay.create(NAMES)
    if cfg.get("real_build_file"):
        # the layout `cargo libcnb package` produces: bin/build is the executable itself, every other name is a link to it
        import shutil
        bindir = os.path.join(lay.bp, "bin")
        for n in NAMES:
            os.unlink(os.path.join(bindir, n))
        master = os.path.join(os.path.dirname(lay.root), ".%s-copy-%d" % (lay.exe, os.getpid()))      # one copy per worker, hard-linked per case
        if not os.path.exists(master):
            shutil.copy2(os.path.join(vp.BIN, lay.exe), master)
        os.link(master, os.path.join(bindir, "build"))
        for n in NAMES:
            if n != "build":
                os.symlink("build", os.path.join(bindir, n))
    t = toml_text(cfg["toml"])
    if cfg["toml"] == "bpdir-unset":
        t = phase.BP_TOML_OK          # the directory is a perfectly good buildpack; only the variable that names it is missing
    if t is not None:
        with open(os.path.join(lay.bp, "buildpack.toml"), "w", errors="surrogateescape") as f:
            f.write(t)
    if cfg["platform"] != "no-env-dir":
        if cfg["platform"] == "env-is-file":
            with open(os.path.join(lay.platform, "env"), "w") as f:
                f.write("not a directory")
        else:
            os.makedirs(os.path.join(lay.platform, "env"))
            with open(os.path.join(lay.platform, "env", "FOO"), "w") as f:
                f.write("bar")
    is_build = cfg["name"] == "build" or (cfg["name"] not in ("detect", "build") and cfg.get("build_shaped_args"))      # (whatever the call looks like it is meant to be)
    if is_build:
        if cfg["platform"] == "plan-malformed":
            with open(lay.plan, "w") as f:
                f.write("[[entries]\nname = ")
        elif cfg["platform"] != "plan-missing":
            with open(lay.plan, "w") as f:
                f.write('[[entries]]\nname = "x"\n')
    if cfg["pre"]:
        if is_build:
            for fn in ["launch.toml", "store.toml"] + ["%s.sbom.%s.json" % (k, f) for k in ("build", "launch") for f in SBOMS]:
                with open(os.path.join(lay.layers, fn), "wb") as f:
                    f.write(b"[metadata]\n" + STALE if fn == "store.toml" else STALE)
        else:
            with open(lay.plan, "wb") as f:
                f.write(STALE)
    if cfg.get("unwritable"):
        # one of the outputs the result provides cannot be written: it pre-exists as a symbolic link to /dev/full (every write fails ENOSPC)
        p = lay.plan if cfg["unwritable"] == "plan.toml" else os.path.join(lay.layers, cfg["unwritable"])
        if os.path.lexists(p):
            os.unlink(p)
        # (store.toml is also read at the start of build, and /dev/full reads as an endless stream of zeros: there a link into a
        # directory that does not exist is used instead - reads as "no store", cannot be created)
        if cfg.get("unwritable_kind") == "dir":
            # ... or as a (non-empty) directory: it exists, and cannot even be opened for writing
            os.makedirs(os.path.join(p, "sub"))
        else:
            os.symlink("/dev/full" if cfg["unwritable"] != "store.toml" else "/nonexistent-vp-dir/store.toml", p)
    if isinstance(cfg["beh"], dict) and cfg["beh"].get("optional_layer"):
        os.symlink("/nonexistent-vp-dir/optional.toml", os.path.join(lay.layers, "optional.toml"))
    if isinstance(cfg["beh"], dict) and cfg["beh"].get("result") == "layer_err":
        with open(os.path.join(lay.layers, "blocked"), "w") as f:
            f.write("a file where a layer directory should go")


def provides(cfg):
    """does the result the buildpack code returns provide the output this configuration makes unwritable?"""
    out, b = cfg.get("unwritable"), cfg["beh"]
    if not out:
        return False
    if cfg["name"] == "detect":
        return out == "plan.toml" and b == "plan"
    if not isinstance(b, dict) or b.get("result") != "ok":
        return False
    if out in ("launch.toml", "store.toml"):
        return bool(b.get(out.split(".")[0]))
    kind, _, fmt, _ = out.split(".")
    return fmt in b.get(kind + "_sboms", [])


def expectation(cfg):
    """-> dict(reach: bool, status: 'zero'|'hundred'|'error'|'nonzero', on_error: 0|1|None(<=1))"""
    name = cfg["name"]
    right_argc = {"detect": 2, "build": 3}.get(name)
    if cfg["toml"] in ("api09", "api10", "malformed", "absent", "bpdir-unset", "api-not-string", "api-wraps", "api-wraps-major", "bad-utf8-comment", "bad-utf8-string"):
        return {"reach": False, "status": "nonzero", "on_error": None}
    if name not in ("detect", "build") or cfg["argc"] != right_argc:
        return {"reach": False, "status": "nonzero", "on_error": None}
    # dispatched: any failure from here on is an Err -> on_error exactly once, status not in {0, 100}
    env_ok = all(cfg["envmask"][i] for i in MANDATORY)
    plat_ok = cfg["platform"] != "env-is-file" and (name == "detect" or cfg["platform"] not in ("plan-missing", "plan-malformed"))
    if cfg["toml"] == "ok-broken-rest" or not env_ok or not plat_ok:
        return {"reach": False, "status": "error", "on_error": 1}
    if provides(cfg):
        # the buildpack code runs and succeeds, writing its result fails: an error (handler once, neither 0 nor 100)
        return {"reach": True, "status": "error", "on_error": 1}
    if name == "detect":
        b = cfg["beh"]
        if b in ("pass", "plan"):
            return {"reach": True, "status": "zero", "on_error": 0}
        if b == "fail":
            return {"reach": True, "status": "hundred", "on_error": 0}
        return {"reach": True, "status": "error", "on_error": 1}
    if cfg["beh"]["result"] == "ok":
        return {"reach": True, "status": "zero", "on_error": 0}
    return {"reach": True, "status": "error", "on_error": 1}


def cell(cfg):
    b = cfg["beh"]
    bk = b if isinstance(b, str) else (b["result"], bool(b.get("launch")), bool(b.get("store")), len(b.get("build_sboms", [])), len(b.get("launch_sboms", [])))
    return (cfg["name"], cfg["argc"], cfg["toml"], tuple(cfg["envmask"][i] for i in MANDATORY), cfg["platform"], cfg["pre"], bk)


def run_cfg(lay, cfg, idx, seed, sh):
    r = vp.rng(seed, "c05", idx)
    rr = vp.rng(seed, "c05-layout", idx)       # (independent of the position in the product: index arithmetic would tie these to the other factors)
    cfg = dict(cfg, real_build_file=cfg.get("real_build_file", rr.random() < 0.4), build_shaped_args=cfg.get("build_shaped_args", rr.random() < 0.5))
    prepare(lay, cfg)
    script = make_script(cfg, r, lay)
    b0 = script.get("build")
    if cfg["name"] == "build" and cfg["pre"] and idx % 2 == 1 and b0 and b0.get("store") and os.path.isdir(lay.layers) and not cfg.get("unwritable"):
        # the store left by the previous build is almost what this build returns (0.0 where -0.0 is returned): equal under ==,
        # another document. The provided store is what has to be on disk afterwards.
        b0["store_intent"] = dict(b0["store_intent"], zero=-0.0)
        b0["store"] = tomlw.tagged(b0["store_intent"])
        with open(os.path.join(lay.layers, "store.toml"), "w") as f:
            f.write(tomlw.selfcheck({"metadata": dict(b0["store_intent"], zero=0.0)}))
    env = {}
    if cfg["toml"] != "bpdir-unset":
        env["CNB_BUILDPACK_DIR"] = lay.bp
    for i, v in enumerate(phase.TARGET_VARS):
        if cfg["envmask"][i]:
            env[v] = phase.TARGET_DEFAULT[v]
    if idx % 2 == 0 and "CNB_TARGET_OS" in env:
        env["CNB_TARGET_OS"] = "windows"         # the rules do not depend on the value
    if idx % 3 != 0:
        # newer lifecycles also export the locations as variables; the positional arguments stay mandatory for this API version
        env.update({"CNB_PLATFORM_DIR": lay.platform, "CNB_BUILD_PLAN_PATH": lay.plan, "CNB_LAYERS_DIR": lay.layers, "CNB_BP_PLAN_PATH": lay.plan})
    # (a wrongly named executable gets the arguments of either phase: whatever else would make the call plausible, the name decides)
    base_args = lay.build_args() if cfg["name"] == "build" or (cfg["name"] not in ("detect", "build") and cfg["build_shaped_args"]) else lay.detect_args()
    args = (base_args + ["extra1", "extra2"])[:cfg["argc"]]
    if cfg.get("raw_path"):
        # a path argument that is not valid UTF-8 (legal on Linux): the plan path for detect, the layers dir for build
        if cfg["name"] == "detect":
            rawp = os.path.join(lay.root.encode(), b"plan-\xff\xfe.toml")
            args = [lay.platform, rawp]
        else:
            rawl = os.path.join(lay.root.encode(), b"layers-\xff")
            os.rename(lay.layers, rawl)
            args = [rawl, lay.platform, lay.plan]
    skip = lambda rel: rel in (b"marker", b"dump.json", b"script.json")
    pre = vp.snapshot(lay.root, skip)
    # (a third of the runs: the buildpack code leaves an unterminated line in its stdout buffer and stdout is /dev/full - statuses and
    # outputs are what they are with a healthy stdout)
    full = zlib.crc32(repr(sorted((k, repr(v)) for k, v in cfg.items())).encode() + b"stdout") % 3 == 0
    if full:
        script = dict(script, print="progress: 42%")
    status, marker, stderr = lay.run(cfg["name"], args, env, script, stdout_full=full)
    post = vp.snapshot(lay.root, skip)
    sh.evaluations += 1
    exp = expectation(cfg)
    case = {"cfg": cfg, "idx": idx}
    if cfg.get("raw_path"):
        # either the runtime refuses the argument (never reaches the buildpack, non-zero exit) or it honours the exact byte path
        reached = any(m in ("detect", "build") for m in marker)
        key = b"plan-\xff\xfe.toml" if cfg["name"] == "detect" else b"layers-\xff/launch.toml"
        if not reached:
            if status == 0:
                sh.violation("raw-path:exit0", "%s with a non-UTF-8 path argument: buildpack code not reached but exit 0" % cfg["name"], case)
            else:
                sh.nontrivial.add(("raw-path", cfg["name"], "refused"))
            return
        if status != 0 or key not in post:
            others = sorted(k for k in post if k not in pre)
            sh.violation("raw-path:misplaced", "%s was given a non-UTF-8 path argument, ran the buildpack (exit %d), but the output is not at the requested path; new files: %r"
                         % (cfg["name"], status, others[:5]), case)
            return
        sh.nontrivial.add(("raw-path", cfg["name"], "honoured"))
        return
    phase_lines = [m for m in marker if m in ("detect", "build")]
    err_lines = [m for m in marker if m.startswith("on_error")]
    what = "%s with %d args, buildpack.toml=%s, env=%r, platform=%s, behaviour=%r" % (cfg["name"], cfg["argc"], cfg["toml"], [phase.TARGET_VARS[i][11:] for i in range(5) if cfg["envmask"][i]], cfg["platform"], cfg["beh"])
    if len(err_lines) > 1:
        sh.violation("on_error-twice", "%s: on_error ran %d times" % (what, len(err_lines)), case)
        return
    if not exp["reach"] and phase_lines:
        sh.violation("reached:%s" % cfg["toml"], "%s: buildpack %s code ran (%r) although it must never be reached; exit %d" % (what, phase_lines[0], marker, status), case)
        return
    if exp["reach"] and phase_lines != [cfg["name"]]:
        sh.violation("not-reached", "%s: expected exactly one %s() call, marker %r, exit %d, stderr %s" % (what, cfg["name"], marker, status, stderr[-300:]), case)
        return
    ok = {"zero": status == 0, "hundred": status == 100, "error": status not in (0, 100), "nonzero": status != 0}[exp["status"]]
    if not ok:
        sh.violation("status:%s:%d" % (exp["status"], status), "%s: exit status %d, expected %s" % (what, status, exp["status"]), case)
        return
    if exp["on_error"] is not None and len(err_lines) != exp["on_error"]:
        sh.violation("on_error:%d" % len(err_lines), "%s: on_error ran %d times, expected %d (exit %d, marker %r)" % (what, len(err_lines), exp["on_error"], status, marker), case)
        return
    # ---- files
    changed = {k for k in set(pre) | set(post) if pre.get(k) != post.get(k)}
    allowed = set()
    if cfg.get("unwritable") and not provides(cfg):
        # an output that cannot be written and that the result does not provide: nothing is to be written there, the statuses are the ordinary ones
        sh.nontrivial.add(("unwritable-idle", cfg["unwritable"], cfg.get("unwritable_kind", "full"), cell(cfg)[-1]))
    if provides(cfg):
        # the error is reported (checked above); which of the other outputs were already written is not specified
        sh.nontrivial.add(("unwritable", cfg["unwritable"], cell(cfg)[-1]))
        return
    if cfg["name"] == "detect" and exp["reach"] and cfg["beh"] == "plan":
        allowed.add(b"plan.toml")
        raw = post.get(b"plan.toml")
        try:
            got = c07.read_plan(tomllib.loads(raw[2].decode()))
            want = [{"provides": ["x"], "requires": [("x", tomlw.to_py(tomlw.untagged(script["detect"]["plan"][1][2])))]}, {"provides": [script["detect"]["plan"][3][1]], "requires": []}]
            if not c07.groups_equal(got, want):
                sh.violation("plan:content", "%s: build plan on disk reads %r, returned %r" % (what, got, want), case)
                return
        except Exception as e:  # noqa: BLE001
            sh.violation("plan:invalid", "%s: build plan written is not a valid plan: %s; %r" % (what, e, raw), case)
            return
    if cfg["name"] == "build" and exp["reach"] and cfg["beh"]["result"] == "ok":
        b = script["build"]
        if b["launch"]:
            allowed.add(b"layers/launch.toml")
            try:
                got = c07.read_launch(tomllib.loads(post[b"layers/launch.toml"][2].decode()))
                want = {"processes": [{"type": p["type"], "command": p["command"], "args": p["args"], "default": p["default"], "wd": p.get("wd")} for p in b["launch"]["processes"]],
                        "labels": b["launch"]["labels"], "slices": b["launch"].get("slices", [])}
                if got != want:
                    sh.violation("launch:content", "%s: launch.toml reads %r, returned %r" % (what, got, want), case)
                    return
            except Exception as e:  # noqa: BLE001
                sh.violation("launch:invalid", "%s: launch.toml invalid: %s; %r" % (what, e, post.get(b"layers/launch.toml")), case)
                return
        if b["store"]:
            allowed.add(b"layers/store.toml")
            try:
                d = tomllib.loads(post[b"layers/store.toml"][2].decode())
                if set(d) - {"metadata"} or not tomlw.same(d.get("metadata", {}), tomlw.to_py(b["store_intent"])):
                    sh.violation("store:content", "%s: store.toml reads %r, returned %r" % (what, d, b["store_intent"]), case)
                    return
            except Exception as e:  # noqa: BLE001
                sh.violation("store:invalid", "%s: store.toml invalid: %s; %r" % (what, e, post.get(b"layers/store.toml")), case)
                return
        for kind in ("build", "launch"):
            for f in b["%s_sboms" % kind]:
                k = ("layers/%s.sbom.%s.json" % (kind, f)).encode()
                allowed.add(k)
                want = ('{"%s":"%s"}' % (kind, f)).encode()
                if post.get(k, (None, None, None))[2] != want:
                    sh.violation("sbom:content", "%s: %s holds %r, returned %r" % (what, k, post.get(k), want), case)
                    return
        missing = [k for k in allowed if k not in post]
        if missing:
            sh.violation("output-missing", "%s: exit 0 but %r was not written" % (what, missing), case)
            return
    if status == 0 or not exp["reach"] or exp["status"] == "hundred":
        extra = sorted(changed - allowed)
        if isinstance(cfg["beh"], dict) and cfg["beh"].get("optional_layer"):
            # (the layer the build code itself asked for and could not complete: its directory is the build code's doing, not an output)
            extra = [k for k in extra if k != b"layers/optional" and not k.startswith(b"layers/optional/")]
            sh.count("builds_that_handled_a_failed_layer_write_before_returning")
        if extra:
            sh.violation("unprovided-output-touched", "%s (exit %d): files created or modified although no such output was provided: %s"
                         % (what, status, vp.snap_diff({k: pre.get(k) for k in extra}, {k: post.get(k) for k in extra})), case)
            return
    sh.nontrivial.add(cell(cfg))
    if exp["reach"] and idx % 7 == 0:
        sh.sample({"cfg": {k: v for k, v in cfg.items()}, "observed": {"exit": status, "marker": marker, "files_changed": sorted(k.decode() for k in changed)}}, cap=1)


def all_fronts():
    out = []
    for name in NAMES:
        for argc in range(5):
            for toml in TOMLS:
                for mask in itertools.product([True, False], repeat=5):
                    for plat in PLATFORMS:
                        if plat.startswith("plan-") and name != "build":
                            continue
                        for pre in (False, True):
                            out.append({"name": name, "argc": argc, "toml": toml, "envmask": list(mask), "platform": plat, "pre": pre})
    return out


def reaching_fronts():
    out = []
    for name in ("detect", "build"):
        for av in (True, False):
            for plat in ("ok", "no-env-dir"):
                for pre in (False, True):
                    out.append({"name": name, "argc": 2 if name == "detect" else 3, "toml": "ok", "envmask": [True, True, av, True, True], "platform": plat, "pre": pre})
    return out


def with_beh(front, r, beh=None):
    c = dict(front)
    if beh is None:
        beh = r.choice(DETECT_BEH) if front["name"] != "build" else r.choice(BUILD_BEH)
    c["beh"] = beh
    return c


def inproc_shard(arg):
    """libcnb exposes the two phase functions for programmatic use: several calls in ONE process, each with its own environment. A call
    whose mandatory input is missing is an error that does not reach the buildpack code - whatever an earlier call of the process was given."""
    import json
    import subprocess
    seqs, seed, work = arg
    sh = vp.Shard()
    for seq in seqs:
        r = vp.rng(seed, "c05-inproc", seq)
        root = os.path.join(work, "inproc-%d-%d" % (os.getpid(), seq))
        invs, wants = [], []
        try:
            for k in range(r.randint(2, 5)):
                lay = phase.Layout(os.path.join(root, "inv%d" % k))
                lay.create()
                with open(os.path.join(lay.bp, "buildpack.toml"), "w") as f:
                    f.write(phase.BP_TOML_OK)
                os.makedirs(os.path.join(lay.platform, "env"))
                ph = r.choice(["detect", "build"])
                with open(lay.plan, "w") as f:
                    f.write('[[entries]]\nname = "x"\n' if ph == "build" else "")
                beh = r.choice(["pass", "fail", "plan"]) if ph == "detect" else "ok"
                missing = r.choice([None, None, None, "CNB_BUILDPACK_DIR", "CNB_TARGET_OS", "CNB_TARGET_ARCH", "CNB_TARGET_DISTRO_NAME", "CNB_TARGET_DISTRO_VERSION"]) if k else None
                env = dict(lay.env())
                if missing:
                    del env[missing]
                script = {"marker": lay.marker, "detect": {"result": beh, "plan": [["provides", "x"]]}, "build": {"result": "ok", "launch": None, "store": None, "build_sboms": [], "launch_sboms": [], "order": ["launch", "store", "bsbom", "lsbom"]}}
                result = os.path.join(lay.root, "result.json")
                invs.append({"phase": ph, "env": [[a, b] for a, b in env.items()], "unset": [missing] if missing else [], "cwd": lay.app,
                             "args": lay.detect_args() if ph == "detect" else lay.build_args(), "script": script, "result": result})
                wants.append({"lay": lay, "phase": ph, "beh": beh, "missing": missing, "result": result})
            planfile = os.path.join(root, "inproc.json")
            with open(planfile, "w") as f:
                json.dump({"invocations": invs}, f)
            p = subprocess.run([os.path.join(vp.BIN, "vpbp")], env=dict(vp.hostile_env(), PATH="/usr/bin:/bin", VPBP_INPROC=planfile), stdout=subprocess.PIPE, stderr=subprocess.PIPE, timeout=60)
            case = {"kind": "inproc", "seq": seq, "calls": [(w["phase"], w["beh"], w["missing"]) for w in wants]}
            for k, w in enumerate(wants):
                sh.evaluations += 1
                sh.count("route_inproc")
                what = "call #%d (%s, %s) of %d programmatic calls in one process%s" % (k, w["phase"], w["beh"], len(wants), ", %s unset for this call" % w["missing"] if w["missing"] else "")
                if not os.path.exists(w["result"]):
                    sh.violation("inproc:no-result", "%s: the process ended before the call returned (exit %d): %s" % (what, p.returncode, p.stderr.decode(errors="replace")[-300:]), case)
                    break
                got = json.load(open(w["result"]))
                marker = open(w["lay"].marker).read().split("\n")[:-1] if os.path.exists(w["lay"].marker) else []
                ran = [m for m in marker if m in ("detect", "build")]
                if w["missing"]:
                    if "err" not in got or ran:
                        sh.violation("inproc:missing-input-accepted:%s" % w["missing"], "%s: returned %r and the buildpack code ran %r - expected an error before the buildpack code" % (what, got, ran), case)
                        break
                    sh.nontrivial.add(("inproc", w["phase"], "missing", w["missing"], k))
                    continue
                want_code = {"pass": 0, "plan": 0, "fail": 100, "ok": 0}[w["beh"]]
                if got.get("code") != want_code or ran != [w["phase"]]:
                    sh.violation("inproc:result", "%s: returned %r (expected code %d), buildpack code ran %r" % (what, got, want_code, ran), case)
                    break
                sh.nontrivial.add(("inproc", w["phase"], w["beh"], k, bool(k and wants[k - 1]["missing"])))
        finally:
            vp.rmtree(root)
    return sh.dict()


def dotdot_shard(arg):
    """path arguments that reach their file through a symbolic link followed by '..' (<root>/hop/../plan.toml with hop -> <root>/platform/env):
    the file system's reading of such a path is the one that counts - the outputs land where the kernel says the path leads, the file that the
    textually simplified path names is not touched"""
    idxs, seed, work = arg
    sh = vp.Shard()
    for idx in idxs:
        lay = phase.Layout(os.path.join(work, "dotdot-%d-%d" % (os.getpid(), idx)), exe="vpbpm" if idx % 2 else "vpbp")
        try:
            lay.create()
            with open(os.path.join(lay.bp, "buildpack.toml"), "w") as f:
                f.write(phase.BP_TOML_OK)
            os.makedirs(os.path.join(lay.platform, "env"))
            os.symlink(os.path.join(lay.platform, "env"), os.path.join(lay.root, "hop"))        # two levels down: hop/.. is <root>/platform
            name = ["detect", "build"][idx % 2]
            sh.evaluations += 1
            sh.count("route_dotdot")
            case = {"kind": "dotdot", "idx": idx, "phase": name}
            if name == "detect":
                real, decoy = os.path.join(lay.platform, "plan.toml"), os.path.join(lay.root, "plan.toml")
                for p_ in (real, decoy):
                    with open(p_, "w") as f:
                        f.write("")
                st, marker, err = lay.run("detect", [lay.platform, os.path.join(lay.root, "hop", "..", "plan.toml")], lay.env(), {"marker": lay.marker, "detect": {"result": "plan", "plan": [["provides", "x"]]}})
                if st != 0 or open(decoy).read() != "" or "provides" not in open(real).read():
                    sh.violation("dotdot:detect", "detect with the plan path <root>/hop/../plan.toml (hop -> <root>/platform/env): exit %d, the file the path leads to holds %r, the file <root>/plan.toml holds %r"
                                 % (st, open(real).read()[:80], open(decoy).read()[:80]), case)
                    continue
            else:
                # the layers directory <root>/hop/../L is <root>/platform/L; <root>/L is something else
                real, decoy = os.path.join(lay.platform, "L"), os.path.join(lay.root, "L")
                os.makedirs(real)
                os.makedirs(decoy)
                with open(lay.plan, "w") as f:
                    f.write('[[entries]]\nname = "x"\n')
                script = {"marker": lay.marker, "build": {"result": "ok", "launch": launch_spec(vp.rng(seed, "c05-dotdot", idx)), "store": None, "build_sboms": ["cdx"], "launch_sboms": [], "order": ["launch", "store", "bsbom", "lsbom"]}}
                st, marker, err = lay.run("build", [os.path.join(lay.root, "hop", "..", "L"), lay.platform, lay.plan], lay.env(), script)
                if st != 0 or os.listdir(decoy) or sorted(os.listdir(real)) != ["build.sbom.cdx.json", "launch.toml"]:
                    sh.violation("dotdot:build", "build with the layers directory <root>/hop/../L (hop -> <root>/platform/env): exit %d, the directory the path leads to holds %r, <root>/L holds %r (%s)"
                                 % (st, sorted(os.listdir(real)), sorted(os.listdir(decoy)), err[-200:]), case)
                    continue
            sh.nontrivial.add(("dotdot", name, lay.exe))
        finally:
            vp.rmtree(lay.root)
    return sh.dict()


def shard_run(arg):
    items, seed, work = arg
    sh = vp.Shard()
    lay = phase.Layout(os.path.join(work, "w%d" % os.getpid()))
    try:
        for idx, cfg in items:
            run_cfg(lay, cfg, idx, seed, sh)
    finally:
        vp.rmtree(lay.root)
    return sh.dict()


def run(tier, seed, work):
    res = vp.Result("C05", tier, seed, "exploration")
    res.after_error_routes = ['builds_that_handled_a_failed_layer_write_before_returning']      # routes added in round 12 (a handled failure followed by ordinary work): must have observed something
    r = vp.rng(seed, "c05-gen")
    cfgs = []
    for f in reaching_fronts():
        for b in (DETECT_BEH if f["name"] == "detect" else BUILD_BEH):
            cfgs.append(with_beh(f, r, b))
    fronts = all_fronts()
    for _ in range(1 if tier == "quick" else 4):
        cfgs += [with_beh(f, r) for f in fronts]
    for name in ("detect", "build"):
        for pre in (False, True):
            cfgs.append({"name": name, "argc": 2 if name == "detect" else 3, "toml": "ok", "envmask": [True] * 5, "platform": "ok", "pre": pre, "raw_path": True,
                         "beh": "plan" if name == "detect" else {"result": "ok", "launch": True, "store": False, "build_sboms": [], "launch_sboms": []}})
    full = {"result": "ok", "launch": True, "store": True, "build_sboms": ["cdx", "spdx", "syft"], "launch_sboms": ["spdx", "cdx"]}
    for out in ["plan.toml", "launch.toml", "store.toml", "build.sbom.cdx.json", "build.sbom.syft.json", "launch.sbom.spdx.json", "launch.sbom.cdx.json"]:
        name = "detect" if out == "plan.toml" else "build"
        cfgs.append({"name": name, "argc": 2 if name == "detect" else 3, "toml": "ok", "envmask": [True] * 5, "platform": "ok", "pre": False, "unwritable": out,
                     "beh": "plan" if name == "detect" else dict(full)})
        if name == "build":
            # the same with a result that provides only this one output
            only = {"result": "ok", "launch": out == "launch.toml", "store": out == "store.toml", "build_sboms": [out.split(".")[2]] if out.startswith("build.sbom") else [],
                    "launch_sboms": [out.split(".")[2]] if out.startswith("launch.sbom") else []}
            cfgs.append({"name": name, "argc": 3, "toml": "ok", "envmask": [True] * 5, "platform": "ok", "pre": False, "unwritable": out, "beh": only})
            # ... and with results that do not provide it: success, error result
            none = {"result": "ok", "launch": False, "store": False, "build_sboms": [], "launch_sboms": []}
            cfgs.append({"name": name, "argc": 3, "toml": "ok", "envmask": [True] * 5, "platform": "ok", "pre": False, "unwritable": out, "beh": none})
            cfgs.append({"name": name, "argc": 3, "toml": "ok", "envmask": [True] * 5, "platform": "ok", "pre": False, "unwritable": out, "beh": {"result": "boom-build"}})
        else:
            for b in DETECT_BEH:
                if b != "plan":
                    cfgs.append({"name": name, "argc": 2, "toml": "ok", "envmask": [True] * 5, "platform": "ok", "pre": False, "unwritable": out, "beh": b})
    # every one of these again with the output being a directory (store.toml excepted: it is also an input, read before the buildpack code runs)
    cfgs += [dict(c, unwritable_kind="dir") for c in cfgs if c.get("unwritable") and c["unwritable"] != "store.toml"]
    for d in vp.pmap(inproc_shard, [(sq, seed, work) for sq in vp.split(range(160 if tier == "quick" else 3000), vp.NCPU)]):
        res.merge(d)
    for d in vp.pmap(dotdot_shard, [(sq, seed, work) for sq in vp.split(range(16 if tier == "quick" else 200), 4)]):
        res.merge(d)
    res.required = ["route_inproc", "route_dotdot"]
    items = list(enumerate(cfgs))
    for d in vp.pmap(shard_run, [(s, seed, work) for s in vp.split(items, vp.NCPU * 2)]):
        res.merge(d)
    if True:
        res.exhaustive = True
        res.extra["exhaustive_bound"] = ("full product of executable name (4) x argc 0..4 x buildpack.toml kind (%d) x presence of each of the 5 CNB_TARGET_* variables x platform/plan condition (3-5) x "
                                         "pre-existing outputs (2), each with %d seed-chosen behaviour(s), plus every behaviour (4 detect, 38 build) on every dispatching configuration" % (len(TOMLS), 1 if tier == "quick" else 4))
    res.extra["process_runs"] = len(cfgs)
    res.rule = ("evaluations = executions of the real runtime as a process. distinct_nontrivial = distinct decision-table cells exercised: (name, argc, buildpack.toml kind, presence of the 4 mandatory "
                "target variables, platform/plan condition, pre-existing outputs, behaviour class)")
    res.assumptions = ["exact non-zero exit codes are not asserted, only the classes the statement names (0, 100, neither, non-zero)",
                       "for failures before dispatch (API mismatch, wrong name, wrong argc, missing CNB_BUILDPACK_DIR) only 'never reaches detect/build, never exits 0, on_error at most once' is required",
                       "an unreadable platform is simulated by <platform>/env being a regular file (the sandbox runs as root)"]
    res.required = list(getattr(res, "required", [])) + res.after_error_routes
    return res


def replay(case, work):
    res = vp.Result("C05", "quick", 0, "exploration")
    sh = vp.Shard()
    lay = phase.Layout(os.path.join(work, "replay"))
    run_cfg(lay, case["cfg"], case["idx"], int(os.environ.get("VERIF_SEED", "0")), sh)
    sh.nontrivial.update({"replay-a", "replay-b"})
    res.merge(sh.dict())
    res.rule = "replay of one recorded configuration"
    res.sample(case)
    return res
