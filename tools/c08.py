"""C08 — strict parsing of CNB documents: valid documents give exactly their values (with spec
defaults), every single-point mutation (unknown key, missing required key, wrong kind, mixed
component/composite) is rejected."""
import copy
import zlib
import tomllib
import os

import tomlw
import vp

# ---- schema ------------------------------------------------------------------------------
# field spec: (node, required, certain) — "certain" = the spec certainly requires it (usable for delete-mutants)
S, B, LS, OPEN = "S", "B", "LS", "OPEN"


class T:
    def __init__(self, **fields):
        self.fields = {k.replace("_", "-"): v for k, v in fields.items()}


class A:
    def __init__(self, item):
        self.item = item


LICENSE = T(type=(S, False, False), uri=(S, False, False))
BUILDPACK = T(id=(S, True, True), name=(S, False, False), version=(S, True, True), homepage=(S, False, False), clear_env=(B, False, False),
              description=(S, False, False), keywords=(LS, False, False), licenses=(A(LICENSE), False, False), sbom_formats=(LS, False, False))
STACK = T(id=(S, True, True), mixins=(LS, False, False))
DISTRO = T(name=(S, True, False), version=(S, True, False))
TARGET = T(os=(S, False, False), arch=(S, False, False), variant=(S, False, False), distros=(A(DISTRO), False, False))
GROUP = T(id=(S, True, True), version=(S, True, True), optional=(B, False, False))
ORDER = T(group=(A(GROUP), True, True))
COMPONENT = T(api=(S, True, True), buildpack=(BUILDPACK, True, True), stacks=(A(STACK), False, False), targets=(A(TARGET), False, False), metadata=(OPEN, False, False))
COMPOSITE = T(api=(S, True, True), buildpack=(BUILDPACK, True, True), order=(A(ORDER), True, True), metadata=(OPEN, False, False))
ENTRY = T(name=(S, True, True), metadata=(OPEN, False, False))
PLAN = T(entries=(A(ENTRY), False, False))
TYPES = T(launch=(B, False, False), build=(B, False, False), cache=(B, False, False))
LAYER = T(types=(TYPES, False, False), metadata=(OPEN, False, False))
PROC = T(type=(S, True, True), command=(LS, True, True), args=(LS, False, False), default=(B, False, False), working_dir=(S, False, False))
LABEL = T(key=(S, True, True), value=(S, True, True))
SLICE = T(paths=(LS, True, True))
LAUNCH = T(processes=(A(PROC), False, False), labels=(A(LABEL), False, False), slices=(A(SLICE), False, False))
STORE = T(metadata=(OPEN, True, False))
PKG_BP = T(uri=(S, True, True))
PKG_DEP = T(uri=(S, True, True))
PLATFORM = T(os=(S, True, False))
PACKAGE = T(buildpack=(PKG_BP, True, True), dependencies=(A(PKG_DEP), False, False), platform=(PLATFORM, False, False))

FORMATS = {"component": COMPONENT, "composite": COMPOSITE, "buildpack_plan": PLAN, "layer_toml": LAYER, "launch": LAUNCH, "store": STORE, "package": PACKAGE}

IDS = ["heroku/java", "a", "a.b/c-d", "x/y/z", "0", "samples/ruby", "App", "CONFIG", "Sbom", "apps", "my-app", "config.d", "a" * 300]      # not reserved: only the exact lower-case words are
VERSIONS = ["0.0.1", "1.2.3", "10.20.30", "0.0.0", "18446744073709551615.0.1"]
SBOM = ["application/vnd.cyclonedx+json", "application/spdx+json", "application/vnd.syft+json"]
STR = ["", "plain", 'q"uote', "nl\nline", "café", "日本語", "with space", "back\\slash", "#hash", "x" * 120]
URIS = [".", "./", "../x", "/abs", "docker://docker.io/heroku/procfile-cnb:2.0.1", "libcnb:heroku/nodejs", "urn:cnb:registry:heroku/nodejs@1.2.3",
        # spellings a URI normaliser would change (host case, dot segments, percent-encoding of unreserved characters, default port, empty path);
        # the scheme stays lower-case and the path non-empty here (upper-case schemes and authority-only URIs are C14's listed findings)
        "docker://Docker.IO/Heroku/Procfile-CNB:2.0.1", "https://example.com/a/../b/./c.cnb", "https://EXAMPLE.com/%7Euser/%41.cnb", "https://example.com:443/", "file:///A/./b//c",
        "a/./b/../c", "./x/", "x//y"]


def sval(r, path):
    leaf = path[-1] if isinstance(path[-1], str) else path[-2]
    top = path[0]
    if leaf == "api":
        return r.choice(["0.10", "0.9", "1.0", "2", "0.10"])
    if leaf == "id" and ("buildpack" in path or "group" in path):
        return r.choice(IDS)
    if leaf == "version" and "distros" not in path:
        return r.choice(VERSIONS)
    if leaf == "uri" and top in ("buildpack", "dependencies"):
        return r.choice(URIS)
    if leaf == "os" and top == "platform":
        return r.choice(["linux", "windows"])
    if leaf == "type" and top == "processes":
        return r.choice(["web", "worker", "a.b", "x_y-z", "9"])
    return r.choice(STR)


def gen(node, r, path, full=False):
    if node == S:
        return sval(r, path)
    if node == B:
        return r.random() < 0.5
    if node == LS:
        if path[-1] == "sbom-formats":
            return [r.choice(SBOM) for _ in range(r.choice([0, 1, 2, 4]))]
        return [r.choice(STR) for _ in range(r.choice([0, 1, 2, 3]))]
    if node == OPEN:
        return tomlw.rnd_table(r, 1, minkeys=0)
    if isinstance(node, A):
        n = r.choice([1, 2, 3]) if full else r.choice([0, 1, 1, 2, 3])
        return [gen(node.item, r, path + [i], full) for i in range(n)]
    out = {}
    for k, (sub, req, _) in node.fields.items():
        if req or full or r.random() < 0.5:
            out[k] = gen(sub, r, path + [k], full)
    return out


def fix_conflicts(fmt, doc):
    """component: never both... (stacks and targets may coexist); nothing to fix. Kept for clarity."""
    return doc


# ---- expected dumps (spec defaults filled; same shape as the executor's dump) -------------------

def vt(s):
    return [int(x) for x in s.split(".")]


def api_t(s):
    p = [int(x) for x in s.split(".")]
    return p + [0] if len(p) == 1 else p


def exp_bp(b):
    return {"id": b["id"], "name": b.get("name"), "version": vt(b["version"]), "homepage": b.get("homepage"), "clear-env": b.get("clear-env", False),
            "description": b.get("description"), "keywords": b.get("keywords", []),
            "licenses": [{"type": x.get("type"), "uri": x.get("uri")} for x in b.get("licenses", [])],
            "sbom-formats": sorted(set(b.get("sbom-formats", [])))}


def exp_md(m):
    return None if m is None else tomlw.to_py(m)


def expected(fmt, d):
    if fmt == "component":
        return {"kind": "component", "api": api_t(d["api"]), "buildpack": exp_bp(d["buildpack"]),
                "stacks": [{"id": s["id"], "mixins": s.get("mixins", [])} for s in d.get("stacks", [])],
                "targets": [{"os": t.get("os"), "arch": t.get("arch"), "variant": t.get("variant"),
                             "distros": [{"name": x["name"], "version": x["version"]} for x in t.get("distros", [])]} for t in d.get("targets", [])],
                "metadata": exp_md(d.get("metadata"))}
    if fmt == "composite":
        return {"kind": "composite", "api": api_t(d["api"]), "buildpack": exp_bp(d["buildpack"]),
                "order": [[{"id": g["id"], "version": vt(g["version"]), "optional": g.get("optional", False)} for g in o["group"]] for o in d["order"]],
                "metadata": exp_md(d.get("metadata"))}
    if fmt == "buildpack_plan":
        return {"entries": [{"name": e["name"], "metadata": tomlw.to_py(e.get("metadata", {}))} for e in d.get("entries", [])]}
    if fmt == "layer_toml":
        t = d.get("types")
        return {"types": None if t is None else {k: t.get(k, False) for k in ("launch", "build", "cache")}, "metadata": exp_md(d.get("metadata"))}
    if fmt == "launch":
        return {"processes": [{"type": p["type"], "command": p["command"], "args": p.get("args", []), "default": p.get("default", False),
                               "working-dir": p.get("working-dir")} for p in d.get("processes", [])],
                "labels": [{"key": x["key"], "value": x["value"]} for x in d.get("labels", [])],
                "slices": [{"paths": s["paths"]} for s in d.get("slices", [])]}
    if fmt == "store":
        return {"metadata": tomlw.to_py(d["metadata"])}
    if fmt == "package":
        return {"buildpack": {"uri": d["buildpack"]["uri"]}, "dependencies": [{"uri": x["uri"]} for x in d.get("dependencies", [])],
                "platform": {"os": d.get("platform", {}).get("os", "linux")}}
    raise AssertionError(fmt)


def norm_dump(fmt, v):
    """executor dump -> comparable python (metadata arrives in the tagged encoding)"""
    v = copy.deepcopy(v)
    if fmt in ("component", "composite", "layer_toml"):
        v["metadata"] = None if v["metadata"] is None else tomlw.untagged(v["metadata"])
    elif fmt == "buildpack_plan":
        for e in v["entries"]:
            e["metadata"] = tomlw.untagged(e["metadata"])
    elif fmt == "store":
        v["metadata"] = tomlw.untagged(v["metadata"])
    return v


# ---- mutants -------------------------------------------------------------------------------

def get_at(doc, path):
    for p in path:
        doc = doc[p]
    return doc


def walk(node, value, path, out):
    """yield (schema node, value, path) for every table/leaf in the non-metadata part"""
    out.append((node, value, path))
    if isinstance(node, T):
        for k, (sub, _, _) in node.fields.items():
            if k in value:
                walk(sub, value[k], path + [k], out)
    elif isinstance(node, A):
        for i, item in enumerate(value):
            walk(node.item, item, path + [i], out)


def table_path(path):
    return ".".join("[]" if isinstance(p, int) else p for p in path) or "<root>"


import random
_LOOKALIKE_RNG = random.Random(20261003)


def mutants(fmt, doc):
    nodes = []
    walk(FORMATS[fmt], doc, [], nodes)
    out = []
    for node, value, path in nodes:
        if isinstance(node, T):
            for uk, uv in (("vp-unknown", "x"), ("Extra_Key", {"nested": 1})):
                m = copy.deepcopy(doc)
                get_at(m, path)[uk] = uv
                out.append(("unknown-key", table_path(path), m))
                break_after_first = True
                if break_after_first and len(out) % 7:
                    break
            # look-alike keys: the spelling variants a lenient alias would accept
            for k in list(node.fields):
                for cand in {k.replace("-", "_"), k.replace("_", "-"), k.capitalize(), k.upper(), k + "s", k[:-1] if k.endswith("s") else k, k.replace("-", "")}:
                    if cand != k and cand not in node.fields and cand not in value:
                        # the key is *renamed* to its look-alike and keeps a value of the right kind, so that only the spelling is wrong
                        m = copy.deepcopy(doc)
                        tgt = get_at(m, path)
                        tgt[cand] = tgt.pop(k) if k in tgt else gen(node.fields[k][0], _LOOKALIKE_RNG, path + [k], full=True)
                        if node.fields[k][1] and k not in value:
                            continue
                        out.append(("lookalike-key" if not (node.fields[k][1]) else "lookalike-key-required", table_path(path + [k]), m))
            for k, (sub, req, certain) in node.fields.items():
                if certain and k in value:
                    m = copy.deepcopy(doc)
                    del get_at(m, path)[k]
                    out.append(("delete-required", table_path(path + [k]), m))
        elif node in (S, B, LS):
            m = copy.deepcopy(doc)
            parent = get_at(m, path[:-1])
            parent[path[-1]] = {S: 42, B: "true", LS: "not-an-array"}[node]
            out.append(("retype", table_path(path), m))
            # ... and the other kinds TOML has: a date/time literal is not a string (nor a boolean), whatever it looks like when printed
            others = {S: [tomlw.Dt("1979-05-27T07:32:00Z"), tomlw.Dt("1979-05-27"), tomlw.Dt("07:32:00"), 1.5, True, {"value": value}], B: [1, tomlw.Dt("1979-05-27")], LS: [tomlw.Dt("1979-05-27T07:32:00")]}[node]
            alt = others[zlib.crc32(repr(path).encode()) % len(others)]
            m = copy.deepcopy(doc)
            get_at(m, path[:-1])[path[-1]] = alt
            out.append(("retype-" + ("datetime" if isinstance(alt, tomlw.Dt) else type(alt).__name__), table_path(path), m))
            if node == LS and value:
                m = copy.deepcopy(doc)
                get_at(m, path)[0] = 7
                out.append(("retype-element", table_path(path), m))
            if node == S:
                m = copy.deepcopy(doc)
                parent = get_at(m, path[:-1])
                parent[path[-1]] = [value]
                out.append(("retype-array", table_path(path), m))
        elif isinstance(node, A):
            m = copy.deepcopy(doc)
            parent = get_at(m, path[:-1])
            parent[path[-1]] = "not-an-array-of-tables"
            out.append(("retype", table_path(path), m))
    if fmt == "component":
        m = copy.deepcopy(doc)
        m["order"] = [{"group": [{"id": "a/b", "version": "1.0.0"}]}]
        out.append(("add-order-to-component", "<root>", m))
    if fmt == "composite":
        m = copy.deepcopy(doc)
        m["targets"] = [{"os": "linux", "arch": "amd64"}]
        out.append(("add-targets-to-composite", "<root>", m))
        m = copy.deepcopy(doc)
        m["stacks"] = [{"id": "*"}]
        out.append(("add-stacks-to-composite", "<root>", m))
    return out


def parse_types(fmt):
    if fmt in ("component", "composite"):
        return [fmt, "buildpack_descriptor"]
    return [fmt]


LAYER_ROUTES = {
    "cached_layer": {"op": "cached", "name": "L", "build": True, "launch": False, "mtype": "typed", "restored": {"action": "keep", "cause": "c"}, "invalid": {"action": "delete", "cause": "i"}},
    "uncached_layer": {"op": "uncached", "name": "L", "build": True, "launch": False},
    "write_metadata": {"op": "write_metadata", "name": "L", "metadata": {"t": [["k", {"s": "v"}]]}},
    "handle_layer": {"op": "handle", "name": "L", "impl": "v1", "types": {"launch": True, "build": False, "cache": True}, "strategy": "keep", "migrate": {"action": "recreate", "metadata_value": "m"},
                     "create": {"metadata_value": "n", "env": None, "exec_d": [], "sboms": [], "write_files": [], "delete_files": []},
                     "update": {"metadata_value": "n", "env": None, "exec_d": [], "sboms": [], "write_files": [], "delete_files": []}},
}


def layer_api_routes(lmon, work, idx, valid_text, mtexts, sh):
    """The same strictness must hold where libcnb itself reads <layer>.toml: a document the strict parser rejects must not be
    accepted (and the layer silently deleted / recreated) through the layer API."""
    root = os.path.join(work, "c08-layers-%d" % os.getpid())
    # the document that is read is <layers>/<name>.toml for the name as it is - also when the name has dots, or a sibling layer's
    # name is its stem
    L = ["L", "python-3.11", "a.b", "L"][idx % 4]
    for route, req in LAYER_ROUTES.items():
        req = dict(req, name=L)
        for kind, where, text in [("valid", "-", valid_text)] + [m for m in mtexts if m[0] != "delete-required"]:
            vp.rmtree(root)
            if idx % 8 == 3:
                # the layer directory is a symbolic link with a RELATIVE target (a volume mounted next to <layers>): relative to <layers>, not to
                # wherever the process happens to stand
                os.makedirs(os.path.join(root, "vol", L))
                os.makedirs(os.path.join(root, "layers"))
                os.symlink(os.path.join("..", "vol", L), os.path.join(root, "layers", L))
                sh.count("route_layer_dir_is_relative_symlink")
            else:
                os.makedirs(os.path.join(root, "layers", L))
            with open(os.path.join(root, "layers", L, "payload"), "w") as f:
                f.write("precious cached content")
            with open(os.path.join(root, "layers", L + ".toml"), "w") as f:
                f.write(text)
            if "." in L:
                # a sibling whose name is the stem, with a perfectly valid document of its own
                os.makedirs(os.path.join(root, "layers", L.rsplit(".", 1)[0]))
                with open(os.path.join(root, "layers", L.rsplit(".", 1)[0] + ".toml"), "w") as f:
                    f.write('[types]\ncache = true\n\n[metadata]\nversion = "sibling"\n')
            lmon.call({"op": "init", "layers_dir": os.path.join(root, "layers"), "app_dir": root, "bp_dir": root})
            if route == "write_metadata":
                # the handle is obtained while the file is a plain valid one; the document under test is what the file holds when
                # LayerRef::write_metadata re-reads it (to keep the [types] table)
                with open(os.path.join(root, "layers", L + ".toml"), "w") as f:
                    f.write('[metadata]\nversion = "1"\n')
                r0 = lmon.call(dict(LAYER_ROUTES["cached_layer"], name=L))
                if "err" in r0:
                    # (a plain valid file: if this fails, an earlier rejected document is still having an effect)
                    sh.violation("layer-api:cached_layer:valid-rejected-after-a-rejection", "cached_layer fails on the plain valid <layer>.toml '[metadata] version = \"1\"' (the documents read before it in this process were rejected ones): %s" % r0.get("detail", "")[:300],
                                 {"format": "layer_toml", "as": route, "kind": "valid", "where": "-", "text": '[metadata]\nversion = "1"\n', "route": "layer-api"})
                    vp.rmtree(root)
                    return
                with open(os.path.join(root, "layers", L + ".toml"), "w") as f:
                    f.write(text)
            rep = lmon.call(req)
            sh.evaluations += 1
            case = {"format": "layer_toml", "as": route, "kind": kind, "where": where, "text": text, "route": "layer-api"}
            if kind == "valid" and "err" in rep:
                sh.violation("layer-api:%s:valid-rejected" % route, "%s fails on a spec-conforming <layer>.toml: %s\n%s" % (route, rep["detail"][:200], text[:300]), case)
            if kind != "valid":
                sh.nontrivial.add(("layer_toml", route, where, kind))
                if "err" not in rep:
                    sh.violation("layer-api:%s:%s" % (route, kind), "%s accepts a <layer>.toml the strict parser rejects (%s at %s); result %r, layer content afterwards %r\n%s"
                                 % (route, kind, where, rep.get("state") or "LayerData", sorted(os.listdir(os.path.join(root, "layers", L))) if os.path.isdir(os.path.join(root, "layers", L)) else None, text[:300]), case)
    vp.rmtree(root)


_BP = 'api = "0.10"\n'
_BPT = '\n[buildpack]\nid = "a/b"\nversion = "1.0.0"\n'
# a table written as an array of its values (in the order the spec lists the keys): not a value of the right kind
TABLE_AS_ARRAY = [("layer_toml", "types", 'types = [true, false, true]\n'),
                  ("composite", "order[].group[]", _BP + _BPT + '[[order]]\ngroup = [["a/c", "1.0.0"]]\n'),
                  ("composite", "order[]", _BP + 'order = [[[{id = "a/c", version = "1.0.0"}]]]\n' + _BPT),
                  ("component", "targets[]", _BP + 'targets = [["linux", "amd64"]]\n' + _BPT),
                  ("component", "stacks[]", _BP + 'stacks = [["io.buildpacks.stacks.jammy"]]\n' + _BPT),
                  ("component", "buildpack.licenses[]", _BP + _BPT + 'licenses = [["MIT", "https://example.com/license"]]\n'),
                  ("component", "targets[].distros[]", _BP + _BPT + '[[targets]]\nos = "linux"\ndistros = [["ubuntu", "24.04"]]\n'),
                  ("package", "buildpack", 'buildpack = ["."]\n'),
                  ("package", "dependencies[]", 'dependencies = [["docker://docker.io/x/y"]]\n[buildpack]\nuri = "."\n'),
                  ("package", "platform", 'platform = ["linux"]\n[buildpack]\nuri = "."\n'),
                  ("launch", "labels[]", 'labels = [["k", "v"]]\n'),
                  ("launch", "processes[]", 'processes = [["web", ["run"]]]\n'),
                  ("launch", "slices[]", 'slices = [[["a/*"]]]\n'),
                  ("buildpack_plan", "entries[]", 'entries = [["x"]]\n'),
                  ("store", "metadata", 'metadata = [1]\n')]


def table_as_array_probes(mon, tmp, sh):
    items = [[t, text, via] for t, _, text in TABLE_AS_ARRAY for via in (False, True)]
    res = mon.call({"op": "docs", "items": items, "tmp": tmp})["results"]
    for (t, where, text), via, x in ((TABLE_AS_ARRAY[i // 2], bool(i % 2), r) for i, r in enumerate(res)):
        sh.evaluations += 1
        sh.nontrivial.add((t, where, "table-as-array"))
        try:
            tomllib.loads(text)
        except Exception as e:  # noqa: BLE001
            raise vp.Broken("table-as-array probe is not valid TOML: %s\n%s" % (e, text))
        if x["ok"]:
            sh.violation("table-as-array:%s" % t, "the table %s of a %s document written as an array of its values (%s) is accepted%s; parsed as %r"
                         % (where, t, text.strip().replace("\n", " / "), " (read from a file with read_toml_file)" if via else "", x["value"]), {"format": t, "as": t, "kind": "table-as-array", "where": where, "text": text, "via_file": via})


def shard_run(arg):
    seed, idxs, work = arg
    sh = vp.Shard()
    mon = vp.Mon("parse")
    lmon = vp.Mon("layers")
    tmp = os.path.join(work, "c08-%d.toml" % os.getpid())
    fmts = list(FORMATS)
    try:
        if idxs and idxs[0] == 0:
            table_as_array_probes(mon, tmp, sh)
        for idx in idxs:
            r = vp.rng(seed, "c08", idx)
            fmt = fmts[idx % len(fmts)] if idx % 3 else r.choice(["component", "composite"])
            doc = gen(FORMATS[fmt], r, [], full=(idx % 5 == 0))
            # metadata may hold anything, including keys that look like schema keys
            text = tomlw.selfcheck(doc, tomlw.doc(doc, inline_depth=r.choice([0, 1, 2, 3])))
            # every document goes through one of two routes: the text through toml::from_str, or a file through read_toml_file (what the
            # runtime and the packaging code use). Valid documents go through both.
            items = [[t, text, False] for t in parse_types(fmt)] + [[t, text, True] for t in parse_types(fmt)]
            muts = mutants(fmt, doc)
            mtexts = []
            for kind, where, m in muts:
                try:
                    mt = tomlw.doc(m, inline_depth=r.choice([0, 2, 3]))
                except TypeError:
                    continue
                mtexts.append((kind, where, mt))
                for t in parse_types(fmt):
                    items.append([t, mt, len(items) % 2 == 1])
            rep = mon.call({"op": "docs", "items": items, "tmp": tmp})
            res = rep["results"]
            want = expected(fmt, doc)
            pos = 0
            for route in ("", " (read from a file with read_toml_file)"):
              for t in parse_types(fmt):
                sh.evaluations += 1
                x = res[pos]
                pos += 1
                case = {"format": fmt, "as": t, "kind": "valid", "text": text, "via_file": bool(route)}
                if not x["ok"]:
                    sh.violation("%s:valid-rejected" % t, "a spec-conforming %s document is rejected as %s%s: %s\n%s" % (fmt, t, route, x["err"], text[:500]), case)
                    continue
                got = norm_dump(fmt, x["value"])
                if not tomlw.same(got, want):
                    sh.violation("%s:values" % t, "parsed values%s differ from the document: got %r want %r" % (route, got, want), case)
            for kind, where, mt in mtexts:
                for t in parse_types(fmt):
                    sh.evaluations += 1
                    x = res[pos]
                    pos += 1
                    if t == "buildpack_descriptor":
                        # through the classifying type some mutants are simply a valid document of the other kind
                        if kind == "delete-required" and where == "order":
                            if not (x["ok"] and x["value"]["kind"] == "component"):
                                sh.violation("buildpack_descriptor:classify", "a descriptor without order is not classified as component: %r" % (x,),
                                             {"format": fmt, "as": t, "kind": kind, "where": where, "text": mt})
                            continue
                        if kind == "add-order-to-component" and "stacks" not in doc and "targets" not in doc:
                            if not (x["ok"] and x["value"]["kind"] == "composite"):
                                sh.violation("buildpack_descriptor:classify", "a descriptor with order and neither stacks nor targets is not classified as composite: %r" % (x,),
                                             {"format": fmt, "as": t, "kind": kind, "where": where, "text": mt})
                            continue
                    sh.nontrivial.add((fmt, where, kind))
                    if x["ok"]:
                        sh.violation("%s:%s:%s" % (t, kind, where), "%s mutant (%s at %s) of a valid %s document is accepted as %s%s:\n%s"
                                     % (kind, kind, where, fmt, t, " (read from a file with read_toml_file)" if items[pos - 1][2] else "", mt[:700]),
                                     {"format": fmt, "as": t, "kind": kind, "where": where, "text": mt, "via_file": items[pos - 1][2]})
            if fmt == "layer_toml":
                layer_api_routes(lmon, work, idx, text, mtexts, sh)
            if idx % 50 == 0:
                sh.sample({"format": fmt, "valid_document_head": text[:300], "mutants_tried": len(mtexts), "mutant_kinds": sorted({k for k, _, _ in mtexts})}, cap=1)
    finally:
        mon.close()
        lmon.close()
        if os.path.exists(tmp):
            os.unlink(tmp)
    return sh.dict()


def run(tier, seed, work):
    res = vp.Result("C08", tier, seed, "exploration")
    n = 1000 if tier == "quick" else 20000
    for d in vp.pmap(shard_run, [(seed, s, work) for s in vp.split(range(n), vp.NCPU)]):
        res.merge(d)
    res.extra["base_documents"] = n
    res.required = ["route_layer_dir_is_relative_symlink"]
    res.rule = ("evaluations = (document, target type) parses judged. distinct_nontrivial = distinct (format, table path, mutation kind) triples among the mutants "
                "[unknown-key, delete-required, retype, retype-element, retype-array, add-order/targets/stacks]")
    res.assumptions = ["keys whose optionality the spec leaves open (platform.os inside [platform], store.metadata, distro name/version) are never used for delete-required mutants",
                       "unknown keys inside free-form metadata must be accepted and preserved (checked on every valid document)"]
    return res


def replay(case, work):
    res = vp.Result("C08", "quick", 0, "exploration")
    if case.get("route") == "layer-api":
        sh = vp.Shard()
        lmon = vp.Mon("layers")
        layer_api_routes(lmon, work, 0, case["text"] if case["kind"] == "valid" else "", [] if case["kind"] == "valid" else [(case["kind"], case["where"], case["text"])], sh)
        lmon.close()
        sh.nontrivial.update({"replay-a", "replay-b"})
        res.merge(sh.dict())
        res.rule = "replay of one recorded case"
        return res
    mon = vp.Mon("parse")
    rep = mon.call({"op": "docs", "items": [[case["as"], case["text"], bool(case.get("via_file"))]], "tmp": os.path.join(work, "r.toml")})
    mon.close()
    x = rep["results"][0]
    res.evaluations += 1
    print("document:\n%s\nresult: %r" % (case["text"], x))
    if case["kind"] == "valid" and not x["ok"]:
        res.violation("%s:valid-rejected" % case["as"], "valid document rejected: %s" % x.get("err"), case)
    if case["kind"] != "valid" and x["ok"]:
        res.violation("%s:%s:%s" % (case["as"], case["kind"], case.get("where")), "mutant accepted", case)
    res.nontrivial.update({"replay-a", "replay-b"})
    res.rule = "replay of one recorded case"
    res.sample({k: v for k, v in case.items() if k != "text"})
    return res
