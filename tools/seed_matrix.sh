#!/bin/bash
# usage: tools/seed_matrix.sh [seed-dir ...]   — runs every seeded change against the quick check of its property
# in a scratch clone (repo worktree + copy of /verif) so that /repo itself is never touched. Writes seeded/MATRIX.tsv.
set -u
MX=${MX:-/tmp/vp-mx}
rm -rf $MX; mkdir -p $MX
git -C /repo worktree prune
git -C /repo worktree add -q --detach $MX/repo HEAD || exit 3
rsync -a --exclude harness/target --exclude .git --exclude replay --exclude work /verif/ $MX/verif/
sed -i "s|/repo/|$MX/repo/|g" $MX/verif/harness/Cargo.toml
export VP_REPO=$MX/repo
cd $MX/verif
out=${OUT:-/verif/seeded/MATRIX.tsv}
: > $out.tmp
seeds=${@:-$(ls -d /verif/seeded/*/ | xargs -n1 basename)}
for s in $seeds; do
  patch=/verif/seeded/$s/patch.diff
  case $s in
    unfix-D1) props="C01";; unfix-D8) props="C20";; unfix-D2) props="C02 C03";; unfix-D3) props="C09";; unfix-D4) props="C11";; unfix-D5) props="C19";; unfix-D6) props="C07";; unfix-D7|unfix-D9) props="C06";;
    C10-r3-1|C10-r5-1) props="C10 C02";;      # the returned LayerData of the trait API: C02's subject
    C03-r9-2|C07-r9-2) props="${s%%-*} C02";; C06-r9-2) props="C06 C09";; C07-r9-1) props="C07 C01";; C08-r9-1|C09-r9-2) props="${s%%-*} C14";; C13-r9-1) props="C13 C15";; C13-r9-2) props="C13 C16";;
    C03-r10-1|C07-r10-2|C08-r10-1) props="${s%%-*} C02";; C04-r10-1) props="C04 C10";; C06-r10-2) props="C06 C08";; C09-r10-1) props="C09 C13";; C09-r10-2) props="C09 C07";; C13-r10-1|C13-r10-2|C14-r10-1|C14-r10-2) props="${s%%-*} C15";;
    C04-r12-2|C10-r12-1|C10-r12-2|C20-r12-2) props="${s%%-*} C03";; C08-r12-2|C07-r12-2) props="${s%%-*} C01";; C13-r12-2) props="C13 C15";;
    C04-r11-2) props="C04 C10";; C07-r11-1) props="C07 C12";; C07-r11-2) props="C07 C01";; C08-r11-1) props="C08 C06";; C20-r11-2) props="C20 C05";;
    C02-r5-1) props="C02 C01";; C07-r5-1) props="C07 C01";; C08-r6-1) props="C08 C06";; C08-r6-2) props="C08 C15";; C08-r7-2) props="C08 C13";;      # a refused write that damages the layer file: seen by the next request (C01)
    *) props=${s%%-*};;
  esac
  git -C $MX/repo checkout -q -- . ; git -C $MX/repo apply $patch 2>/dev/null || { echo -e "$s\t-\tPATCH-DOES-NOT-APPLY" >> $out.tmp; continue; }
  for p in $props; do
    res=$(VERIF_SEED=${MXSEED:-0} ./check $p --tier quick 2>&1 | grep -E "^(VIOLATION|HELD|BROKEN)" | head -1 | cut -d' ' -f1)
    sig=$(ls replay 2>/dev/null | head -1)
    what=""; [ -n "$sig" ] && what=$(python3 -c "import json,sys; print(json.load(open('replay/$sig'))['sig'])")
    echo -e "$s\t$p\t${res:-NO-OUTPUT}\t$what" | tee -a $out.tmp
    rm -rf replay
  done
done
git -C $MX/repo checkout -q -- .
mv $out.tmp $out
git -C /repo worktree remove --force $MX/repo
rm -rf $MX
