"""C14 — composite package.toml normalisation (libcnb: replacement, relative -> absolute, rest verbatim)."""
import os
import posixpath
import tomllib

import tomlw
import vp

IDS = ["heroku/nodejs", "a/b", "x", "some.id/with-dash", "vp/n0", "deep/er/id", "a/b/", "x/", "a/b.c", "a/b-",      # "a/b/" and "a/b" are different, valid ids
       "Heroku/NodeJS", "A/B", "X", "a/B",
       "x/./y", "a/../cfg", "./tool", "x/y/.."]      # '.' and '..' are ordinary id characters: "x/./y" is not "x/y"                                                                          # ... and so are ids that differ in case only
OTHER_URIS = ["docker://docker.io/heroku/procfile-cnb:2.0.1", "docker://REGISTRY.Example.com:5000/Img@sha256:0123abcd",
              "https://example.com/bp.tgz?q=1&x=y#frag", "http://h/p", "HTTPS://Example.COM/Mixed/Case", "urn:cnb:registry:heroku/nodejs@1.2.3",
              "file:///abs/path/bp.cnb", "docker:/single-slash", "urn:cnb:builder:one",
              # spellings a URI normaliser would change: dot segments, percent-encoded unreserved characters, host case, default port
              "https://example.com/a/../b/./c.cnb", "https://EXAMPLE.com/%7Euser/%41.cnb", "docker://Docker.IO:443/Heroku/x//y",
              # authority only, empty path
              "https://example.com:8443", "http://h"]
ABS_PATHS = ["/abs/path", "/abs/../dots/./kept", "/trailing/", "/", "/a//b", "/x/y/../../../z", "/abs/team%20a/bp", "/abs/50%25/x", "/abs/%7Euser/%41"]      # a '%' in a path is a character of the path
LOCS = ["src", "a-b/x.y", "deep/er/still/more", "composite_1", "m", "team%20a/src"]
SEGS = [".", "..", "a", "b-c", "d.e", "", "..", "x_y", "~t", "1", "team%20a", "p%25c"]


def rel_path(r):
    n = r.randint(1, 7)
    parts = [r.choice(SEGS) for _ in range(n)]
    if r.random() < 0.25:
        parts = [".."] * r.randint(3, 12) + parts        # climb above the root
    p = "/".join(parts)
    if r.random() < 0.2:
        p += "/"
    if p.startswith("/"):
        p = "." + p
    if ":" in p.split("/")[0]:
        p = "./" + p
    return p


def gen_case(r, idx):
    loc = r.choice(LOCS)
    deps = []
    kinds = []
    for _ in range(r.choice([0, 1, 2, 3, 4, 6, 8]) if r.random() > 0.01 else r.randint(60, 300)):
        k = r.choice(["libcnb", "libcnb", "rel", "rel", "abs", "other", "other", "dup", "rel-like-id"])
        if k == "dup" and deps:
            deps.append(r.choice(deps))
            kinds.append("dup")
            continue
        if k == "libcnb":
            deps.append("libcnb:" + r.choice(IDS))
        elif k == "rel":
            deps.append(rel_path(r))
        elif k == "rel-like-id":
            # a relative path that happens to spell a buildpack id of the map: still a path
            deps.append(r.choice([i for i in IDS if ":" not in i]))
        elif k == "abs":
            deps.append(r.choice(ABS_PATHS))
        else:
            deps.append(r.choice(OTHER_URIS))
        kinds.append({"dup": "other", "rel-like-id": "rel"}.get(k, k))
    os_ = r.choice([None, "linux", "windows"])
    bp_uri = r.choice([".", "./", "../other", "docker://x/y", "bp"])
    referenced = sorted({d[len("libcnb:"):] for d in deps if d.startswith("libcnb:")})
    missing = None
    if referenced and r.random() < 0.25:
        missing = r.choice(referenced)
    mapping = {}
    for i in IDS:
        if i == missing:
            continue
        if i in referenced or r.random() < 0.5:
            style = r.random()
            base = "/out/%d/%s" % (idx, i.replace("/", "_") + ("-slash" if i.endswith("/") else ""))
            if style < 0.2:
                base = "/out/./%d/../%d/%s" % (idx, idx, i.replace("/", "_") + ("-slash" if i.endswith("/") else ""))
            mapping[i] = base
    return {"idx": idx, "loc": loc, "deps": deps, "os": os_, "bp_uri": bp_uri, "map": mapping, "missing": missing, "kinds": kinds}


def run_case(mon, base, case, sh):
    root = os.path.join(base, "c%d" % case["idx"])
    src = os.path.join(root, case["loc"])
    dest = os.path.join(root, "dest")
    os.makedirs(src)
    os.makedirs(dest)
    try:
        doc = {"buildpack": {"uri": case["bp_uri"]}}
        if case["deps"]:
            doc["dependencies"] = [{"uri": d} for d in case["deps"]]
        if case["os"]:
            doc["platform"] = {"os": case["os"]}
        text = tomlw.selfcheck(doc)
        with open(os.path.join(src, "package.toml"), "w") as f:
            f.write(text)
        bptoml = 'api = "0.10"\n[buildpack]\nid = "vp/composite"\nversion = "1.0.0"\n[[order]]\n[[order.group]]\nid = "a/b"\nversion = "1.0.0"\n'
        with open(os.path.join(src, "buildpack.toml"), "w") as f:
            f.write(bptoml)
        if case["idx"] % 2 == 0 and case["missing"] is None:
            # packaging again into the same destination: an older, longer package.toml and buildpack.toml are there already
            with open(os.path.join(dest, "package.toml"), "w") as f:
                f.write('[buildpack]\nuri = "."\n' + "".join('\n[[dependencies]]\nuri = "/stale/dependency/%d"\n' % i for i in range(30)))
            with open(os.path.join(dest, "buildpack.toml"), "w") as f:
                f.write("# stale\n" * 200)
        # the source directory as the caller spells it: plainly, or with '.' / '..' segments (a sibling directory and back; ending in "..")
        spell = case["idx"] % 4
        given = src
        if spell == 1:
            os.makedirs(os.path.join(root, "sibling"), exist_ok=True)
            given = os.path.join(root, "sibling", "..", ".", case["loc"])
        elif spell == 2:
            os.makedirs(os.path.join(src, "inner"), exist_ok=True)
            given = os.path.join(src, "inner", "..")
        elif spell == 3:
            # ... or through a symbolic link: relative dependencies are relative to the directory as it was named (what the author of the
            # package.toml sees), not to wherever the link leads
            os.symlink(".", os.path.join(root, "via-link"))
            given = os.path.join(root, "via-link", case["loc"])
        rep = mon.call({"op": "composite", "dir": given, "dest": dest, "map": [[k, v] for k, v in case["map"].items()]})
        sh.evaluations += 1
        out_path = os.path.join(dest, "package.toml")
        if case["missing"] is not None:
            if rep["ok"]:
                sh.violation("missing-id-accepted", "libcnb:%s has no known location but packaging succeeded (deps %r)" % (case["missing"], case["deps"]), case)
            elif os.path.exists(out_path):
                sh.violation("missing-id-output-written", "packaging failed for the unknown id %s but left a package.toml behind" % case["missing"], case)
            else:
                if case["missing"] not in rep["err"]:
                    sh.count("missing_id_error_without_name")
                sh.nontrivial.add(("missing", len(case["deps"])))
                # the caller packages the missing buildpack, completes the map and packages again into the same destination: judged below like a
                # first run (the failed attempt has no part in it)
                case = dict(case, map=dict(case["map"], **{case["missing"]: "/vp/packaged-late/" + case["missing"].replace("/", "_")}), missing=None, retried=True)
                rep = mon.call({"op": "composite", "dir": given, "dest": dest, "map": [[k, v] for k, v in case["map"].items()]})
                sh.count("retries_with_the_completed_map")
            if case["missing"] is not None:
                return
        if not rep["ok"]:
            sh.violation("valid-rejected", "valid composite descriptor rejected%s: %s (deps %r)" % (" (second run, with the completed map, after the run with a missing id was refused)" if case.get("retried") else "", rep["err"], case["deps"]), case)
            return
        raw = open(out_path, "rb").read()
        try:
            got = tomllib.loads(raw.decode())
        except Exception as e:  # noqa: BLE001
            sh.violation("output-not-toml", "written package.toml is not valid TOML: %s" % e, case)
            return
        want_deps = []
        for d in case["deps"]:
            if d.startswith("libcnb:"):
                want_deps.append(case["map"][d[len("libcnb:"):]])
            elif ":" in d.split("/")[0] or d.startswith("/"):
                want_deps.append(d)
            else:
                want_deps.append(posixpath.normpath(posixpath.join(given if spell == 3 else src, d)))
        got_deps = [x.get("uri") for x in got.get("dependencies", [])]
        # scheme case: uriparse lower-cases the scheme while parsing. Reported under its own exact signature
        # (a listed known finding); everything else about the case is still checked.
        if len(got_deps) == len(want_deps):
            for i, (g, w) in enumerate(zip(got_deps, want_deps)):
                if g != w and ":" in w and g == w.split(":", 1)[0].lower() + ":" + w.split(":", 1)[1]:
                    sh.violation("deps:scheme-lowercased", "URI %r is not copied verbatim: its scheme is written in lower case (%r)" % (w, g), case)
                    want_deps[i] = g
                # empty path after an authority: uriparse reads it as "/" (the second listed finding, same root cause)
                elif g != w and g == w + "/" and "://" in w and "/" not in w.split("://", 1)[1]:
                    sh.violation("deps:empty-path-slash", "URI %r is not copied verbatim: a '/' is appended to its empty path (%r)" % (w, g), case)
                    want_deps[i] = g
        if got_deps != want_deps:
            n = next((i for i in range(min(len(got_deps), len(want_deps))) if got_deps[i] != want_deps[i]), min(len(got_deps), len(want_deps)))
            kind = "count" if len(got_deps) != len(want_deps) else case["kinds"][n]
            sh.violation("deps:%s" % kind, "dependencies differ (package.toml in %s): input %r -> written %r, expected %r (first difference at #%d)"
                         % (src, case["deps"], got_deps, want_deps, n), case)
            return
        if got.get("buildpack", {}).get("uri") != case["bp_uri"]:
            sh.violation("buildpack-uri", "buildpack.uri %r became %r" % (case["bp_uri"], got.get("buildpack")), case)
            return
        if got.get("platform", {"os": "linux"}).get("os", "linux") != (case["os"] or "linux"):
            sh.violation("platform", "platform os %r became %r" % (case["os"], got.get("platform")), case)
            return
        extra = set(got) - {"buildpack", "dependencies", "platform"}
        if extra:
            sh.violation("extra-keys", "unexpected top-level keys %r" % extra, case)
            return
        if "reread_err" in rep:
            sh.violation("reread", "libcnb cannot read its own package.toml back: %s" % rep["reread_err"], case)
            return
        rr = rep["reread"]
        if rr["dependencies"] != want_deps or rr["buildpack"] != case["bp_uri"] or rr["os"] != (case["os"] or "linux"):
            sh.violation("reread-differs", "re-reading the written descriptor with libcnb gives %r" % rr, case)
            return
        if open(os.path.join(dest, "buildpack.toml")).read() != bptoml:
            sh.violation("buildpack-toml", "buildpack.toml was not copied byte-identically", case)
            return
        if sorted(os.listdir(dest)) != ["buildpack.toml", "package.toml"]:
            sh.violation("destination-entries", "the destination holds %r after packaging%s (a packaged composite buildpack is its buildpack.toml and its package.toml)"
                         % (sorted(os.listdir(dest)), " again with the completed map" if case.get("retried") else ""), case)
            return
        if len(case["deps"]) >= 2:
            shape = (tuple(sorted(set(case["kinds"]))), "climb" if any(d.startswith("../../..") for d in case["deps"]) else "",
                     "dup" if len(set(want_deps)) < len(want_deps) else "", case["loc"].count("/"))
            sh.nontrivial.add(shape)
            sh.sample({"source": case["loc"] + "/package.toml", "deps_in": case["deps"][:5], "deps_out": got_deps[:5]}, cap=1)
    finally:
        vp.rmtree(root)


def shard_run(arg):
    seed, idxs, work = arg
    sh = vp.Shard()
    mon = vp.Mon("pkg")
    base = os.path.join(work, "w%d" % os.getpid())
    os.makedirs(base, exist_ok=True)
    try:
        for idx in idxs:
            run_case(mon, base, gen_case(vp.rng(seed, "c14", idx), idx), sh)
    finally:
        mon.close()
        vp.rmtree(base)
    return sh.dict()


def run(tier, seed, work):
    res = vp.Result("C14", tier, seed, "exploration")
    res.after_error_routes = ['retries_with_the_completed_map']      # routes added in round 12 (a handled failure followed by ordinary work): must have observed something
    n = 10000 if tier == "quick" else 300000
    for d in vp.pmap(shard_run, [(seed, s, work) for s in vp.split(range(n), vp.NCPU)]):
        res.merge(d)
    res.rule = ("evaluations = package_composite_buildpack calls. distinct_nontrivial = distinct (set of URI kinds present, climbs-above-root, "
                "has duplicate after normalisation, source depth) among descriptors with >=2 dependencies, plus (missing-id, #deps) classes")
    res.assumptions = ["id->path maps hold absolute paths (as cargo-libcnb and libcnb-test produce them)",
                       "percent-escapes, query/fragment on relative references and non-absolute source locations are not generated"]
    res.required = list(getattr(res, "required", [])) + res.after_error_routes
    return res


def replay(case, work):
    res = vp.Result("C14", "quick", 0, "exploration")
    sh = vp.Shard()
    mon = vp.Mon("pkg")
    run_case(mon, work, case, sh)
    mon.close()
    sh.nontrivial.update({"replay-a", "replay-b"})
    res.merge(sh.dict())
    res.rule = "replay of one recorded case"
    res.sample(case)
    return res
