#!/usr/bin/env python3
"""Regenerates /verif/MANIFEST.json from the table below (run by hand after adding a check)."""
import json
import os

HERE = os.path.dirname(os.path.dirname(os.path.abspath(__file__)))

BASELINE_OFF = ("cd /repo && cargo nextest run --workspace --no-fail-fast --test-threads 8 --offline "
                "|| cargo test --workspace --no-fail-fast --offline")

# id -> (level, technique, text, note)
CHECKS = {
    "C04": ("exploration",
            "runtime monitoring: real LayerEnv::apply driven over an enumerated + random input space, every result judged by an independent executable reference model of the CNB env rules",
            "Every LayerEnv with <=2 (quick) / <=3 (thorough) entries over 2 names x 5 behaviours x 4 scopes x 3 values is built through the public API in two insertion orders and applied for 5 query scopes x 4 starting envs; results, apply_to_empty and the untouched input are compared with a Python model written from the spec; plus seeded random envs with byte-string names/values, duplicate inserts, process scopes that are empty / spell another scope / hold odd characters, large envs (hundreds of entries, 4 KiB names, 64 KiB values), and the full product of the five behaviours on one variable in one scope.",
            "Trusted: the Python reference model (tools/envmodel.py) and the lifecycle's sorted-file application order inside one scope. Held = on the enumerated bound and the sampled random envs only."),
}

CHECKS["C03"] = ("exploration",
    "runtime monitoring: real LayerEnv write/read on generated (old env, new env) pairs and hand-made env directories; directory snapshots and read-back probes judged by an independent spec-layout model",
    "Ordered pairs of generated environments (all scopes incl. per-process, 5 behaviours, byte-string names/values) are written one after the other into a layer dir with bystander files; plus derived pairs (the new env is the old one minus whole scopes / all process scopes, and vice versa, and identical re-writes); after every write the full snapshot must equal the spec layout of the new env alone plus unchanged bystanders, and 28 apply() probes after read_from_layer_dir must equal the reference model; hand-made spec-shaped dirs (suffix-less, unknown suffixes, process sub-dirs, symlinks) exercise the reader alone; a sample of the overwrites is repeated as uid 65534 with the old env directories made read-only (the write may fail; it may not succeed with stale files); the env pool holds large environments (100-250 entries, long names, values around 4 KiB / 64 KiB).",
    "Trusted: tools/envmodel.py (layout + rules). Dotted names / duplicate NAME + NAME.override on the hand-made read side are unspecified and skipped. quick: 3k pairs over a 60-env covering pool + 1k read dirs; thorough: all 40k ordered pairs over a 200-env pool + 10k read dirs.")
CHECKS["C09"] = ("exploration",
    "runtime monitoring: the real FromStr/Deserialize implementations and the real literal macros (observed through cargo check diagnostics) driven over an enumerated string space, judged by hand-written recognisers of the spec grammar (three-valued)",
    "All strings up to length 3/4 over a 12-character class alphabet, all ASCII single characters in three contexts (thorough: all ASCII pairs), reserved words with one-character edits and random strings are fed to str::parse and TOML deserialisation of LayerName, ProcessType, BuildpackId, ExecDProgramOutputKey; all strings up to length 5/6 over a 9-character alphabet plus structured boundary cases to BuildpackVersion/BuildpackApi; long members of every class (250 ... 65 537 characters); several hundred (thorough: several thousand) literals go through the compile-time macros in a generated crate. Every public view of an accepted value (Display, Deref, Borrow<str>, Borrow<String>, AsRef<String>, Clone+Eq, JSON and TOML serialisation) must give back the input. Every type is also parsed from 8 threads at once in a fresh process (all threads must agree with the single-threaded verdict). Accept/reject must equal the recogniser, all routes must agree, accepted values must render identically, display and parse must be inverse on boundary u64 triples.",
    "Trusted: the recognisers in tools/c09.py. Inputs the spec does not decide (newline,'/',NUL,'.','..' as layer names; non-ASCII letters; >u64::MAX) are only checked for route agreement and identity rendering.")
CHECKS["C10"] = ("exploration",
    "runtime monitoring: real LayerEnv::read_from_layer_dir / write_to_layer_dir on every generated layer directory shape, apply() probes judged by an independent implicit-path table, directory snapshots compared across read->write cycles",
    "All 6^4 assignments of {absent, dir, file, symlink->dir, symlink->file, dangling} to bin/lib/include/pkgconfig x 10 kinds of explicit entries (written through libcnb or laid down by hand in the spec layout; empty delimiter files included) on the same variables (with and without delimiter files) x 5 query scopes x 3 starting envs (plus starting envs that already list the layer's own directories); each layer is read 4 times with 3 read->write cycles in between and the whole layer snapshot must stay byte-identical; directories with the implicit names one level further down and layer paths containing ':' are included; thorough adds 200k random layers with symlink chains, loops, FIFOs, absolute links and odd layer-dir names.",
    "Trusted: tools/envmodel.py implicit_paths (os.path.isdir). Implicit entries are expected in front of the result of the explicit deltas of the same scope.")

CHECKS["C13"] = ("exploration",
    "runtime monitoring: real build_libcnb_buildpacks_dependency_graph + get_dependencies on every labelled DAG materialised on disk, each returned order judged by a brute-force closure/topological checker",
    "Every labelled DAG on 1..4 (quick) / 1..5 (thorough: 29 281 DAGs, 9.5 M orderings) nodes is written out as a workspace of composite / libcnb.rs / foreign buildpacks with libcnb: and noise dependencies in 1024 layout variants (dependency order, directory names incl. siblings whose names are prefixes of one another, composites vs. libcnb.rs component buildpacks that declare dependencies in package.toml, buildpack directories that are symbolic links, composites whose directory also holds a Cargo.toml, two alternative [[order]] tables, directories with unparsable buildpack.toml files, a dependency listed twice; every third workspace is laid out at one re-used path), loaded through the real graph builder, and every non-empty ordered root selection is ordered by the real get_dependencies; the result must be exactly the reflexive-transitive closure, duplicate-free, dependencies first. Every third workspace is laid out at one re-used path (state remembered per path would leak). Random DAGs on 6-12 nodes and workspaces with one dangling dependency (must be an error naming it) are added.",
    "Trusted: the brute-force judge inside the executor (adjacency matrix drawn by the generator itself).")
CHECKS["C14"] = ("exploration",
    "runtime monitoring: real package_composite_buildpack on generated composite buildpacks; the written package.toml is read by an independent TOML parser and compared with a reference normaliser (posixpath)",
    "Generated package.toml files mix libcnb:, relative (with '.', '..', '//', trailing '/', climbing above '/'), absolute, docker, http(s), urn and file URIs in any order and multiplicity (incl. duplicates that collapse after normalisation), all [platform] variants, several source depths, normaliser-sensitive URI spellings (host case, dot segments, percent-encoding, authority-only), 60-300 dependencies, ids that differ only by a trailing '/' or only in case, complete id->path maps or maps missing exactly one referenced id, destinations that already hold a longer package.toml, the source directory spelled with '.' / '..' segments; output must parse, keep count and order, map each kind as the statement says, preserve buildpack.uri/platform, and be readable by libcnb again; a missing id must be an error with no package.toml written.",
    "Trusted: tools/c14.py reference (posixpath.normpath/join) and tomllib. Two open known findings with one root cause (uriparse normalising while parsing: scheme lower-cased, '/' appended to an empty path) are listed in KNOWN_FINDINGS.txt.")
CHECKS["C18"] = ("exploration",
    "runtime monitoring: real Inventory::resolve / partial_resolve over an exhaustively enumerated inventory x query space judged by brute-force maximality, plus checksum / TOML round-trip monitors judged by an independent recogniser and tomllib",
    "Every ordered inventory with duplicates of <=4 (quick) / <=5 (thorough) artifacts over {3-4 versions x 2 OS x 2 arch x 2 metadata} for u8 and semver (total orders), product-order pairs and f32 with NaN (partial orders), against every query (os x arch x version sets x metadata requirement via a custom ArtifactRequirement): the result must be in the independently computed matching set, no matching artifact may have a greater version, None iff nothing matches. All checksum strings with remainders up to length 5/6 over {a,F,0,g,:,space} behind 12 prefixes for a 2-byte digest and +-3 around the real SHA-256/512 lengths; for semver an independent reading of versions and requirement forms (pre-release rule included) decides matching set and maximum; all three digest types checked in alternating chunks inside each executor process; random inventories rendered to TOML are re-read by tomllib and by libcnb.",
    "Trusted: the brute-force judge inside the executor, rec_checksum in tools/c18.py, tomllib.")
CHECKS["C19"] = ("exploration",
    "runtime monitoring: real output_and_write_streams / spawn_and_write_streams on a scripted child under concurrent load with recording writers and a /proc-based deadlock diagnosis; writers enumerated over all strings x all chunkings against an independent segment model",
    "Streams: (a quarter of the runs use line_mapped(prefix) writers, whose output must be every line prefixed exactly once however the lines were split across pipe reads) a scripted child writes checkable byte sequences (0 to 4 pipe buffers, one stream first, alternating, simultaneous from two threads, delays, early close, exit codes; a child that closes both streams and lives on until the call has returned; last bursts of exactly 4 KiB ... 128 KiB before EOF) while 24 instances run concurrently; recording / slow / partial-write writers; both the writers and Output must hold exactly the child's bytes per stream, status must match; a run that does not return within 10 s is a violation only if /proc shows the child blocked writing a pipe that no parent thread reads with no progress over 3 s, else inconclusive. Writers: every string over {marker, other} up to length 11 (quick) / 13 (thorough) x every split into write calls through line_mapped+drop, line_mapped with flush() after every write, mapped+unwrap, tee with partial-write targets and stacked combinations, the same through write_vectored with several buffers per call; plus long-segment cases (lines of 64 KiB to 1 MB split at arbitrary points).",
    "Trusted: the segment model in the executor; /proc/<pid>/task/*/syscall as deadlock evidence. Liveness is restated as bounded progress.")

CHECKS["C07"] = ("exploration",
    "runtime monitoring: builder call sequences replayed against the real builders, written with the real write_toml_file (half of them over a longer pre-existing file) / write_exec_d_program_output (fd 3 of a child), the bytes judged by CPython tomllib plus hand-written CNB spec readers",
    "Random call sequences over LaunchBuilder/ProcessBuilder (process/processes/label/labels/slice/slices, args one by one or at once, default flag, working directory), BuildPlanBuilder (provides/requires with and without metadata/or incl. leading, trailing and double or), LayerContentMetadata, Store, PackageDescriptor and exec.d output with hostile string payloads (quotes, backslashes, C0 controls, DEL, CR/LF, BMP + astral Unicode, BOM, empty, long) and metadata tables holding every TOML value kind (rarely: hundreds of keys, 64 KiB strings, 20-level nesting); deterministic boundary cases for runs of 255 / 256 / 300 / 1000 quote characters; the written file must be valid TOML 1.0, have exactly the spec's shape and keys, decode to the constructed intent, and libcnb's own re-read must equal it.",
    "Trusted: tomllib, tools/tomlw.py, the spec readers in tools/c07.py. One defect found by this monitor was repaired (fix: b5a89eb); one is an open known finding (writer panics on >= 256 consecutive quotes in checked builds, third-party serialiser).")
CHECKS["C08"] = ("exploration",
    "runtime monitoring: the real serde-derived parsers (toml::from_str and read_toml_file) driven over generated valid documents and all their single-point mutants; accept/reject and parsed values judged against the generating schema",
    "Schema-driven generator for component and composite buildpack.toml (every optional-key subset reachable, licenses, stacks+mixins, targets+distros, sbom-formats), buildpack plan, layer content metadata, launch.toml, store and package.toml, rendered in four table styles; every valid document must parse as each applicable public type with exactly the document's values and spec defaults (free-form metadata with arbitrary keys preserved); for each document every single-point mutant - unknown key in every non-metadata table, each certainly-required key deleted, each scalar/array retyped, order added to a component, targets/stacks added to a composite - must be rejected, and BuildpackDescriptor must classify by presence of order. package.toml URIs include spellings a normaliser would change (host case, dot segments, percent-encoding): the parsed value must render as the document's string. Unknown keys include look-alikes of real keys (clear_env for clear-env, Id, ids, ...: the key is renamed, its value kept). For <layer>.toml the same valid/mutant documents also go through cached_layer, uncached_layer and handle_layer: what the strict parser rejects must not be accepted there (and the layer silently deleted).",
    "Trusted: the schema in tools/c08.py (field names, requiredness and defaults from the spec). Keys whose optionality the spec leaves open are never used for delete mutants.")

CHECKS["C01"] = ("exploration",
    "runtime monitoring: build histories (cached_layer / uncached_layer with scripted callbacks, LayerRef writes, simulated cache restores) executed against the real BuildContext; after every step the reported state, the callback log and a full snapshot of <layers> are judged by an independent state-machine model",
    "All histories of length <=3 (quick) / <=4 (thorough) over a 15-symbol alphabet (generic/typed metadata x keep/delete/replace/error decisions, uncached, the five kinds of writes, restore, a second dotted-name layer) (thorough: length <=5) plus 1500 / 8000 random histories of up to 30 / 60 steps over three layer names drawn from thirteen (plain, dotted, `a.sbom.x`, quotes, backslash, tab, leading / trailing space, non-ASCII); a third of the LayerRef writes go through the oldest handle of the layer instead of the newest; metadata incl. tables that parse as the typed metadata but carry extra keys; env values incl. non-UTF-8 bytes; layer content incl. symlinks (to files, directories, dangling); executors run under umask 022 / 077 / 027 / 002 and exec.d sources have modes 0755 / 0775 / 0700 (the installed mode must equal the source's). After each request: state+cause must equal what the scripted callbacks decided, callbacks must have run exactly once when due and with the on-disk metadata and path, the layer dir and <layer>.toml must exist with exactly the requested build/launch/cache flags, Restored must keep files/env/exec.d/SBOMs/metadata byte-for-byte, Empty must leave no file, metadata or SBOM, other layers and the rest of <layers> must be byte-identical; every LayerRef write is checked for exact replace semantics. 800 / 20 000 values of a realistic typed metadata struct (renamed fields, options, nested structs, an enum, a map, a datetime, u64 and f64 fields incl. NaN / i64 limits) are written through a LayerRef: the file must hold serde's TOML shape of the value (tomllib) and the next request's callback must receive an equal value; a metadata type with optional fields only (an empty [metadata] table) is kept over three more requests; a u64 beyond i64::MAX must be refused, not altered, and the request after the refused write still restores the value written before. An executor process that dies inside a library call (stack overflow, abort) is a violation with the history as witness.",
    "Trusted: the model in tools/c01.py and the restore rules in tools/layersim.py (those named in the quantifier). One defect found here was repaired (fix: c482b5b).")
CHECKS["C02"] = ("exploration",
    "runtime monitoring: handle_layer histories with scripted Layer implementations (two metadata types, all strategy / migration decisions, failing callbacks, arbitrary results) against the real BuildContext; callback log, snapshot and returned LayerData judged by an independent model",
    "All histories of length <=3 / <=5 over an 11-symbol alphabet plus 1200 / 6000 random histories with restores over three of twelve layer names (quotes, backslash, tab, spaces, non-ASCII) (env values incl. non-UTF-8 bytes), executed under umask 022 / 077 / 027 / 002 with exec.d sources of modes 0755 / 0775 / 0700; update() results that hand back the env they were given; 600 / 5000 histories that mix the struct and the trait API on the same layers. Checked per call: exactly the expected callback sequence (create only on an empty directory; strategy / update / migrate exactly once when due, never otherwise), callbacks see the on-disk metadata, callback errors surface as the buildpack error; afterwards types = types(), metadata / env for all four scopes incl. per-process / exec.d / SBOM files equal the returned result (or, for keep, the previous snapshot with only types refreshed), other files as the callback left them, other layers untouched; the returned LayerData (name, path, types, metadata, env probed for 6 scopes x 2 starting envs) must behave like an independent reading of the disk. Callbacks also plant symlinks (dangling, to files, to directories, loops) in the layer; an executor process that dies inside a library call is a violation.",
    "Trusted: the model in tools/c02.py, tools/envmodel.py. One defect found here was repaired (fix: 57bd66a).")

CHECKS["C05"] = ("exploration",
    "runtime monitoring: the real libcnb_runtime executed as detect/build processes (a scripted Buildpack impl reached through symlinks) over the full factor product; exit status, marker file and before/after snapshots judged by a decision table written from the statement",
    "Two layouts of the buildpack's bin directory (every name a link to the executable / the layout cargo libcnb package produces: bin/build a real file, the others links to it); wrongly named executables get detect- or build-shaped arguments. Full product of executable name (detect, build, bin, detect.sh) x argc 0..4 x buildpack.toml kind (api 0.10, 0.9, 1.0, 0.10 with broken rest, malformed, absent, api not a string, two API versions that wrap to 0.10 in 64-bit arithmetic, sbom-formats declared, CNB_BUILDPACK_DIR unset) x presence of each of the five CNB_TARGET_* variables x platform/plan condition x pre-existing (longer) output files, ~36k process runs per quick run (thorough: 4 behaviours per configuration); every behaviour (detect pass / pass+plan / fail / error; build with every subset of launch, store, build SBOMs, launch SBOMs, build error, layer error) on every dispatching configuration. The BuildResultBuilder setters are called in a random order; one buildpack.toml kind declares sbom-formats (no filter for what is written). Also: every output in turn pre-existing as a symlink to /dev/full (unwritable): the buildpack code runs, the error handler runs once, exit is neither 0 nor 100; a previous store.toml that differs from the returned store only in the sign of a zero must be rewritten; an empty store must still be written; a path argument that is not valid UTF-8 must either be refused (buildpack not reached, non-zero) or be honoured byte for byte. Checked: exit class, detect()/build() reached exactly once or never, on_error exactly once after dispatch and at most once before, written files decode (tomllib + spec reader) to what was returned, outputs that were not provided are neither created nor modified, nothing else under the work tree changes.",
    "Trusted: the decision table in tools/c05.py. Exact non-zero codes are not asserted.")
CHECKS["C06"] = ("exploration",
    "runtime monitoring: the real runtime executed as detect/build on generated platform directories / plans / stores / descriptors / target variables; a JSON dump of the context written by the scripted buildpack is compared field by field with the generated inputs",
    "Generated <platform>/env directories (byte-string file names, UTF-8 contents incl. empty / newlines / 5 kB, sub-directories, symlinks to files and directories, dangling links, no env dir, files with non-UTF-8 content), buildpack plans / store tables / descriptor metadata from nested TOML values of every kind, all presence/value combinations of the target variables incl. non-UTF-8 values, values starting with / containing U+FEFF, entries that are links into procfs (stat size 0) or relative links (NAME -> ..data/NAME), quoted / padded target values, adjacent duplicate plan entries, 100-400 variables and values up to 1 MB, work directories with spaces and Unicode and with names that are not valid UTF-8 (the phase must refuse or carry the bytes), CNB_BUILDPACK_DIR given plainly / through a symlink / with '.' and '..' / with a trailing slash (the context must carry the supplied string), store.toml absent / valid / empty / non-UTF-8 / a directory / malformed. Every tenth case adds a sequence of 2-4 programmatic detect / build invocations inside ONE process (libcnb_runtime_detect / libcnb_runtime_build), each with its own buildpack dir, descriptor, platform env, plan, store and target variables: every context must reflect its own inputs. The dump must equal the inputs exactly; unrepresentable inputs must end in the error path (on_error once, non-zero, no context), never in a context with the entry missing or altered.",
    "Trusted: tools/c06.py generator = oracle (equality with its own inputs), tomllib/tomlw. One defect found here was repaired (fix: 2d61a47).")

CHECKS["C20"] = ("exploration",
    "runtime monitoring: paired (tripled) executions in fresh processes under different work-dir roots; per-step directory snapshots compared byte for byte",
    "The history generators of C01 and C02 (with widened payloads: 12-key metadata tables incl. nested ones, 8 per-process env dirs, full exec.d sets) and detect+build phase scenarios (3 or-groups x 8 provides/requires with 12-key metadata, 12 labels with duplicated keys in random order, 6 processes, 13+12-key store, all SBOM kinds; two different SBOM documents of one format; values derived from read_env().apply() written into layer metadata, with several behaviours on one variable; exec.d sets re-arranged from their own files; restored env dirs holding NAME and NAME.override side by side; a name required twice in one alternative; process types defined twice; exec.d program names that alias one destination; an exec.d replacement that fails because a source is missing; metadata and store tables fed from a std HashMap) each run in three fresh OS processes (fresh RandomState seeds, different PIDs/times, roots of different length and depth); <layers>, the build plan, launch.toml, store.toml, <layer>.toml, env files, exec.d and SBOM files must be byte-identical after every step.",
    "Trusted: snapshot comparison only. One defect found here was repaired (fix: 0d53130). A leak of hash order over >=8 keys would show with probability > 0.999 per scenario.")

CHECKS["C11"] = ("exploration",
    "runtime monitoring: delete/recreate through six public routes on generated hostile layer trees, executed as an unprivileged uid under an LD_PRELOAD libc effect tracer; before/after snapshots of everything outside the layer plus the physical target of every mutating call are judged for containment",
    "Generated trees under <layers>/<name> (depth <=4, directory modes 755/555/666/000/311/700 and modes where the owner has fewer rights than group/others (575, 655, 355, 477, 077, 070), file modes 000-755, symlinks to files/dirs inside the layer, in a sibling layer, in a canary tree beside <layers>, relative and absolute, dangling, self- and mutual loops, '..', the layers root; the layer path itself being a directory or a symlink to a sibling dir / canary dir / canary file / nowhere; <layers> itself with or without write bit; dotted layer names whose stem is the sibling's name; sibling layers whose names extend the victim's name, with SBOM files; hard links to files outside the layer; rarely a 60-level chain and a 300-700 entry directory) are removed via uncached_layer, cached_layer+DeleteLayer, handle_layer+Recreate and migration RecreateLayer as uid 65534. Oracle: the snapshot (content, mode, link target) of everything except the layer's own dir/toml/SBOM files is unchanged; every successful open-for-write / mkdir / unlink / rmdir / rename / chmod / symlink / truncate / write traced by fsshim has its physical target inside the layer dir (not through links) or on the layer's own toml/SBOM files; on Ok nothing of the old tree remains (directory content, SBOM files, a symlinked toml); a delete that fails although the caller owns the whole tree and <layers> is writable is a violation.",
    "Trusted: shim/fsshim.c (physical target = realpath(dirname)/basename for entry-acting calls, realpath(path) for link-following ones), vp.snapshot. Needs setpriv to drop to uid 65534 (else inconclusive). One defect found here was repaired (fix: 74147eb).")
CHECKS["C12"] = ("fault_enumeration",
    "runtime monitoring with fault injection: for 17 representative layer / runtime operations a count pass records the sequence of libc file-system calls beneath the work prefix, then the operation is re-run once per call position with that call failing (LD_PRELOAD k-th-call injector); result and directory snapshot are compared with the fault-free run",
    "Operations: cached_layer on nothing / keep / delete (nested tree) / invalid-metadata replace, uncached_layer over an existing layer, write_metadata, write_env over an old env with per-process scopes, write_sboms and write_exec_d_programs over old ones, handle_layer create / keep / update / recreate / migrate-replace with full results, and the real runtime as detect (pass+plan) and build (launch+store+SBOMs; with pre-existing longer outputs); every operation also under umask 077 and with its TOML destinations being symbolic links / having a second hard link. Every position k of open (read/write/dir), read, write, mkdir, unlink, rmdir, rename, chmod, readdir, truncate calls x errno EIO, EACCES (quick) / EIO, EACCES, ENOSPC, EPERM, EROFS (thorough). exec.d sources are executables, so a swallowed chmod failure shows as a mode difference. Faults are also injected at random positions inside random multi-step histories (a later step runs on whatever the failed one left behind). A process that dies inside the operation is a violation. A fired fault followed by success is a violation unless the whole work tree is byte-identical to the fault-free run; a fault that never fires is inconclusive.",
    "Trusted: shim/fsshim.c. The scripted callbacks' own file operations are excluded from injection (vp_shim_pause). stat-family calls and ENOENT are never injected.")

CHECKS["C15"] = ("fault_enumeration",
    "runtime monitoring with crash injection: the real cargo-libcnb executable (built from /repo) packages generated Cargo workspaces; exit status, stdout and the package tree are judged against a written-out specification and against the tree of a clean run; interrupted runs are produced by killing the process at its k-th mutating libc call beneath the package directory (LD_PRELOAD)",
    "Generated workspaces: 1-4 dependency-free libcnb.rs buildpack crates with 0-2 additional binary targets (unique names, or one name shared by several crates), 0-2 composites whose package.toml mixes libcnb:/path/docker/urn dependencies forming a DAG (also on other composites), buildpacks nested beneath a composite's directory, ids with several '/', composites that are Cargo packages themselves, foreign non-libcnb buildpacks (one with a buildpack.toml libcnb-data cannot parse), an ignore file; composites with [platform] os = windows and buildpack uri './'; cargo's target directory at its default place, moved by CARGO_TARGET_DIR, or by [build] target-dir in .cargo/config.toml. Invocations: workspace root, each buildpack directory, directories that are no buildpack (with and without buildpacks below), dev/release, default/relative/absolute --package-dir. Checked per run: exit status, stdout = exactly the selected buildpacks' directories, each output dir holds exactly buildpack.toml (byte-identical), bin/build (byte-identical to the cargo artifact), bin/detect -> build, .libcnb-cargo/additional-bin/<target>, package.toml (normalised per the C14 oracle) and nothing else. A crate whose single binary target is not named after the package; output directories that are dangling or live symlinks. Histories: clean; stale/foreign content of several kinds planted in an output dir; every (quick: up to 24 per workspace) crash point followed by a normal re-run, whose tree must equal the clean one.",
    "Trusted: the tree specification in tools/c15.py, shim/fsshim.c. Only --target x86_64-unknown-linux-gnu can be built here; runs as root (undeletable stale content not explored).")

CHECKS["C16"] = ("fault_enumeration",
    "runtime monitoring with fault injection: scenario trees interpreted by the real libcnb-test TestRunner on a spawned thread against argv-logging stand-ins for docker and pack; exactly one fault per run (a panic at every node position, a panic in the app-dir preprocessor, or every external command failing in turn); the command log and TMPDIR are judged by cleanup rules",
    "All scenario trees up to depth 2 (quick, sampled to 70) / 3 (thorough) over build, rebuild (with/without preprocessor), start_container with up to two of logs_now / logs_wait / address_for_port / shell_exec, run_shell_command, download_sbom_files, both expected pack results; thorough adds 500 random trees beyond the bound; every second shard runs the test process as uid 65534 with a read-only directory in the fixture; for each tree the baseline plus one run per fault position: every external command failing (every second one also with >64 KiB of non-ASCII output, every third one killed by a signal; exit codes 1 / 125 / 2 / 127 / 126 / 255 by position), docker missing from PATH while the first of two builds cleans up (the second build's cleanup is judged), pack disappearing from PATH before a rebuild (spawn failure), a panic at every node position, a panic in the preprocessor (~1.7k / ~5k runs). Rules: every docker run --detach --name N (succeeded or not) is followed by docker rm --force N; for every image given to pack build exactly one docker rmi --force and exactly one docker volume remove --force I.build-cache I.launch-cache (and every volume name in exactly one removal command), both after the last command using the image (incl. rebuilds, also with another builder); only names created / allocated by this run are removed; non-detached runs carry --rm; TMPDIR is empty at exit; the process never aborts.",
    "Trusted: tools/testrun.py parsers, harness vpstandin. PATH of the test process holds the stand-ins only (a real docker CLI is installed in this image). Stand-ins implement argument grammar and exit behaviour only (plus one consequence: logs / exec / port on a container whose docker run failed fail too); no real docker/pack. Two simultaneous faults are outside the quantifier.")
CHECKS["C17"] = ("exploration",
    "runtime monitoring: generated BuildConfig / ContainerConfig values driven through the real TestRunner; the argv recorded by the docker/pack stand-ins is decoded by reference parsers written from the CLIs' own option grammars (pflag; docker run/exec non-interspersed) and compared with the configuration",
    "The test process has HTTP(S)_PROXY / NO_PROXY / DOCKER_HOST set (nothing of the host environment may reach docker run). Generated configurations with hostile strings (leading - and --, option look-alikes such as --name=evil, spaces, '=' in values, quotes, $, backticks, Unicode, empty, tab, newline) for builder, env values, entrypoint, command vectors, buildpack references (incl. duplicates), shell commands; random port and bind-mount sets; relative / dotted / absolute app dirs; preprocessors that add and remove files. Decoding must give exactly one pack build with the image name, builder, --path = the fixture itself or a private copy whose content = fixture + preprocessor edits (fixture untouched), buildpacks in configured order, each env pair once; and for docker run the name, detach/rm, platform, entrypoint, env map, publish set 127.0.0.1::<p>, mounts, IMAGE and command; run_shell_command and shell_exec arrive as single arguments; 40% of the cases rebuild with the first build's own configuration (ctx.config.clone()) and a non-idempotent preprocessor: the second pack build must see a fresh private copy with the edits applied once. A third of the cases call setters twice (buildpacks, env, entrypoint, command, bind_mount: the superseded values must not leak), use BuildConfig::app_dir and ContainerConfig::envs; rebuilds also with a configuration of their own; a 20-level deep fixture; a quarter of the cases run a second build that belongs to another crate (other CARGO_MANIFEST_DIR) in the same process. Buildpack references include dot-relative paths that exist / do not exist under the crate; app dirs reached as link/../app are compared physically; a failing pack build must be invoked exactly once per build request (no silent retry). Any argv that does not parse under the target grammar is a violation.",
    "Trusted: the reference parsers in tools/testrun.py. Not generated (the target grammars give them meaning): '=' in env keys, ',' and '\"' in mount paths and buildpack references.")

# additions of seeding round 8 (appended to the level texts above)
ROUND8 = {
    "C02": "Restores after which one layer directory comes back without its <layer>.toml (a restored layer without metadata: migration callback, never create() on the old content).",
    "C05": "Every output also as a directory and as a link to /dev/full, with results that do and that do not provide it (unprovided: ordinary status, nothing touched).",
    "C06": "Target values in spellings a normaliser would fold (x86_64, aarch64, AMD64, arm64/v8, Linux, Ubuntu): the context holds the platform's strings verbatim.",
    "C07": "exec.d output values with leading / trailing line breaks; every route of the workload (launch, build plan, layer toml, store, package, exec.d, layer API, runtime store) must have judged documents, else the run is BROKEN.",
    "C08": "Every scalar is also retyped to another TOML kind (date-time, date, time, float, bool, table); every document and mutant goes through toml::from_str on the text or through read_toml_file on a file (valid documents through both), judged by the same oracle.",
    "C11": "Six routes: uncached, cached + RestoredLayerAction::DeleteLayer, cached + InvalidMetadataAction::DeleteLayer, trait recreate, trait migrate-recreate, and a trait recreate whose create() fails (after which nothing of the old layer - toml, SBOM files, tree - may be left).",
    "C12": "Every injection verifies that the call it hit has the class recorded at that position by the fault-free pass (else inconclusive): the enumeration of fault points has no holes (readdir calls included).",
    "C13": "Layout bit 10 (2048 variants): order groups that name workspace buildpacks which package.toml references as images, and the non-libcnb.rs buildpack next door.",
    "C15": "The six workspaces of the quick tier have fixed, covering layout features (composite with its own Cargo.toml, ids with several '/', nesting, composite without libcnb: dependency, no composite); buildpack.toml files with CRLF line ends, without final newline, with trailing blanks; every composite is also packaged from its own directory.",
    "C16": "Every third scenario tree references buildpacks of the crate under test (CurrentCrate / WorkspaceBuildpack: composite buildpacks, nothing compiled), also in rebuilds: the temporary directory they are packaged into must be gone afterwards.",
    "C17": "Environment keys a helpful runner would special-case (PORT, HOME, DOCKER_HOST, CNB_PLATFORM_API).",
    "C18": "Requirement forms ^0.0.x, ^0.x, ^0, ~1, =1.2, =0 with 0.x versions.",
    "C20": "Typed-metadata histories with refused writes (in the middle and as the last call of a process); several different SBOM documents of one format for one target.",
}
ROUND9 = {
    "C02": "Scripted layers are stateful: until their first &mut-self callback has run types() answers something else; written and returned types must be the answer afterwards.",
    "C05": "buildpack.toml that is not valid UTF-8 (comment, string): nothing runs.",
    "C06": "Buildpack ids spelled with blanks / line breaks (nothing runs) and unusual valid spellings (carried verbatim).",
    "C07": "The layer-API route writes the full TOML value space (date-times, non-finite floats, arrays of tables).",
    "C10": "A third of the cases lay the explicit env files down by hand in the spec layout; after a libcnb write the files must equal the spec layout; empty delimiter files.",
    "C11": "Layers whose env*/ and exec.d/ hold links of every kind or are links themselves: an unreadable layer is an error with nothing touched, never an Ok with the old tree still there.",
    "C12": "What the callbacks were shown and what the call returned are part of the outcome compared with the fault-free run.",
    "C14": "Percent characters in paths and source locations; buildpack ids with '.' / '..' segments.",
    "C15": "Buildpacks nested beneath another buildpack are packaged from their own directory; ids differing in letter case only.",
    "C16": "The stand-ins record the docker endpoint environment of every command (all must address the test process's daemon); no image / container name may repeat within a run; the crate under test is a composite depending on a second workspace buildpack.",
    "C18": "Checksum strings for the digest type (); the same download listed twice.",
    "C20": "The harness' typed metadata has an unordered map (filled only by parsing restored files); the buildpack plan shown to the build logic (names required several times) is compared across processes.",
}
ROUND10 = {
    "C01": "Restores after which a layer directory has no <layer>.toml; zero-byte SBOM documents; installed exec.d programs must not be hard links; sources that are symbolic links.",
    "C02": "The same; callbacks must be shown the [types] table the file had (none for a restored layer), not the types the layer is about to declare.",
    "C03": "The layer directory itself without write bits for a quarter of the second writes: its mode must not change.",
    "C05": "Half of the configurations run an executable whose main is written by buildpack_main! (the others call libcnb_runtime directly); sequences of 2-5 programmatic libcnb_runtime_detect / _build calls in one process, some with a mandatory variable missing.",
    "C06": "Every plan entry is also read through the typed accessor Entry::metadata::<map>(): same keys, same values.",
    "C07": "Empty stores.",
    "C08": "Fourth layer-API route: LayerRef::write_metadata over a file that holds the document under test.",
    "C10": "Explicit entries whose values are not UTF-8.",
    "C11": "Layers without [metadata] table / without toml on the trait migration route and the struct routes.",
    "C12": "For EIO / EACCES / ENOSPC a call that reports success under a fault is a violation even if the directory is right (no fault point is tolerated on the clean tree).",
    "C13": "Dangling dependencies that are not buildpack ids at all (libcnb:app, libcnb:vp/missing_one) must be errors.",
    "C15": "The covering workspaces also fix the dependency lists (every kind of non-libcnb dependency, interleaved); --package-dir equal to the workspace root; CI / GITHUB_ACTIONS set for every second run; a libcnb: dependency the composite's order does not name; stale output of a dependency when packaging from the dependent's directory.",
    "C16": "A canary directory next to the crate, linked into every preprocessed app copy, compared after every run.",
    "C17": "TMPDIR is an ancestor of the fixture for a third of the runs with a preprocessor.",
    "C19": "Tee targets that report ErrorKind::Interrupted; recording writers that use 192 KiB of stack; a process that dies inside the call is a violation.",
    "C20": "Launch configurations with repeated slices through the batch setters; a cyclonedx_bom model converted by libcnb's optional feature.",
}
_AMB = "All executor processes run in a hostile ambient (CI variables, a HOME whose git ignore files ignore everything, an ancestor .gitignore, stale PWD and CNB_* path variables pointing to valid decoys, the workloads' own variable names set in the process environment)."
ROUND11 = {
    "C01": _AMB + " 2-16 threads of one process each request and write their own layer in one layers directory; an exec.d replacement that fails (missing source) is followed by one that succeeds.",
    "C02": _AMB + " A quarter of the histories spell the layers directory relative to the process's working directory.",
    "C03": _AMB + " Process directories that are symbolic links; scratch directories with env-like files among the bystanders.",
    "C04": _AMB,
    "C05": _AMB + " A third of the runs have /dev/full as stdout and an unterminated line in the stdout buffer; path arguments through link/.. (the file system's reading counts).",
    "C06": _AMB + " Ambient-read monitor (LD_PRELOAD shim/envshim.so): every environment variable the phases ask libc for besides their documented inputs is set to a hostile value and a part of the workload runs again.",
    "C07": _AMB,
    "C08": _AMB + " Layer directories that are relative symbolic links.",
    "C09": _AMB + " Every second parsing executor has /dev/full as stderr; the literals the primary package rejects are also compiled inside a dependency crate.",
    "C10": _AMB + " Between reading a layer and applying it the layer is moved away and the process changes directory; the same process re-reads a layer after a standard directory appeared with the layer's mtime restored; dangling env files.",
    "C11": _AMB + " A fifth of the cases give the layers directory relative to the working directory, a fifth run from a directory that has been removed.",
    "C12": _AMB + " Variants @cwdin (the process stands inside the layer) and @rolayer (layer directory 0555).",
    "C13": _AMB,
    "C14": _AMB + " Sources reached through a symbolic link (relative dependencies are relative to the directory as it was named).",
    "C15": _AMB + " The invocation directory reached through a symbolic link with PWD saying so.",
    "C16": _AMB + " Another process's three-day-old .tmp* directory in TMPDIR must survive.",
    "C17": _AMB + " Bind-mount sources that exist on the host (through a symbolic link; without write bits).",
    "C18": _AMB + " Every second resolving executor has /dev/full as stderr (a process that dies there is a violation); ambient-read monitor: every environment variable that rendering / parsing / resolving asks for is set to a hostile value and the round-trip workload runs again.",
    "C19": _AMB + " Every fourth stream case runs on a single CPU (taskset -c 0).",
    "C20": _AMB + " The three processes of a comparison stand in different working directories and see source files of different age (1980 / now / 2100).",
}
_AE = "After a handled error:"
ROUND12 = {
    "C01": _AE + " a request refused by a callback leaves [types], directory and SBOM files as they were.",
    "C02": _AE + " a migration to metadata TOML cannot hold (u64::MAX) ends every history - error, no further callback, nothing changed; a completed ReplaceMetadata is not undone when a later callback fails.",
    "C03": _AE + " a write with '/' in names between the two writes of a pair; envs whose process type is named like a launch variable's env file are refused or complete.",
    "C04": _AE + " inserts whose name conversion panics (caught) between the ordinary inserts contribute nothing and lose nothing.",
    "C05": _AE + " builds that handle a failed layer TOML write before returning their result.",
    "C06": _AE + " every typed plan-metadata read is preceded by a refused one.",
    "C07": _AE + " a refused Require::metadata after the accepted ones.",
    "C08": _AE + " a valid file rejected after rejected documents is a violation.",
    "C11": _AE + " a recreated layer whose result cannot be written (SBOMs, then an exec.d program without source) is requested anew: nothing of either incarnation remains.",
    "C12": _AE + " the same write_env / write_sboms / write_exec_d_programs issued again after a reported fault (or another program set) leaves what the call leaves without any fault.",
    "C13": _AE + " a dangling id whose buildpack exists in a hidden and in an ignored directory still dangles.",
    "C14": _AE + " the run with the completed map into the same destination after a run refused for a missing id is judged like a first run.",
    "C15": _AE + " a failed run (compile error; dangling dependency with a namesake next to the workspace), cause repaired, next run equals the clean tree.",
    "C16": _AE + " docker run failing with 'port is already allocated'; rebuilds that expect failure and whose closure runs.",
    "C17": _AE + " a FIFO in the fixture; a build after a build that panicked in the same process.",
    "C18": _AE + " every parse is preceded by a refused inventory document.",
    "C19": _AE + " a tee target / inner writer that refuses one call, the caller carries on with the next chunk.",
    "C20": _AE + " what a failed trait-API call leaves (eight exec.d programs, the last without source) is compared across processes too.",
}
for _k, _v in ROUND12.items():
    ROUND11[_k] = (ROUND11.get(_k, "") + " " + _v).strip()
for _k, _v in ROUND11.items():
    ROUND10[_k] = (ROUND10.get(_k, "") + " " + _v).strip()
for _k, _v in ROUND10.items():
    ROUND9[_k] = (ROUND9.get(_k, "") + " " + _v).strip()
for _k, _v in ROUND9.items():
    ROUND8[_k] = (ROUND8.get(_k, "") + " " + _v).strip()
for _k, _v in ROUND8.items():
    CHECKS[_k] = (CHECKS[_k][0], CHECKS[_k][1], CHECKS[_k][2] + " " + _v, CHECKS[_k][3])

PENDING = {}


def main():
    props = [json.loads(l) for l in open(os.path.join(HERE, "properties.jsonl"))]
    checks = []
    na = []
    for p in props:
        pid = p["id"]
        if pid in CHECKS:
            level, tech, text, note = CHECKS[pid]
            checks.append({
                "property_id": pid,
                "quick_cmd": "./check %s --tier quick" % pid,
                "thorough_cmd": "./check %s --tier thorough" % pid,
                "evidence_file": "/verif/evidence/%s.json" % pid,
                "replay_cmd_template": "./check %s --replay {path}" % pid,
                "engine": "vpmon",
                "level_claimed": {"category": level, "text": text, "design_ref": "DESIGN.md section 5, %s" % pid},
                "level_note": note,
                "technique": tech,
            })
        else:
            na.append({"property_id": pid,
                       "reason": PENDING.get(pid, "check not built yet in this round (designed in DESIGN.md section 5; no claim is made until its monitor exists and has been validated)")})
    m = {
        "version": 1,
        "setup_cmd": "cd /verif/harness && CARGO_NET_OFFLINE=true RUSTFLAGS='--cfg libcnb_rs_verif' cargo build --release --offline --bins && cd /verif && gcc -O1 -shared -fPIC -o shim/fsshim.so shim/fsshim.c -ldl && gcc -O1 -shared -fPIC -o shim/envshim.so shim/envshim.c -ldl",
        "hooks": {
            "guard": "--cfg libcnb_rs_verif",
            "enable": "RUSTFLAGS='--cfg libcnb_rs_verif' (set by ./check for every harness build; no source line in /repo is currently guarded by it: all observations are taken at process / public-API boundaries)",
            "baseline_off_cmd": BASELINE_OFF,
            "source_commits": [],
            "add_only": True,
        },
        "engines": [
            {"name": "vpmon", "path": "/verif/harness", "serves_properties": sorted(CHECKS),
             "kind_free_text": "Rust executor binaries (path-depend on /repo, rebuilt by every check) driven by Python workload generators; Python reference models / offline checkers judge the recorded events"},
        ],
        "checks": checks,
        "not_applicable": na,
        "notes": "Technique family: runtime monitoring. See DESIGN.md. Exit 2 from ./check means the check is broken or observed nothing; it is never a verdict.",
    }
    with open(os.path.join(HERE, "MANIFEST.json"), "w") as f:
        json.dump(m, f, indent=1)
        f.write("\n")


if __name__ == "__main__":
    main()
