#!/usr/bin/env python3
"""Regenerates /verif/MANIFEST.json from the table below (run by hand after adding a check)."""
import json
import os

HERE = os.path.dirname(os.path.dirname(os.path.abspath(__file__)))

BASELINE_OFF = ("cd /repo && cargo nextest run --workspace --no-fail-fast --test-threads 8 --offline "
                "|| cargo test --workspace --no-fail-fast --offline")

# id -> (level, technique, text, note)
CHECKS = {
    "C04": ("exploration",
            "runtime monitoring: real LayerEnv::apply driven over an enumerated + random input space, every result judged by an independent executable reference model of the CNB env rules",
            "Every LayerEnv with <=2 (quick) / <=3 (thorough) entries over 2 names x 5 behaviours x 4 scopes x 3 values is built through the public API in two insertion orders and applied for 5 query scopes x 4 starting envs; results, apply_to_empty and the untouched input are compared with a Python model written from the spec; plus seeded random envs with byte-string names/values and duplicate inserts.",
            "Trusted: the Python reference model (tools/envmodel.py) and the lifecycle's sorted-file application order inside one scope. Held = on the enumerated bound and the sampled random envs only."),
}

CHECKS["C03"] = ("exploration",
    "runtime monitoring: real LayerEnv write/read on generated (old env, new env) pairs and hand-made env directories; directory snapshots and read-back probes judged by an independent spec-layout model",
    "Ordered pairs of generated environments (all scopes incl. per-process, 5 behaviours, byte-string names/values) are written one after the other into a layer dir with bystander files; after every write the full snapshot must equal the spec layout of the new env alone plus unchanged bystanders, and 28 apply() probes after read_from_layer_dir must equal the reference model; hand-made spec-shaped dirs (suffix-less, unknown suffixes, process sub-dirs, symlinks) exercise the reader alone.",
    "Trusted: tools/envmodel.py (layout + rules). Dotted names / duplicate NAME + NAME.override on the hand-made read side are unspecified and skipped. quick: 3k pairs over a 60-env covering pool + 1k read dirs; thorough: all 40k ordered pairs over a 200-env pool + 10k read dirs.")
CHECKS["C09"] = ("exploration",
    "runtime monitoring: the real FromStr/Deserialize implementations and the real literal macros (observed through cargo check diagnostics) driven over an enumerated string space, judged by hand-written recognisers of the spec grammar (three-valued)",
    "All strings up to length 3/4 over a 12-character class alphabet, all ASCII single characters in three contexts (thorough: all ASCII pairs), reserved words with one-character edits and random strings are fed to str::parse and TOML deserialisation of LayerName, ProcessType, BuildpackId, ExecDProgramOutputKey; all strings up to length 5/6 over a 9-character alphabet plus structured boundary cases to BuildpackVersion/BuildpackApi; several hundred (thorough: several thousand) literals go through the compile-time macros in a generated crate. Accept/reject must equal the recogniser, all routes must agree, accepted values must render identically, display and parse must be inverse on boundary u64 triples.",
    "Trusted: the recognisers in tools/c09.py. Inputs the spec does not decide (newline,'/',NUL,'.','..' as layer names; non-ASCII letters; leading zeros in API versions; >u64::MAX) are only checked for route agreement and identity rendering.")
CHECKS["C10"] = ("exploration",
    "runtime monitoring: real LayerEnv::read_from_layer_dir / write_to_layer_dir on every generated layer directory shape, apply() probes judged by an independent implicit-path table, directory snapshots compared across read->write cycles",
    "All 6^4 assignments of {absent, dir, file, symlink->dir, symlink->file, dangling} to bin/lib/include/pkgconfig x 5 kinds of explicit entries on the same variables x 5 query scopes x 3 starting envs; each layer is read 4 times with 3 read->write cycles in between and the whole layer snapshot must stay byte-identical; thorough adds 20k random layers with symlink chains, loops, FIFOs, absolute links and odd layer-dir names.",
    "Trusted: tools/envmodel.py implicit_paths (os.path.isdir). Implicit entries are expected in front of the result of the explicit deltas of the same scope.")

PENDING = {}


def main():
    props = [json.loads(l) for l in open(os.path.join(HERE, "properties.jsonl"))]
    checks = []
    na = []
    for p in props:
        pid = p["id"]
        if pid in CHECKS:
            level, tech, text, note = CHECKS[pid]
            checks.append({
                "property_id": pid,
                "quick_cmd": "./check %s --tier quick" % pid,
                "thorough_cmd": "./check %s --tier thorough" % pid,
                "evidence_file": "/verif/evidence/%s.json" % pid,
                "replay_cmd_template": "./check %s --replay {path}" % pid,
                "engine": "vpmon",
                "level_claimed": {"category": level, "text": text, "design_ref": "DESIGN.md section 5, %s" % pid},
                "level_note": note,
                "technique": tech,
            })
        else:
            na.append({"property_id": pid,
                       "reason": PENDING.get(pid, "check not built yet in this round (designed in DESIGN.md section 5; no claim is made until its monitor exists and has been validated)")})
    m = {
        "version": 1,
        "setup_cmd": "cd /verif/harness && CARGO_NET_OFFLINE=true RUSTFLAGS='--cfg libcnb_rs_verif' cargo build --release --offline --bins && cd /verif && gcc -O1 -shared -fPIC -o shim/fsshim.so shim/fsshim.c -ldl",
        "hooks": {
            "guard": "--cfg libcnb_rs_verif",
            "enable": "RUSTFLAGS='--cfg libcnb_rs_verif' (set by ./check for every harness build; no source line in /repo is currently guarded by it: all observations are taken at process / public-API boundaries)",
            "baseline_off_cmd": BASELINE_OFF,
            "source_commits": [],
            "add_only": True,
        },
        "engines": [
            {"name": "vpmon", "path": "/verif/harness", "serves_properties": sorted(CHECKS),
             "kind_free_text": "Rust executor binaries (path-depend on /repo, rebuilt by every check) driven by Python workload generators; Python reference models / offline checkers judge the recorded events"},
        ],
        "checks": checks,
        "not_applicable": na,
        "notes": "Technique family: runtime monitoring. See DESIGN.md. Exit 2 from ./check means the check is broken or observed nothing; it is never a verdict.",
    }
    with open(os.path.join(HERE, "MANIFEST.json"), "w") as f:
        json.dump(m, f, indent=1)
        f.write("\n")


if __name__ == "__main__":
    main()
