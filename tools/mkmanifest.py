#!/usr/bin/env python3
"""Regenerates /verif/MANIFEST.json from the table below (run by hand after adding a check)."""
import json
import os

HERE = os.path.dirname(os.path.dirname(os.path.abspath(__file__)))

BASELINE_OFF = ("cd /repo && cargo nextest run --workspace --no-fail-fast --test-threads 8 --offline "
                "|| cargo test --workspace --no-fail-fast --offline")

# id -> (level, technique, text, note)
CHECKS = {
    "C04": ("exploration",
            "runtime monitoring: real LayerEnv::apply driven over an enumerated + random input space, every result judged by an independent executable reference model of the CNB env rules",
            "Every LayerEnv with <=2 (quick) / <=3 (thorough) entries over 2 names x 5 behaviours x 4 scopes x 3 values is built through the public API in two insertion orders and applied for 5 query scopes x 4 starting envs; results, apply_to_empty and the untouched input are compared with a Python model written from the spec; plus seeded random envs with byte-string names/values and duplicate inserts.",
            "Trusted: the Python reference model (tools/envmodel.py) and the lifecycle's sorted-file application order inside one scope. Held = on the enumerated bound and the sampled random envs only."),
}

PENDING = {}


def main():
    props = [json.loads(l) for l in open(os.path.join(HERE, "properties.jsonl"))]
    checks = []
    na = []
    for p in props:
        pid = p["id"]
        if pid in CHECKS:
            level, tech, text, note = CHECKS[pid]
            checks.append({
                "property_id": pid,
                "quick_cmd": "./check %s --tier quick" % pid,
                "thorough_cmd": "./check %s --tier thorough" % pid,
                "evidence_file": "/verif/evidence/%s.json" % pid,
                "replay_cmd_template": "./check %s --replay {path}" % pid,
                "engine": "vpmon",
                "level_claimed": {"category": level, "text": text, "design_ref": "DESIGN.md section 5, %s" % pid},
                "level_note": note,
                "technique": tech,
            })
        else:
            na.append({"property_id": pid,
                       "reason": PENDING.get(pid, "check not built yet in this round (designed in DESIGN.md section 5; no claim is made until its monitor exists and has been validated)")})
    m = {
        "version": 1,
        "setup_cmd": "cd /verif/harness && CARGO_NET_OFFLINE=true RUSTFLAGS='--cfg libcnb_rs_verif' cargo build --release --offline --bins && cd /verif && gcc -O1 -shared -fPIC -o shim/fsshim.so shim/fsshim.c -ldl",
        "hooks": {
            "guard": "--cfg libcnb_rs_verif",
            "enable": "RUSTFLAGS='--cfg libcnb_rs_verif' (set by ./check for every harness build; no source line in /repo is currently guarded by it: all observations are taken at process / public-API boundaries)",
            "baseline_off_cmd": BASELINE_OFF,
            "source_commits": [],
            "add_only": True,
        },
        "engines": [
            {"name": "vpmon", "path": "/verif/harness", "serves_properties": sorted(CHECKS),
             "kind_free_text": "Rust executor binaries (path-depend on /repo, rebuilt by every check) driven by Python workload generators; Python reference models / offline checkers judge the recorded events"},
        ],
        "checks": checks,
        "not_applicable": na,
        "notes": "Technique family: runtime monitoring. See DESIGN.md. Exit 2 from ./check means the check is broken or observed nothing; it is never a verdict.",
    }
    with open(os.path.join(HERE, "MANIFEST.json"), "w") as f:
        json.dump(m, f, indent=1)
        f.write("\n")


if __name__ == "__main__":
    main()
