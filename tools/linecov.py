#!/usr/bin/env python3
"""Development aid: which lines of a check's own generator/oracle code does one run of the check execute?
usage: tools/linecov.py C07 [--tier quick]   -> lists the never-executed lines of tools/c07.py (and of the shared modules it uses)
A route of a workload that is never reached judges nothing; this is how such dead routes are found (see also Result.required)."""
import dis
import os
import runpy
import sys
import threading

OUT = "/dev/shm/vpcov"
TOOLS = os.path.dirname(os.path.abspath(__file__))
seen = set()
_fh = {}


def tracer(frame, event, arg):
    fn = frame.f_code.co_filename
    if not fn.startswith(TOOLS):
        return None
    if event == "line" or event == "call":
        key = (fn, frame.f_lineno)
        if key not in seen:
            seen.add(key)
            pid = os.getpid()
            fh = _fh.get(pid)
            if fh is None:
                fh = _fh[pid] = open(os.path.join(OUT, "%d.txt" % pid), "a")
            fh.write("%s\t%d\n" % key)
            fh.flush()
    return tracer


def executable_lines(path):
    src = open(path).read()
    code = compile(src, path, "exec")
    lines = set()
    stack = [code]
    while stack:
        c = stack.pop()
        for _, _, ln in c.co_lines():
            if ln:
                lines.add(ln)
        for k in c.co_consts:
            if hasattr(k, "co_lines"):
                stack.append(k)
    return lines


def main():
    import shutil
    shutil.rmtree(OUT, ignore_errors=True)
    os.makedirs(OUT)
    pid = sys.argv[1]
    sys.argv = [os.path.join(os.path.dirname(TOOLS), "check")] + sys.argv[1:]
    sys.settrace(tracer)
    threading.settrace(tracer)
    try:
        runpy.run_path(sys.argv[0], run_name="__main__")
    except SystemExit as e:
        print("check exit:", e.code)
    sys.settrace(None)
    hit = {}
    for f in os.listdir(OUT):
        for line in open(os.path.join(OUT, f)):
            fn, ln = line.rstrip("\n").split("\t")
            hit.setdefault(fn, set()).add(int(ln))
    target = os.path.join(TOOLS, pid.lower() + ".py")
    for path in [target] + sorted(p for p in hit if p != target and os.path.basename(p) in ("envmodel.py", "layersim.py", "phase.py", "testrun.py", "tomlw.py")):
        ex = executable_lines(path)
        miss = sorted(ex - hit.get(path, set()))
        src = open(path).read().split("\n")
        print("== %s: %d of %d executable lines never ran" % (os.path.basename(path), len(miss), len(ex)))
        # group consecutive
        i = 0
        while i < len(miss):
            j = i
            while j + 1 < len(miss) and miss[j + 1] <= miss[j] + 2:
                j += 1
            print("  %d-%d: %s" % (miss[i], miss[j], src[miss[i] - 1].strip()[:110]))
            i = j + 1
    shutil.rmtree(OUT, ignore_errors=True)


if __name__ == "__main__":
    main()
