"""Shared machinery for the /verif checks: harness build, executor processes,
evidence, known findings, replay files, verdict bookkeeping.

Nothing in here judges libcnb behaviour; it is plumbing only.
"""
import hashlib
import json
import os
import stat
import random
import shutil
import subprocess
import sys
import time

VERIF = os.path.dirname(os.path.dirname(os.path.abspath(__file__)))
REPO = os.environ.get("VP_REPO", "/repo")
HARNESS = os.path.join(VERIF, "harness")
BIN = os.path.join(HARNESS, "target", "release")
EVIDENCE = os.path.join(VERIF, "evidence")
REPLAY = os.path.join(VERIF, "replay")
FINDINGS = os.path.join(VERIF, "KNOWN_FINDINGS.txt")
NCPU = min(16, os.cpu_count() or 4)

CARGO_ENV = {
    "CARGO_NET_OFFLINE": "true",
    "RUSTFLAGS": "--cfg libcnb_rs_verif",
    "CARGO_TERM_COLOR": "never",
}


class Broken(Exception):
    """The check itself cannot run (harness does not build, tool missing…).
    Exit status 2, never a VIOLATION."""


def workroot():
    base = "/dev/shm" if os.path.isdir("/dev/shm") and os.access("/dev/shm", os.W_OK) else os.path.join(VERIF, "work")
    d = os.path.join(base, "vp.%d" % os.getpid())
    os.makedirs(d, exist_ok=True)
    return d


# --------------------------------------------------------------------------
# the ambient conditions of the executor processes are part of the workload: nothing a property promises depends on the
# process environment, the current directory, the home directory's git configuration or a CI system's variables - so the
# executors run in an ambient in which every one of these differs from "a developer's quiet shell"

_AMBIENT = {}


def ambient_dir():
    """a directory (created once per check process, next to the work directories) that serves as HOME, as a stale $PWD and as the
    target of stale CNB_* path variables: its git ignore files ignore everything, its decoy inputs are valid and different"""
    d = _AMBIENT.get("dir") or os.environ.get("VP_AMBIENT_DIR")
    if d and os.path.isdir(d):
        return d
    # (./check creates it inside its work directory before any worker is forked and exports VP_AMBIENT_DIR; the work directory is removed at the end)
    d = os.path.join(workroot(), "ambient")
    for sub in (".config/git", "decoy/layers", "decoy/platform/env", "decoy/app", "elsewhere"):
        os.makedirs(os.path.join(d, sub), exist_ok=True)
    for rel, text in ((".gitignore", "*\n"), (".config/git/ignore", "*\n"), (".gitconfig", "[core]\n\texcludesFile = %s/.gitignore\n" % d),
                      ("decoy/plan.toml", '[[entries]]\nname = "decoy-from-a-stale-variable"\n'), ("decoy/build-plan.toml", ""),
                      ("decoy/platform/env/DECOY", "from a stale CNB_PLATFORM_DIR"), ("decoy/layers/store.toml", '[metadata]\ndecoy = true\n')):
        with open(os.path.join(d, rel), "w") as f:
            f.write(text)
    os.chmod(d, 0o755)
    # every work directory has an ancestor whose .gitignore ignores everything (none of them is inside a git repository: the file means nothing)
    with open(os.path.join(os.path.dirname(d), ".gitignore"), "w") as f:
        f.write("*\n")
    _AMBIENT["dir"] = d
    os.environ["VP_AMBIENT_DIR"] = d
    return d


def hostile_env(cargo=False):
    """environment variables that are set around the code under test. cargo=True: the process runs real cargo (it keeps CARGO_HOME /
    RUSTUP_HOME and gets no CARGO_TARGET_DIR)."""
    d = ambient_dir()
    e = {"CI": "true", "GITHUB_ACTIONS": "true", "HOME": d, "XDG_CONFIG_HOME": os.path.join(d, ".config"), "PWD": os.path.join(d, "elsewhere"), "OLDPWD": d,
         "LANG": "tr_TR.UTF-8", "LC_ALL": "tr_TR.UTF-8", "TZ": "Pacific/Kiritimati", "NO_COLOR": "1", "TERM": "dumb", "SOURCE_DATE_EPOCH": "1", "COLUMNS": "20",
         # stale path variables of an outer lifecycle run (the phases take their paths from their arguments)
         "CNB_BP_PLAN_PATH": os.path.join(d, "decoy", "plan.toml"), "CNB_BUILD_PLAN_PATH": os.path.join(d, "decoy", "build-plan.toml"), "CNB_LAYERS_DIR": os.path.join(d, "decoy", "layers"),
         "CNB_PLATFORM_DIR": os.path.join(d, "decoy", "platform"), "CNB_APP_DIR": os.path.join(d, "decoy", "app"),
         # names the workloads themselves use for the variables they compute with: the process environment is not an input
         "A": "from-the-process-environment", "B": "from-the-process-environment", "FOO": "from-the-process-environment", "CC": "from-the-process-environment",
         "LD_LIBRARY_PATH_VP": "x", "CPATH": "/from/the/process/environment", "LIBRARY_PATH": "/from/the/process/environment", "PKG_CONFIG_PATH": "/from/the/process/environment"}
    # names that the ambient-read monitor saw the code under test ask for during the first pass of this check (see ./check): hostile values
    try:
        for name in json.loads(os.environ.get("VP_EXTRA_HOSTILE_ENV", "[]")):
            e[name] = (os.path.join(d, ".gitconfig") if "CONFIG" in name.upper() else os.path.join(d, "decoy") if any(t in name.upper() for t in ("DIR", "PATH", "HOME", "ROOT", "FILE"))
                       else "https://vp-hostile.invalid/%s/" % name.lower())
    except ValueError:
        pass
    if not cargo:
        # the ambient-read monitor rides along in every executor that is not a compiler driver (an explicit LD_PRELOAD of a workload - the
        # fault injector - takes its place there)
        shim = os.path.join(VERIF, "shim", "envshim.so")
        if os.path.exists(shim):
            os.makedirs(os.path.join(d, "envreads"), exist_ok=True)
            e["LD_PRELOAD"] = shim
            e["VP_ENVSHIM_LOG"] = os.path.join(d, "envreads", "%d.log" % os.getpid())
    if cargo:
        real_home = os.environ.get("HOME", "/root")
        e["CARGO_HOME"] = os.environ.get("CARGO_HOME", os.path.join(real_home, ".cargo"))
        e["RUSTUP_HOME"] = os.environ.get("RUSTUP_HOME", os.path.join(real_home, ".rustup"))
    else:
        e["CARGO_TARGET_DIR"] = "."
        e["CARGO_BUILD_TARGET_DIR"] = "."
    return e


def rmtree(path):
    """rm -rf that copes with hostile modes (we run as root, but be thorough)."""
    if not os.path.lexists(path):
        return
    if os.path.islink(path) or not os.path.isdir(path):
        os.unlink(path)
        return
    for root, dirs, files in os.walk(path, topdown=True):
        for d in dirs:
            p = os.path.join(root, d)
            if not os.path.islink(p):
                try:
                    os.chmod(p, 0o700)
                except OSError:
                    pass
    shutil.rmtree(path, ignore_errors=True)


def build_harness(extra_packages=()):
    """Rebuild the executor binaries against /repo's current working tree."""
    env = dict(os.environ)
    env.update(CARGO_ENV)
    t0 = time.time()
    p = subprocess.run(
        ["cargo", "build", "--release", "--offline", "--bins"],
        cwd=HARNESS, env=env, stdout=subprocess.PIPE, stderr=subprocess.STDOUT, text=True)
    if p.returncode != 0:
        sys.stderr.write(p.stdout[-6000:])
        raise Broken("harness does not build against the current /repo tree")
    return time.time() - t0


def build_cargo_libcnb():
    """Build the real cargo-libcnb executable from /repo (for C15). Uses a target
    dir under /verif/harness so /repo is not littered."""
    env = dict(os.environ)
    env.update(CARGO_ENV)
    tdir = os.path.join(HARNESS, "target", "repo")
    p = subprocess.run(
        ["cargo", "build", "--release", "--offline", "-p", "libcnb-cargo", "--target-dir", tdir],
        cwd=REPO, env=env, stdout=subprocess.PIPE, stderr=subprocess.STDOUT, text=True)
    if p.returncode != 0:
        sys.stderr.write(p.stdout[-6000:])
        raise Broken("cargo-libcnb does not build from the current /repo tree")
    return os.path.join(tdir, "release", "cargo-libcnb")


def build_shim():
    src = os.path.join(VERIF, "shim", "fsshim.c")
    out = os.path.join(VERIF, "shim", "fsshim.so")
    if (not os.path.exists(out)) or os.path.getmtime(out) < os.path.getmtime(src):
        p = subprocess.run(["gcc", "-O1", "-shared", "-fPIC", "-o", out, src, "-ldl"],
                           stdout=subprocess.PIPE, stderr=subprocess.STDOUT, text=True)
        if p.returncode != 0:
            sys.stderr.write(p.stdout)
            raise Broken("fsshim.c does not compile")
    return out


def shared_inodes(d):
    """regular files beneath d that have more than one name (hard links): an installed copy shares nothing with its source"""
    out = []
    for root, _, files in os.walk(d):
        for fn in files:
            p = os.path.join(root, fn)
            try:
                st = os.lstat(p)
            except OSError:
                continue
            if stat.S_ISREG(st.st_mode) and st.st_nlink > 1:
                out.append(os.path.relpath(p, d))
    return sorted(out)


def build_envshim():
    src = os.path.join(VERIF, "shim", "envshim.c")
    out = os.path.join(VERIF, "shim", "envshim.so")
    if (not os.path.exists(out)) or os.path.getmtime(out) < os.path.getmtime(src):
        p = subprocess.run(["gcc", "-O1", "-shared", "-fPIC", "-o", out, src, "-ldl"], stdout=subprocess.PIPE, stderr=subprocess.STDOUT, text=True)
        if p.returncode != 0:
            sys.stderr.write(p.stdout)
            raise Broken("envshim.c does not compile")
    return out


ENV_READS_IGNORED = ("VP_", "VPBP_", "RUST_", "LD_", "MALLOC_", "GLIBC_", "LIBC_", "TZ", "TMPDIR", "LANG", "LC_", "LANGUAGE", "NLSPATH")
ENV_INPUTS = {"CNB_BUILDPACK_DIR", "CNB_TARGET_OS", "CNB_TARGET_ARCH", "CNB_TARGET_ARCH_VARIANT", "CNB_TARGET_DISTRO_NAME", "CNB_TARGET_DISTRO_VERSION"}      # the documented inputs of the phases


def collected_env_reads():
    """the variable names all executors of this check run asked libc for (hostile_env routes them to <ambient>/envreads/*.log)"""
    d = os.path.join(ambient_dir(), "envreads")
    names = set()
    if os.path.isdir(d):
        for fn in os.listdir(d):
            try:
                names.update(l.strip() for l in open(os.path.join(d, fn), errors="replace"))
            except OSError:
                pass
    return filter_env_reads(names)


def filter_env_reads(names):
    return sorted(n for n in set(names) if n and not n.startswith(ENV_READS_IGNORED) and n not in ENV_INPUTS)


def env_reads(mode, requests, work, binary="vpmon"):
    """Ambient-read monitor: the names of the environment variables an executor asks libc for while it serves `requests`, observed with the
    LD_PRELOAD library shim/envshim.so. Names that belong to the runtime, the locale machinery or the documented inputs are left out.
    A workload that finds a name here sets it to something hostile and runs again: its oracle does not know the variable, so any influence shows."""
    log = os.path.join(work, "envreads.%d.log" % os.getpid())
    if os.path.exists(log):
        os.unlink(log)
    mon = Mon(mode, env={"LD_PRELOAD": build_envshim(), "VP_ENVSHIM_LOG": log}, binary=binary)
    try:
        for r in requests:
            mon.call(r)
    finally:
        mon.close()
    names = set()
    if os.path.exists(log):
        names = {l.strip() for l in open(log, errors="replace") if l.strip()}
        os.unlink(log)
    return filter_env_reads(names)


class ExecutorDied(Broken):
    """The executor process died while executing a request against the code under test (abort, stack overflow, panic).
    Checks that drive libcnb in-process turn this into a violation with the request as witness; uncaught it is BROKEN."""

    def __init__(self, status, req, args):
        Broken.__init__(self, "executor %s died (status %s) on request %s" % (args, status, json.dumps(req)[:2000]))
        self.status = status
        self.req = req
        self.cmd = args

    def __reduce__(self):          # must survive the trip from a pool worker to the parent
        return (ExecutorDied, (self.status, self.req, self.cmd))


EXECUTOR_RESTARTS = []


class Mon:
    """A persistent executor process: one JSON request per line in, one JSON
    reply per line out."""

    def __init__(self, mode, env=None, binary="vpmon", preexec=None, cwd=None, prefix=(), umask=-1, stderr_full=False):
        """stderr_full: the executor's stderr is /dev/full (every write to it fails with ENOSPC: a log collector that went away) - nothing
        the properties promise involves writing to stderr"""
        e = dict(os.environ)
        e.update(hostile_env())
        e.pop("CARGO_PRIMARY_PACKAGE", None)
        if env:
            e.update(env)
        self.args = list(prefix) + [os.path.join(BIN, binary), mode]
        self.umask = 0o022 if umask == -1 else umask
        self.mode = mode
        self._spawn = lambda: subprocess.Popen(self.args, stdin=subprocess.PIPE, stdout=subprocess.PIPE, stderr=open("/dev/full", "wb") if stderr_full else None,
                                               env=e, preexec_fn=preexec, cwd=cwd, umask=umask)
        self.p = self._spawn()

    def call(self, req):
        try:
            self.p.stdin.write((json.dumps(req) + "\n").encode())
            self.p.stdin.flush()
        except (BrokenPipeError, OSError):
            # the executor was gone BEFORE this request reached it, i.e. it went away between two requests (its last reply was complete): no
            # library call was in progress - something outside killed it. The stateless executors are started again and the request is sent
            # once more (counted in the evidence); one that holds state (layers: context and handles) is reported as dead.
            rc = self.p.wait()
            if self.mode in ("env", "parse", "inventory", "emit", "pkg") and not getattr(self, "_restarted", False):
                self._restarted = True
                EXECUTOR_RESTARTS.append((self.mode, rc))
                self.p = self._spawn()
                self.p.stdin.write((json.dumps(req) + "\n").encode())
                self.p.stdin.flush()
            else:
                raise ExecutorDied(rc, req, self.args)
        line = self.p.stdout.readline()
        if not line:
            rc = self.p.wait()
            raise ExecutorDied(rc, req, self.args)
        return json.loads(line)

    def close(self):
        try:
            self.p.stdin.close()
        except Exception:
            pass
        try:
            self.p.wait(timeout=10)
        except Exception:
            self.p.kill()


UMASKS = [0o022, 0o077, 0o027, 0o002]      # process umasks the executors are run under (a build process inherits whatever the platform sets)


def hx(b):
    if isinstance(b, str):
        b = b.encode()
    return b.hex()


def unhx(s):
    return bytes.fromhex(s)


def seed_from_env():
    try:
        return int(os.environ.get("VERIF_SEED", "0"))
    except ValueError:
        return 0


def rng(seed, *salt):
    h = hashlib.sha256(repr((seed,) + salt).encode()).digest()
    return random.Random(int.from_bytes(h[:8], "big"))


# --------------------------------------------------------------------------
# known findings

def load_findings():
    open_f = []
    if os.path.exists(FINDINGS):
        for line in open(FINDINGS):
            line = line.strip()
            if line.startswith("finding:"):
                rest = line[len("finding:"):].strip()
                parts = rest.split(None, 2)
                kv = {}
                for p in parts[:2]:
                    if "=" in p:
                        k, v = p.split("=", 1)
                        kv[k] = v
                open_f.append({"property": kv.get("property"), "sig": kv.get("sig"),
                               "text": parts[2] if len(parts) > 2 else ""})
    return open_f


# --------------------------------------------------------------------------
# result of one check run

class Result:
    def __init__(self, pid, tier, seed, level):
        self.pid = pid
        self.tier = tier
        self.seed = seed
        self.level = level
        self.t0 = time.time()
        self.evaluations = 0
        self.nontrivial = set()
        self.nontrivial_counted = 0   # distinct non-trivial cases counted elsewhere (e.g. inside a Rust enumerator)
        self.rule = ""
        self.samples = []
        self.extra = {}
        self.assumptions = []
        self.violations = []     # dicts: {sig, what, case}
        self.inconclusive = []   # strings
        self.exhaustive = None
        self.no_evidence = False  # replays do not rewrite the evidence file

    def sample(self, s, cap=6):
        if len(self.samples) < cap:
            self.samples.append(s)

    def violation(self, sig, what, case):
        # at most 5 witnesses per signature, so that many instances of one (possibly known) finding never crowd out another one
        n = sum(1 for v in self.violations if v["sig"] == sig)
        if n < 5 and len(self.violations) < 1000:
            self.violations.append({"sig": sig, "what": what, "case": case})
        else:
            self.extra["violation_witnesses_dropped"] = self.extra.get("violation_witnesses_dropped", 0) + 1

    def merge(self, other):
        """Merge a shard result (dict produced by shard_dict)."""
        self.evaluations += other["evaluations"]
        self.nontrivial.update(other["nontrivial"])
        for s in other["samples"]:
            self.sample(s)
        for v in other["violations"]:
            self.violation(v["sig"], v["what"], v["case"])
        self.inconclusive.extend(other["inconclusive"])
        for k, v in other.get("counters", {}).items():
            self.extra[k] = self.extra.get(k, 0) + v
        for k, v in other.get("sets", {}).items():
            self.extra.setdefault("_sets", {}).setdefault(k, set()).update(v)

    def finish(self):
        """Write evidence, print verdict lines, return exit status."""
        os.makedirs(EVIDENCE, exist_ok=True)
        findings = [f for f in load_findings() if f["property"] == self.pid]
        known, fresh = [], []
        for v in self.violations:
            m = [f for f in findings if f["sig"] == v["sig"]]
            (known if m else fresh).append(v)
        sets = self.extra.pop("_sets", {})
        for k, v in sets.items():
            self.extra[k] = len(v)
        cov = {
            "evaluations": int(self.evaluations),
            "distinct_nontrivial": len(self.nontrivial) + self.nontrivial_counted,
            "rule": self.rule,
            "samples": self.samples,
            "inconclusive": len(self.inconclusive),
        }
        if self.exhaustive is not None:
            cov["exhaustive"] = bool(self.exhaustive)
        cov.update(self.extra)
        if self.inconclusive:
            cov["inconclusive_examples"] = self.inconclusive[:5]
        ev = {
            "property_id": self.pid, "tier": self.tier, "seed": self.seed, "level": self.level,
            "coverage": cov, "assumptions": self.assumptions,
            "wall_s": round(time.time() - self.t0, 2),
            "violations": len(fresh),
            "known_findings_seen": sorted({v["sig"] for v in known}),
        }
        if not self.no_evidence:
            with open(os.path.join(EVIDENCE, self.pid + ".json"), "w") as f:
                json.dump(ev, f, indent=1, sort_keys=True, default=_jd)
                f.write("\n")
        for s in self.inconclusive[:10]:
            print("INCONCLUSIVE property=%s %s" % (self.pid, s))
        seen = set()
        for v in known:
            if v["sig"] not in seen:
                seen.add(v["sig"])
                print("KNOWN-FINDING: property=%s %s" % (self.pid, v["what"]))
        if fresh:
            os.makedirs(REPLAY, exist_ok=True)
            seen = set()
            for v in fresh:
                if v["sig"] in seen and len(seen) >= 1:
                    continue
                seen.add(v["sig"])
                if len(seen) > 10:
                    break
                body = json.dumps({"property": self.pid, "seed": self.seed, "tier": self.tier,
                                   "sig": v["sig"], "what": v["what"], "case": v["case"]},
                                  indent=1, default=_jd)
                h = hashlib.sha256(body.encode()).hexdigest()[:12]
                path = os.path.join(REPLAY, "%s-%s.json" % (self.pid, h))
                with open(path, "w") as f:
                    f.write(body)
                print("VIOLATION property=%s replay=%s" % (self.pid, path))
                print("  what: %s" % (v["what"][:1500],))
            return 1
        if len(self.inconclusive) > max(20, self.evaluations // 20):
            # three-valued verdicts: when this much of the exploration could not be judged, "held on what was observed" would mislead
            print("BROKEN property=%s %d of %d evaluations were inconclusive: the monitors could not observe enough to give a verdict"
                  % (self.pid, len(self.inconclusive), self.evaluations))
            return 2
        missing = [k for k in getattr(self, "required", []) if not self.extra.get(k)]
        if missing:
            # a route of the workload that never ran (or whose monitor never got to judge anything) is not "held"
            print("BROKEN property=%s these parts of the workload observed nothing: %s" % (self.pid, ", ".join(missing)))
            return 2
        if self.evaluations == 0 or len(self.nontrivial) + self.nontrivial_counted < 2:
            print("BROKEN property=%s the monitors observed nothing (evaluations=%d, nontrivial=%d)"
                  % (self.pid, self.evaluations, len(self.nontrivial)))
            return 2
        print("HELD property=%s tier=%s seed=%d evaluations=%d distinct_nontrivial=%d inconclusive=%d wall=%.1fs"
              % (self.pid, self.tier, self.seed, self.evaluations, len(self.nontrivial) + self.nontrivial_counted,
                 len(self.inconclusive), time.time() - self.t0))
        return 0


def _jd(o):
    if isinstance(o, (set, frozenset)):
        return sorted(o, key=repr)
    if isinstance(o, bytes):
        return o.hex()
    return repr(o)


class Shard:
    """Per-worker accumulator, turned into a plain dict to cross the process
    boundary."""

    def __init__(self):
        self.evaluations = 0
        self.nontrivial = set()
        self.samples = []
        self.violations = []
        self.inconclusive = []
        self.counters = {}
        self.sets = {}

    def count(self, k, n=1):
        self.counters[k] = self.counters.get(k, 0) + n

    def add(self, k, v):
        self.sets.setdefault(k, set()).add(v)

    def sample(self, s, cap=3):
        if len(self.samples) < cap:
            self.samples.append(s)

    def violation(self, sig, what, case):
        if sum(1 for v in self.violations if v["sig"] == sig) < 3 and len(self.violations) < 200:
            self.violations.append({"sig": sig, "what": what, "case": case})

    def dict(self):
        if EXECUTOR_RESTARTS:
            # (executors that something outside killed between two requests and that were started again: see Mon.call)
            self.counters["executors_restarted_after_dying_between_requests"] = self.counters.get("executors_restarted_after_dying_between_requests", 0) + len(EXECUTOR_RESTARTS)
            del EXECUTOR_RESTARTS[:]
        return {"evaluations": self.evaluations, "nontrivial": self.nontrivial, "samples": self.samples,
                "violations": self.violations, "inconclusive": self.inconclusive,
                "counters": self.counters, "sets": self.sets}


def pmap(fn, shards, procs=None):
    """Run fn over shards in a process pool; fn returns Shard.dict()."""
    import multiprocessing as mp
    from concurrent.futures import ProcessPoolExecutor
    from concurrent.futures.process import BrokenProcessPool
    procs = procs or NCPU
    if len(shards) <= 1 or procs == 1:
        return [fn(s) for s in shards]
    # ProcessPoolExecutor (not multiprocessing.Pool): if a worker process dies, the call fails instead of hanging forever
    try:
        with ProcessPoolExecutor(max_workers=min(procs, len(shards)), mp_context=mp.get_context("fork")) as ex:
            return list(ex.map(fn, shards, chunksize=1))
    except BrokenProcessPool:
        raise Broken("a worker process of the check died unexpectedly")


def pimap(fn, items, chunksize=4, procs=None):
    """Like pmap, for many small tasks (results in order)."""
    import multiprocessing as mp
    from concurrent.futures import ProcessPoolExecutor
    from concurrent.futures.process import BrokenProcessPool
    items = list(items)
    if not items:
        return []
    try:
        with ProcessPoolExecutor(max_workers=min(procs or NCPU, len(items)), mp_context=mp.get_context("fork")) as ex:
            return list(ex.map(fn, items, chunksize=chunksize))
    except BrokenProcessPool:
        raise Broken("a worker process of the check died unexpectedly")


def split(items, n):
    items = list(items)
    n = max(1, min(n, len(items)))
    return [items[i::n] for i in range(n)]


# --------------------------------------------------------------------------
# directory snapshots (plain os calls; no libcnb code involved)

def snapshot(root, skip=None):
    """{relative path (bytes): ('d', mode) | ('f', mode, content) | ('l', target)}; root itself excluded."""
    import stat
    if isinstance(root, str):
        root = root.encode()
    out = {}

    def walk(d, rel):
        try:
            names = sorted(os.listdir(d))
        except PermissionError:
            out[rel + b"/<unreadable>"] = ("?",)
            return
        for n in names:
            p = os.path.join(d, n)
            r = (rel + b"/" + n) if rel else n
            if skip and skip(r):
                continue
            st = os.lstat(p)
            if stat.S_ISLNK(st.st_mode):
                out[r] = ("l", os.readlink(p))
            elif stat.S_ISDIR(st.st_mode):
                out[r] = ("d", stat.S_IMODE(st.st_mode))
                walk(p, r)
            elif not stat.S_ISREG(st.st_mode):
                out[r] = ("s", stat.S_IFMT(st.st_mode), stat.S_IMODE(st.st_mode))   # fifo, socket, device: never opened
            else:
                try:
                    with open(p, "rb") as f:
                        c = f.read()
                except PermissionError:
                    c = b"<unreadable>"
                out[r] = ("f", stat.S_IMODE(st.st_mode), c)
    walk(root, b"")
    return out


def snap_diff(a, b, limit=6):
    """Human-readable differences between two snapshots."""
    out = []
    for k in sorted(set(a) | set(b)):
        if a.get(k) != b.get(k):
            out.append("%r: %s -> %s" % (k, _short(a.get(k)), _short(b.get(k))))
            if len(out) >= limit:
                break
    return out


def _short(v):
    if v is None:
        return "absent"
    if v[0] == "f":
        return "file(mode=%o, %r)" % (v[1], v[2][:40])
    if v[0] == "d":
        return "dir(mode=%o)" % v[1]
    if v[0] == "l":
        return "link(%r)" % (v[1],)
    return repr(v)


def snap_json(s):
    return {k.hex(): [x.hex() if isinstance(x, bytes) else x for x in v] for k, v in s.items()}


NOBODY = ["setpriv", "--reuid=65534", "--regid=65534", "--clear-groups"]


def nobody_works():
    """Can we drop to an unprivileged uid (needed for real permission semantics)?"""
    try:
        p = subprocess.run(NOBODY + ["id", "-u"], stdout=subprocess.PIPE, stderr=subprocess.PIPE, text=True, timeout=20)
        return p.returncode == 0 and p.stdout.strip() == "65534"
    except Exception:  # noqa: BLE001
        return False


def chown_tree(path, uid=65534, gid=65534):
    os.lchown(path, uid, gid)
    for root, dirs, files in os.walk(path):
        for n in dirs + files:
            os.lchown(os.path.join(root, n), uid, gid)


def _unesc(b):
    """undo fsshim's escaping of tab / newline / backslash inside paths"""
    if b"\\" not in b:
        return b
    out = bytearray()
    i = 0
    while i < len(b):
        if b[i] == 0x5C and i + 1 < len(b):
            out.append({0x74: 0x09, 0x6E: 0x0A}.get(b[i + 1], b[i + 1]))
            i += 2
        else:
            out.append(b[i])
            i += 1
    return bytes(out)


def read_trace(path):
    """fsshim log -> list of dicts"""
    out = []
    if not os.path.exists(path):
        return out
    with open(path, "rb") as f:
        for line in f.read().split(b"\n"):
            if not line:
                continue
            p = line.split(b"\t")
            if len(p) < 7:
                continue
            out.append({"seq": int(p[0]), "call": p[1].decode(), "class": p[2].decode(), "raw": _unesc(p[3]), "phys": _unesc(p[4]), "result": int(p[5]), "errno": int(p[6]),
                        "tag": p[7].decode() if len(p) > 7 else ""})
    return out
