"""C12 — a failed file operation during layer handling / output writing is reported.
For each representative operation: count pass (which libc calls does it make beneath the work prefix),
then one run per call position k and errno with that call failing; success is only acceptable if the
directory equals what the fault-free run produces."""
import json
import os

import envmodel
import phase
import tomlw
import vp
from vp import hx
from c04 import enc_entries

CLASSES = "open_w,open_r,open_dir,read,write,mkdir,unlink,rmdir,rename,chmod,readdir,truncate,symlink,link"
ERRNOS = {"EIO": 5, "EACCES": 13, "ENOSPC": 28, "EPERM": 1, "EROFS": 30}
OLD_ENV = [("all", "append", b"PATH", b"/old"), ("all", "delim", b"PATH", b":"), ("launch", "override", b"OLD", b"1"), ("process:web", "override", b"ROLE", b"web"),
           ("process:worker", "default", b"ROLE", b"w")]
NEW_ENV = [("build", "override", b"CC", b"gcc"), ("launch", "prepend", b"NEW", b"2"), ("process:web", "append", b"ROLE", b"x")]
FULL_RESULT = {"metadata_value": "new", "env": NEW_ENV, "exec_d": [["p2", "p2"]], "sboms": [["syft", hx(b'{"s":1}')], ["cdx", hx(b'{"c":2}')]],
               "write_files": [["data.txt", hx(b"fresh")], ["bin/tool", hx(b"#!/bin/sh\n")]], "delete_files": []}


def mk_existing(layers, name, metadata_line):
    d = os.path.join(layers, name)
    for rel, content in (("a/b/c.txt", b"deep"), ("bin/tool", b"old tool"), ("data.txt", b"old"), ("exec.d/p1", b"#!/bin/sh\necho p1\n")):
        os.makedirs(os.path.dirname(os.path.join(d, rel)), exist_ok=True)
        with open(os.path.join(d, rel), "wb") as f:
            f.write(content)
    for rel, content in envmodel.expected_tree(OLD_ENV).items():
        p = os.path.join(d.encode(), rel)
        os.makedirs(os.path.dirname(p), exist_ok=True)
        with open(p, "wb") as f:
            f.write(content)
    with open(os.path.join(layers, name + ".toml"), "w") as f:
        f.write("[metadata]\n%s\n" % metadata_line)
    for fmt in ("cdx", "spdx"):
        with open(os.path.join(layers, "%s.sbom.%s.json" % (name, fmt)), "w") as f:
            f.write('{"old":"%s"}' % fmt)


def cached(name, mtype="generic", restored="keep", invalid="delete"):
    return {"op": "cached", "name": name, "build": True, "launch": True, "mtype": mtype, "restored": {"action": restored, "cause": "c"},
            "invalid": {"action": invalid, "cause": "i", "version": "9.9"}}


def handle(name, impl, strategy, migrate="recreate"):
    return {"op": "handle", "name": name, "impl": impl, "types": {"launch": True, "build": True, "cache": True}, "strategy": strategy,
            "migrate": {"action": migrate, "metadata_value": "mig"}, "create": FULL_RESULT, "update": FULL_RESULT}


# name -> (kind, existing-layer metadata line or None, unarmed pre-steps, armed step)
OPS = {
    "cached-absent": ("mon", None, [], cached("L")),
    "cached-keep": ("mon", 'v = "1"', [], cached("L")),
    "cached-toml-only": ("mon", "toml-only", [], cached("L")),
    "uncached-toml-only": ("mon", "toml-only", [], {"op": "uncached", "name": "L", "build": True, "launch": False}),
    "cached-delete": ("mon", 'v = "1"', [], cached("L", restored="delete")),
    "cached-replace-metadata": ("mon", 'other = "x"', [], cached("L", mtype="typed", invalid="replace")),
    "uncached-over-existing": ("mon", 'v = "1"', [], {"op": "uncached", "name": "L", "build": True, "launch": False}),
    "write-metadata": ("mon", 'v = "1"', [cached("L")], {"op": "write_metadata", "name": "L", "metadata": {"k": "v", "n": 1}}),
    "write-env": ("mon", 'v = "1"', [cached("L")], {"op": "write_env", "name": "L", "entries": NEW_ENV}),
    "write-sboms": ("mon", 'v = "1"', [cached("L")], {"op": "write_sboms", "name": "L", "sboms": [["syft", hx(b'{"n":1}')]]}),
    "write-exec-d": ("mon", 'v = "1"', [cached("L")], {"op": "write_exec_d", "name": "L", "programs": [["p2", "p2"], ["p3", "p3"]]}),
    "trait-create": ("mon", None, [], handle("L", "v1", "keep")),
    "trait-keep": ("mon", 'v = "1"', [], handle("L", "v1", "keep")),
    "trait-update": ("mon", 'v = "1"', [], handle("L", "v1", "update")),
    "trait-recreate": ("mon", 'v = "1"', [], handle("L", "v1", "recreate")),
    "trait-migrate-replace": ("mon", 'v = "1"', [], handle("L", "v2", "keep", migrate="replace")),
    "detect-plan": ("bp", None, [], "detect"),
    "build-full": ("bp", None, [], "build"),
    "build-with-store": ("bp", "store", [], "build"),
}
QUICK_OPS = ["cached-absent", "cached-toml-only", "uncached-toml-only", "cached-keep", "cached-delete", "uncached-over-existing", "write-metadata", "write-env", "write-sboms", "write-exec-d", "trait-create", "trait-keep",
             "trait-update", "trait-recreate", "trait-migrate-replace", "detect-plan", "build-full", "build-with-store", "cached-replace-metadata"]

BP_SCRIPT = {"detect": {"result": "plan", "plan": [["provides", "x"], ["requires", "x", tomlw.tagged({"k": "v"})], ["or"], ["provides", "y"]]},
             "build": {"result": "ok", "launch": {"processes": [{"type": "web", "command": ["run"], "args": ["a"], "default": True}], "labels": [["k", "v"]]},
                       "store": tomlw.tagged({"k": "v", "n": 1}), "build_sboms": ["cdx", "spdx"], "launch_sboms": ["syft"]}}


# operations that replace what they write: issued again after a reported failure, a successful retry leaves what a first successful call leaves
# (write_metadata is not one of them: it reads the layer's TOML file first, and what a failed write left of that file is the retry's input)
RETRIED = ("write-env", "write-sboms", "write-exec-d")
RETRY_OUTCOME = {}
OTHER_SET = {}


def enc(step, src):
    s = dict(step)
    if s["op"] == "write_metadata":
        s["metadata"] = tomlw.tagged(s["metadata"])
    elif s["op"] == "write_env":
        s["entries"] = enc_entries(s["entries"])
    elif s["op"] == "write_exec_d":
        s["programs"] = [[p, os.path.join(src, f)] for p, f in s["programs"]]
    elif s["op"] == "handle":
        for k in ("create", "update"):
            spec = dict(s[k])
            spec["env"] = enc_entries(spec["env"])
            spec["exec_d"] = [[p, os.path.join(src, f)] for p, f in spec["exec_d"]]
            s[k] = spec
    return s


def split_op(opname):
    """'op@variant' -> (op, variant); variants: '' (plain), 'umask077' (the process runs under umask 077),
    'linked' (the TOML destinations of the operation are symbolic links / have a second hard link), 'cwdin' (the process's working
    directory is inside the layer), 'rolayer' (the layer directory has no write bit)"""
    base, _, variant = opname.partition("@")
    return base, variant


def link_away(w, path, how):
    """make `path` (an existing regular file) a symlink to / a second hard link of a file under w/links"""
    links = os.path.join(w, "links")
    os.makedirs(links, exist_ok=True)
    other = os.path.join(links, os.path.basename(path) + "." + how)
    if how == "hard":
        os.link(path, other)
    else:
        os.rename(path, other)
        os.symlink(os.path.relpath(other, os.path.dirname(path)), path)      # relative: the snapshots of two runs under different roots stay comparable


def prepare(root, opname):
    vp.rmtree(root)
    w = os.path.join(root, "w")
    opname, variant = split_op(opname)
    kind, existing, _, _ = OPS[opname]
    if kind == "mon":
        layers, src = os.path.join(w, "layers"), os.path.join(w, "src")
        for d in (layers, src, os.path.join(root, "app"), os.path.join(root, "bp")):
            os.makedirs(d)
        for p in ("p1", "p2", "p3"):
            with open(os.path.join(src, p), "wb") as f:
                f.write(b"#!/bin/sh\necho " + p.encode() + b"\n")
            os.chmod(os.path.join(src, p), 0o755)      # exec.d programs are executables: the copy must be one too
        if existing == "toml-only":
            # what a launch-only layer looks like after the restore: its toml (and here an SBOM file), no directory
            with open(os.path.join(layers, "L.toml"), "w") as f:
                f.write('[metadata]\nv = "1"\n')
            with open(os.path.join(layers, "L.sbom.cdx.json"), "w") as f:
                f.write('{"old":"cdx"}')
        elif existing:
            mk_existing(layers, "L", existing)
        # a bystander layer that must never change
        mk_existing(layers, "other", 'v = "other"')
        if variant == "linked" and existing and existing != "toml-only":
            link_away(w, os.path.join(layers, "L.toml"), "hard" if len(opname) % 2 else "sym")
            # ... and one of the layer's SBOM files is a dangling symbolic link (it "does not exist" for anyone who follows links)
            sp = os.path.join(layers, "L.sbom.spdx.json")
            os.unlink(sp)
            os.symlink("/nonexistent-vp/sbom.json", sp)
        return None
    lay = phase.Layout(w)
    lay.script = os.path.join(root, "script.json")      # the harness' own files stay outside the watched prefix
    lay.create()
    with open(os.path.join(lay.bp, "buildpack.toml"), "w") as f:
        f.write(phase.BP_TOML_OK)
    os.makedirs(os.path.join(lay.platform, "env"))
    with open(os.path.join(lay.platform, "env", "FOO"), "w") as f:
        f.write("bar")
    with open(lay.plan, "w") as f:
        f.write('[[entries]]\nname = "x"\n' if OPS[opname][3] == "build" else "")
    if existing == "store":
        with open(os.path.join(lay.layers, "store.toml"), "w") as f:
            f.write('[metadata]\nold = "value"\n' + "".join('k%d = "%s"\n' % (i, "x" * 40) for i in range(30)))
        for fn in ("launch.toml", "build.sbom.cdx.json"):
            with open(os.path.join(lay.layers, fn), "w") as f:
                f.write("# stale, longer content\n" * 20)
    if variant == "linked":
        if OPS[opname][3] == "detect":
            link_away(w, lay.plan, "hard")
        else:
            for fn, how in (("launch.toml", "sym"), ("store.toml", "hard")):
                p = os.path.join(lay.layers, fn)
                if not os.path.exists(p):
                    with open(p, "w") as f:
                        f.write('[metadata]\nleft = "by an earlier build"\n' if fn == "store.toml" else "# left by an earlier build\n")
                link_away(w, p, how)
    return lay


def execute(root, opname, shim, mode, k=0, err=5):
    """-> (ok: bool, detail, trace, snapshot)"""
    lay = prepare(root, opname)
    w = os.path.join(root, "w")
    log = os.path.join(root, "trace.log")
    env = {"LD_PRELOAD": shim, "VP_SHIM_PREFIX": w, "VP_SHIM_MODE": mode, "VP_SHIM_LOG": log, "VP_SHIM_CLASS": CLASSES, "VP_SHIM_K": str(k), "VP_SHIM_ERRNO": str(err)}
    base_op, variant = split_op(opname)
    kind, _, pre, step = OPS[base_op]
    um = 0o077 if variant == "umask077" else 0o022
    retried = None
    RETRY_OUTCOME.pop(root, None)
    OTHER_SET.pop(root, None)
    if kind == "mon":
        env["VP_SHIM_ARMED"] = "0"
        mon = vp.Mon("layers", env=env, umask=um)
        try:
            mon.call({"op": "init", "layers_dir": os.path.join(w, "layers"), "app_dir": os.path.join(root, "app"), "bp_dir": os.path.join(root, "bp")})
            for s in pre:
                r0 = mon.call(enc(s, os.path.join(w, "src")))
                if "err" in r0:
                    raise vp.Broken("unarmed pre-step failed: %r" % r0)
            ldir = os.path.join(w, "layers", "L")
            if variant == "cwdin" and os.path.isdir(os.path.join(ldir, "a", "b")):
                # the process stands inside the layer it is about to handle (a build step that changed into its layer and never left)
                mon.call({"op": "chdir", "dir": os.path.join(ldir, "a", "b")})
            if variant == "rolayer" and os.path.isdir(ldir):
                os.chmod(ldir, 0o555)      # as restored from a cache that keeps modes; the process is root, its writes go through
            if not mon.call({"op": "arm", "on": True}).get("armed"):
                raise vp.Broken("fsshim is not loaded in the executor")
            rep = mon.call(enc(step, os.path.join(w, "src")))
            mon.call({"op": "arm", "on": False})
            if "err" in rep and mode == "inject" and base_op in RETRIED:
                # the caller handles the error and issues the same write again, now without a fault: these writes replace what is there, so a
                # retry that reports success has left exactly what the call leaves without any fault before it
                if not (base_op == "write-exec-d" and k % 2):
                    retried = mon.call(enc(step, os.path.join(w, "src")))
                else:
                    # ... or, every other time, decides on another set of programs instead: that set is then what the layer has
                    retried = mon.call(enc({"op": "write_exec_d", "name": "L", "programs": [["q1", "p1"]]}, os.path.join(w, "src")))
                    if "err" not in retried:
                        have = sorted(n for n in os.listdir(ldir) if n.startswith("exec.d"))
                        progs = sorted(os.listdir(os.path.join(ldir, "exec.d"))) if os.path.isdir(os.path.join(ldir, "exec.d")) else None
                        OTHER_SET[root] = None if (have, progs) == (["exec.d"], ["q1"]) else "exec.d* entries of the layer: %r, programs in exec.d: %r" % (have, progs)
                        retried = mon.call(enc(step, os.path.join(w, "src")))      # (and back, for the comparison below)
            mon.call({"op": "chdir", "dir": "/"})
        finally:
            mon.close()
        ok, detail = "err" not in rep, rep.get("detail", "")[:200]
        if retried is not None:
            RETRY_OUTCOME[root] = "err" not in retried
            if "err" not in retried:
                rep = retried
        # what the buildpack's callbacks were shown (metadata, layer data) and the state that was reported belong to the outcome: an operation
        # that claims success under a fault must have shown and reported what it shows and reports without the fault
        observed = json.dumps({"callbacks": rep.get("callbacks"), "state": rep.get("state"), "data": rep.get("data")}, sort_keys=True).replace(root, "<root>").replace(root.encode().hex(), b"<root>".hex())
    else:
        st, marker, stderr = lay.run(step, lay.detect_args() if step == "detect" else lay.build_args(), lay.env(), BP_SCRIPT, extra_env=env, preexec=(lambda: os.umask(um)))
        ok, detail = st == 0, "exit %d %s" % (st, stderr[-150:])
        observed = None
    trace = vp.read_trace(log)
    snap = vp.snapshot(w, lambda rel: rel in (b"script.json",) or rel.startswith(b"bp/bin"))
    if observed is not None and (ok or RETRY_OUTCOME.get(root)):
        snap[b"<what the callbacks saw and the call returned>"] = ("f", 0, observed.encode())
    return ok, detail, trace, snap


def role(phys, root):
    rel = phys[len(root.encode()) + 1:] if phys.startswith(root.encode()) else phys
    for pat, r in ((b".toml", "toml"), (b".sbom.", "sbom"), (b"/env", "env"), (b"exec.d", "exec.d"), (b"/src/", "exec.d-source"), (b"plan", "plan"), (b"platform", "platform")):
        if pat in rel:
            return r
    return "layer-dir" if rel.count(b"/") <= 2 else "layer-file"


def task(arg):
    opname, k, ename, root, shim, baseline, callinfo, expected_class = arg
    sh = vp.Shard()
    try:
        ok, detail, trace, snap = execute(root, opname, shim, "inject", k, ERRNOS[ename])
    except vp.ExecutorDied as e:
        vp.rmtree(root)
        sh.evaluations += 1
        sh.violation("process-died:%s" % opname, "%s with %s injected into call #%d: the process died (status %s) instead of the call returning an error" % (opname, ename, k, e.status),
                     {"op": opname, "k": k, "errno": ename})
        return sh.dict()
    vp.rmtree(root)
    sh.evaluations += 1
    fired = [t for t in trace if t["tag"] == "INJECTED"]
    case = {"op": opname, "k": k, "errno": ename}
    if not fired:
        sh.inconclusive.append("%s: injection #%d (%s) never fired" % (opname, k, ename))
        return sh.dict()
    f = fired[0]
    if f["class"] != expected_class:
        # the k-th counted call of this run is not the k-th call of the fault-free pass: the enumeration of fault points would have holes
        sh.inconclusive.append("%s: fault point #%d is a %s call, the fault-free pass had a %s call there (enumeration misaligned)" % (opname, k, f["class"], expected_class))
        return sh.dict()
    what = "%s with %s injected into call #%d = %s on %r" % (opname, ename, k, f["call"], f["phys"].decode(errors="replace")[-70:])
    sh.count("injections_fired")
    if ok:
        if snap != baseline:
            sh.violation("success-despite-fault:%s:%s:%s" % (opname, f["class"], callinfo), "%s: the operation reported success, but the directory differs from a fault-free run: %s"
                         % (what, vp.snap_diff(baseline, snap, 4)), case)
            return sh.dict()
        if ename in ("EIO", "EACCES", "ENOSPC"):
            # "... fails with an I/O error, the call returns an error": a fault that is swallowed is not reported, even when this time nothing
            # depended on the call (errnos outside the property's list may be ones the standard library legitimately works around, e.g.
            # EPERM from copy_file_range: those are only required to leave the right directory behind)
            sh.violation("fault-not-reported:%s:%s:%s" % (opname, f["class"], callinfo), "%s: the operation reported success (and left the directory a fault-free run leaves)" % what, case)
            return sh.dict()
        sh.count("tolerated_with_identical_result")
    else:
        sh.count("reported_as_error")
        if root in RETRY_OUTCOME:
            sh.count("retries_after_a_reported_fault")
            if root in OTHER_SET:
                sh.count("other_program_sets_written_after_a_reported_fault")
                if OTHER_SET[root]:
                    sh.violation("write-after-failure-differs:%s:%s:%s" % (opname, f["class"], callinfo), "%s: the call reported the error; write_exec_d_programs with the one program q1 issued after it (no fault) reported "
                                 "success, but the layer does not have exactly that program: %s" % (what, OTHER_SET[root]), case)
                    return sh.dict()
            if RETRY_OUTCOME[root]:
                sh.count("retries_that_succeeded")
                if snap != baseline:
                    sh.violation("retry-success-differs:%s:%s:%s" % (opname, f["class"], callinfo), "%s: the call reported the error; the same call issued again (no fault) reported success, but the directory differs "
                                 "from what the call leaves when nothing failed: %s" % (what, vp.snap_diff(baseline, snap, 4)), case)
                    return sh.dict()
    sh.nontrivial.add((opname, f["class"], callinfo))
    if k % 9 == 0:
        sh.sample({"operation": opname, "fault": "%s at call #%d: %s(%s)" % (ename, k, f["call"], f["phys"].decode(errors="replace")[-50:]), "observed": "Err" if not ok else "Ok with identical directory"}, cap=1)
    return sh.dict()


# --------------------------------------------------------------------------
# faults inside random struct-API histories: the operation under fault meets whatever state the history built up

def history_fault_case(arg):
    idx, seed, work, shim = arg
    import c01
    import layersim
    sh = vp.Shard()
    r = vp.rng(seed, "c12-hist", idx)
    steps = [s for s in c01.random_history(r, r.randint(3, 9))]
    targets = [i for i, s in enumerate(steps) if s["op"] not in ("restore", "fs_write")]
    if not targets:
        return sh.dict()
    armed_at = r.choice(targets)
    ename = r.choice(["EIO", "EACCES", "ENOSPC"])

    def play(mode, k):
        root = os.path.join(work, "h%d-%s" % (idx, mode))
        w = os.path.join(root, "w")
        layers, src = os.path.join(w, "layers"), os.path.join(w, "src")
        for d in (layers, src, os.path.join(root, "app"), os.path.join(root, "bp")):
            os.makedirs(d)
        for p in ("p1", "p2", "p3"):
            with open(os.path.join(src, p), "wb") as f:
                f.write(b"#!/bin/sh\necho " + p.encode() + b"\n")
            os.chmod(os.path.join(src, p), 0o755)
        with open(os.path.join(src, "p1b"), "wb") as f:      # (the other sources C01's histories refer to)
            f.write(b"#!/bin/sh\necho pB\n")
        os.chmod(os.path.join(src, "p1b"), 0o755)
        os.symlink("p2", os.path.join(src, "p2l"))
        log = os.path.join(root, "trace.log")
        env = {"LD_PRELOAD": shim, "VP_SHIM_PREFIX": w, "VP_SHIM_MODE": mode, "VP_SHIM_LOG": log, "VP_SHIM_CLASS": CLASSES, "VP_SHIM_K": str(k), "VP_SHIM_ERRNO": str(ERRNOS[ename]), "VP_SHIM_ARMED": "0"}
        mon = vp.Mon("layers", env=env)
        rep = None
        retry = []
        alive = set()
        try:
            mon.call({"op": "init", "layers_dir": layers, "app_dir": os.path.join(root, "app"), "bp_dir": os.path.join(root, "bp")})
            for i, step in enumerate(steps[:armed_at + 1]):
                if step["op"] == "restore":
                    layersim.restore(layers, c01.NAMES)
                    mon.call({"op": "drop_refs"})
                    alive.clear()
                    continue
                if step["op"] == "fs_write":
                    if step["name"] in alive:
                        for rel, h in step["files"]:
                            p = os.path.join(layers, step["name"], rel)
                            os.makedirs(os.path.dirname(p), exist_ok=True)
                            with open(p, "wb") as f:
                                f.write(bytes.fromhex(h))
                    continue
                if step["op"] not in ("cached", "uncached") and step["name"] not in alive:
                    if i == armed_at:
                        return None
                    continue
                if i == armed_at:
                    mon.call({"op": "arm", "on": True})
                rep = mon.call(c01.enc_step(step, src))
                if i == armed_at:
                    mon.call({"op": "arm", "on": False})
                    if mode == "inject" and "err" in rep and step["op"] in ("write_env", "write_sboms", "write_exec_d"):
                        again = mon.call(c01.enc_step(step, src))
                        retry.append("err" not in again)
                if step["op"] in ("cached", "uncached"):
                    (alive.discard if "err" in rep else alive.add)(step["name"])
        finally:
            mon.close()
        out = (rep, vp.read_trace(log), vp.snapshot(w), retry)
        vp.rmtree(root)
        return out

    base = play("count", 0)
    if base is None or base[0] is None or base[0].get("no_ref"):
        return sh.dict()
    calls = [t for t in base[1] if t["class"] in CLASSES.split(",")]
    if "err" in base[0] or not calls:
        return sh.dict()          # the fault-free step itself is a scripted callback error: nothing to inject into
    k = r.randint(1, len(calls))
    got = play("inject", k)
    sh.evaluations += 1
    fired = [t for t in got[1] if t["tag"] == "INJECTED"]
    step = steps[armed_at]
    case = {"kind": "history", "idx": idx, "armed_step": armed_at, "k": k, "errno": ename, "steps": c01.jsonable(steps)}
    if not fired:
        sh.inconclusive.append("history %d: injection #%d never fired" % (idx, k))
        return sh.dict()
    what = "step %d (%s on %s) of a %d-step history with %s injected into its call #%d = %s on ...%s" % (armed_at, step["op"], step.get("name"), len(steps), ename, k, fired[0]["call"], fired[0]["phys"].decode(errors="replace")[-50:])
    sh.count("injections_fired")
    if "err" not in got[0]:
        if got[2] != base[2]:
            sh.violation("success-despite-fault:history:%s:%s" % (step["op"], fired[0]["class"]), "%s: the call reported success, but the directory differs from the fault-free run: %s"
                         % (what, vp.snap_diff(base[2], got[2], 4)), case)
            return sh.dict()
        sh.count("tolerated_with_identical_result")
    else:
        sh.count("reported_as_error")
        if got[3]:
            sh.count("retries_after_a_reported_fault")
            if got[3][0]:
                sh.count("retries_that_succeeded")
                if got[2] != base[2]:
                    sh.violation("retry-success-differs:history:%s:%s" % (step["op"], fired[0]["class"]), "%s: the call reported the error; the same call issued again (no fault) reported success, but the "
                                 "directory differs from the fault-free run: %s" % (what, vp.snap_diff(base[2], got[2], 4)), case)
                    return sh.dict()
    sh.nontrivial.add(("history", step["op"], step.get("mtype"), fired[0]["class"], role(fired[0]["phys"], work)))
    return sh.dict()


def run(tier, seed, work):
    res = vp.Result("C12", tier, seed, "fault_enumeration")
    res.after_error_routes = ['retries_after_a_reported_fault', 'other_program_sets_written_after_a_reported_fault']      # routes added in round 12 (a handled failure followed by ordinary work): must have observed something
    shim = vp.build_shim()
    ops = QUICK_OPS if tier == "quick" else list(OPS)
    # the same operations in two more environments: under umask 077, and with the TOML destinations being links
    ops = (ops + [o + "@umask077" for o in ops] + [o + "@linked" for o in ops if OPS[o][1] or OPS[o][0] == "bp"]
           # ... standing inside the layer; the layer directory itself read-only (operations on an existing layer directory, layer API only)
           + [o + "@cwdin" for o in ops if OPS[o][0] == "mon" and OPS[o][1] not in (None, "toml-only")] + [o + "@rolayer" for o in ops if OPS[o][0] == "mon" and OPS[o][1] not in (None, "toml-only")])
    errnos = ["EIO", "EACCES"] if tier == "quick" else ["EIO", "EACCES", "ENOSPC", "EPERM", "EROFS"]
    tasks = []
    for i, opname in enumerate(ops):
        root = os.path.join(work, "count-%d" % i)
        ok, detail, trace, base = execute(root, opname, shim, "count")
        vp.rmtree(root)
        if not ok:
            raise vp.Broken("fault-free run of %s failed: %s" % (opname, detail))
        calls = [t for t in trace if t["class"] in CLASSES.split(",")]
        res.extra["calls_" + opname] = len(calls)
        if not calls:
            res.inconclusive.append("%s: the count pass saw no call beneath the prefix" % opname)
        for k, t in enumerate(calls, 1):
            for j, e in enumerate(errnos):
                if tier == "quick" and len(errnos) == 1 and False:
                    continue
                tasks.append((opname, k, e, os.path.join(work, "t-%d-%d-%s" % (i, k, e)), shim, base, role(t["phys"], os.path.join(root, "w")), t["class"]))
    for d in vp.pimap(task, tasks, chunksize=4):
        res.merge(d)
    nh = 400 if tier == "quick" else 30000
    for d in vp.pimap(history_fault_case, [(i, seed, work, shim) for i in range(nh)], chunksize=8):
        res.merge(d)
    res.extra["history_fault_cases"] = nh
    res.exhaustive = True
    res.extra["exhaustive_bound"] = "every position k in the sequence of watched libc calls of each of %d operations x errno in %r" % (len(ops), errnos)
    res.extra["operations"] = ops
    res.rule = ("evaluations = runs with exactly one injected failure. distinct_nontrivial = distinct (operation, class of the failed call, role of its target path "
                "[toml, sbom, env, exec.d, exec.d-source, layer-dir, layer-file, plan, platform]) fault points that actually fired")
    res.assumptions = ["injected classes: %s (stat-family calls and ENOENT are never injected)" % CLASSES, "a fired fault followed by success is accepted only if the whole work tree is byte-identical to the fault-free run",
                       "faults are injected at the libc boundary by LD_PRELOAD; the failed call is not performed"]
    res.required = list(getattr(res, "required", [])) + res.after_error_routes
    return res


def replay(case, work):
    res = vp.Result("C12", "quick", 0, "fault_enumeration")
    shim = vp.build_shim()
    if case.get("kind") == "history":
        res.merge(history_fault_case((case["idx"], int(os.environ.get("VERIF_SEED", "0")), work, shim)))
        res.nontrivial.update({"replay-a", "replay-b"})
        res.rule = "replay of one history fault (regenerated from VERIF_SEED and its index)"
        return res
    ok, detail, trace, base = execute(os.path.join(work, "count"), case["op"], shim, "count")
    calls = [t for t in trace if t["class"] in CLASSES.split(",")]
    d = task((case["op"], case["k"], case["errno"], os.path.join(work, "t"), shim, base, "replay", calls[case["k"] - 1]["class"] if 0 < case["k"] <= len(calls) else "?"))
    res.merge(d)
    res.nontrivial.update({"replay-a", "replay-b"})
    res.rule = "replay of one injected fault"
    res.sample(case)
    return res
