"""Plumbing for C16/C17: runs a scenario with the real libcnb-test TestRunner (harness vptest)
against argv-logging stand-ins for docker and pack, and reference parsers for their CLIs' own
option grammars (pflag: docker run/exec are non-interspersed, everything else interspersed)."""
import json
import os
import subprocess
import time

import vp


# the daemon the test process addresses (a developer with a non-default docker context): every docker / pack command the runner issues
# has to address the same one - a container started on one daemon is not removed by "docker rm" on another
ENDPOINT_ENV = {"DOCKER_HOST": "unix:///nonexistent.sock", "DOCKER_CONTEXT": "staging"}
_CARGO = []


def real_cargo():
    """the toolchain's own cargo binary (not the rustup proxy, which needs HOME and PATH)"""
    if not _CARGO:
        try:
            root = subprocess.run(["rustc", "--print", "sysroot"], stdout=subprocess.PIPE, text=True, cwd=vp.REPO).stdout.strip()
        except OSError:
            root = ""
        p = os.path.join(root, "bin", "cargo")
        _CARGO.append(p if root and os.path.exists(p) else "cargo")
    return _CARGO[0]


class Env:
    def __init__(self, root, as_nobody=False):
        self.root = root
        self.as_nobody = as_nobody      # run the test process (and with it the stand-ins) as uid 65534: real permission semantics
        self.bin = os.path.join(root, "bin")
        self.tmp = os.path.join(root, "tmp")
        self.crate = os.path.join(root, "crate")
        self.log = os.path.join(root, "cmd.log")
        self.plan = os.path.join(root, "plan.json")
        self.scenario = os.path.join(root, "scenario.json")

    def create(self, fixture_files):
        for d in (self.bin, self.tmp, self.crate):
            os.makedirs(d, exist_ok=True)
        # (musl-gcc: libcnb-test only looks it up before packaging a buildpack of the crate under test for the default target; it is never run here)
        for n in ("docker", "pack", "musl-gcc"):
            p = os.path.join(self.bin, n)
            if not os.path.lexists(p):
                os.symlink(os.path.join(vp.BIN, "vpstandin"), p)
        for rel, content in fixture_files.items():
            p = os.path.join(self.crate, rel)
            os.makedirs(os.path.dirname(p), exist_ok=True)
            with open(p, "w") as f:
                f.write(content)
        if self.as_nobody:
            vp.chown_tree(self.root)

    def run(self, scenario, plan=None, timeout=120, tmp_above_fixture=False):
        """tmp_above_fixture: the system's temporary directory is an ancestor of the crate and its fixtures (a checkout below /tmp, a CI
        workspace in $RUNNER_TEMP): temporary copies are made there, leftovers are the entries the run adds to it"""
        for n in ("docker", "pack"):        # a scripted fault may have removed a stand-in
            p = os.path.join(self.bin, n)
            if not os.path.lexists(p):
                os.symlink(os.path.join(vp.BIN, "vpstandin"), p)
        for p in (self.log,):
            if os.path.exists(p):
                os.unlink(p)
        vp.rmtree(self.tmp)
        os.makedirs(self.tmp)
        # somebody else's temporary directory (tempfile's naming scheme), three days old: not this run's to remove
        foreign = os.path.join(self.tmp, ".tmpQ7xK2f")
        os.makedirs(os.path.join(foreign, "data"))
        with open(os.path.join(foreign, "data", "precious.db"), "w") as f:
            f.write("another process's state")
        old = time.time() - 3 * 86400
        for p_ in (os.path.join(foreign, "data", "precious.db"), os.path.join(foreign, "data"), foreign):
            os.utime(p_, (old, old))
        if self.as_nobody:
            os.chown(self.tmp, 65534, 65534)
            for p in (self.bin, self.root):
                os.chown(p, 65534, 65534)
        with open(self.scenario, "w") as f:
            json.dump(scenario, f)
        with open(self.plan, "w") as f:
            json.dump(plan or {}, f)
        # PATH holds the stand-ins only: a real docker CLI may be installed on the machine, and a stand-in that a scripted fault removed
        # must really be "not found"
        env = {"PATH": self.bin, "HTTP_PROXY": "http://proxy.host:3128", "HTTPS_PROXY": "http://proxy.host:3128", "NO_PROXY": "localhost", "http_proxy": "http://proxy.host:3128", "https_proxy": "http://lower.proxy:1", "no_proxy": "x", "DOCKER_HOST": ENDPOINT_ENV["DOCKER_HOST"], "DOCKER_CONTEXT": ENDPOINT_ENV["DOCKER_CONTEXT"], "TMPDIR": self.tmp, "CARGO_MANIFEST_DIR": self.crate, "VP_CMDLOG": self.log, "VP_CMDPLAN": self.plan, "VP_STANDIN_BIN": self.bin, "VP_STANDIN_TARGET": os.path.join(vp.BIN, "vpstandin"), "RUST_BACKTRACE": "0",
               # (cargo test sets CARGO; libcnb-test asks it for the workspace root when it packages a buildpack of the crate under test)
               "CARGO": real_cargo()}
        for k, v in vp.hostile_env(cargo=True).items():
            env.setdefault(k, v)
        root_before = set(os.listdir(self.root)) | {os.path.basename(self.log)}
        if tmp_above_fixture:
            env["TMPDIR"] = self.root
        try:
            import shutil
            nobody = [shutil.which(vp.NOBODY[0]) or vp.NOBODY[0]] + vp.NOBODY[1:]
            # (a session of its own: on a timeout the stand-ins the test process started are killed with it, none is left behind blocked)
            p = subprocess.Popen((nobody if self.as_nobody else []) + [os.path.join(vp.BIN, "vptest"), self.scenario], env=env, stdout=subprocess.PIPE, stderr=subprocess.PIPE, cwd=self.root, start_new_session=True)
            out_, err_ = p.communicate(timeout=timeout)
            rc, err = p.returncode, err_.decode(errors="replace")
        except subprocess.TimeoutExpired:
            import signal
            try:
                os.killpg(p.pid, signal.SIGKILL)
            except OSError:
                pass
            p.communicate()
            rc, err = None, "timeout"
        log = []
        if os.path.exists(self.log):
            for line in open(self.log):
                log.append(json.loads(line))
        leftovers = sorted(os.listdir(self.tmp)) if not tmp_above_fixture else sorted(set(os.listdir(self.root)) - root_before)
        if not tmp_above_fixture:
            if os.path.exists(os.path.join(foreign, "data", "precious.db")):
                leftovers.remove(".tmpQ7xK2f")
            else:
                leftovers.append("REMOVED although it is not this run's: .tmpQ7xK2f/data/precious.db (another process's temporary directory, three days old)")
        return rc, err, log, leftovers


# --------------------------------------------------------------------------
# reference option parsers (pflag semantics)

class ParseError(Exception):
    pass


def pflag_parse(argv, strings, arrays, bools, interspersed):
    """-> (flags: {name: value | [values] | True}, positionals, rest_after_terminator)
    strings: flags taking one value (last wins but we record all occurrences), arrays: repeatable value flags."""
    flags = {}
    pos = []
    i = 0
    while i < len(argv):
        a = argv[i]
        if a == "--":
            pos += argv[i + 1:]
            break
        if a.startswith("--") and len(a) > 2:
            name, eq, val = a[2:].partition("=")
            if name in bools:
                flags[name] = True if not eq else val
                i += 1
                continue
            if name not in strings and name not in arrays:
                raise ParseError("unknown flag --%s" % name)
            if not eq:
                if i + 1 >= len(argv):
                    raise ParseError("flag --%s needs a value" % name)
                val = argv[i + 1]
                i += 1
            flags.setdefault(name, []).append(val)
            i += 1
            continue
        if a.startswith("-") and len(a) > 1:
            raise ParseError("unknown shorthand flag %r" % a)
        if not interspersed:
            pos += argv[i:]
            break
        pos.append(a)
        i += 1
    return flags, pos


def parse_docker_run(argv):
    """argv after 'run'. Non-interspersed: options end at IMAGE."""
    flags, pos = pflag_parse(argv, {"name", "platform", "entrypoint"}, {"env", "publish", "mount"}, {"detach", "rm"}, interspersed=False)
    if not pos:
        raise ParseError("docker run without IMAGE")
    for k in ("name", "platform", "entrypoint"):
        if k in flags and len(flags[k]) != 1:
            raise ParseError("--%s given %d times" % (k, len(flags[k])))
    env = {}
    for kv in flags.get("env", []):
        k, eq, v = kv.partition("=")
        if not eq:
            raise ParseError("--env %r has no '='" % kv)
        if k in env:
            raise ParseError("--env key %r given twice" % k)
        env[k] = v
    mounts = []
    for m in flags.get("mount", []):
        fields = {}
        for part in m.split(","):          # docker parses this with encoding/csv; commas and quotes are excluded by the generator
            k, eq, v = part.partition("=")
            fields[k] = v
        mounts.append(fields)
    return {"name": flags.get("name", [None])[0], "detach": bool(flags.get("detach")), "rm": bool(flags.get("rm")), "platform": flags.get("platform", [None])[0],
            "entrypoint": flags.get("entrypoint", [None])[0], "env": env, "publish": flags.get("publish", []), "mounts": mounts, "image": pos[0], "command": pos[1:]}


def parse_pack_build(argv):
    """argv after 'build'. Interspersed; --buildpack is a string slice (CSV), --env a string array."""
    flags, pos = pflag_parse(argv, {"builder", "path", "pull-policy"}, {"cache", "buildpack", "env"}, {"trust-builder", "trust-extra-buildpacks"}, interspersed=True)
    if len(pos) != 1:
        raise ParseError("pack build expects exactly one image name, got %r" % (pos,))
    for k in ("builder", "path", "pull-policy"):
        if k in flags and len(flags[k]) != 1:
            raise ParseError("--%s given %d times" % (k, len(flags[k])))
    bps = []
    for b in flags.get("buildpack", []):
        bps += b.split(",")
    env = []
    for kv in flags.get("env", []):
        k, eq, v = kv.partition("=")
        env.append((k, v if eq else None))
    caches = {}
    for c in flags.get("cache", []):
        f = dict(p.partition("=")[::2] for p in c.split(";"))
        caches[f.get("type")] = f
    return {"image": pos[0], "builder": flags.get("builder", [None])[0], "path": flags.get("path", [None])[0], "buildpacks": bps, "env": env, "caches": caches,
            "trust_builder": bool(flags.get("trust-builder")), "pull_policy": flags.get("pull-policy", [None])[0]}


def parse_simple(argv, bools=("force", "follow"), strings=("output-dir",)):
    flags, pos = pflag_parse(argv, set(strings), set(), set(bools), interspersed=True)
    return flags, pos


def decode(entry):
    """log entry -> normalised dict with 'kind' and decoded fields; raises ParseError"""
    a = entry["argv"]
    k = entry["kind"]
    if k == "docker run":
        d = parse_docker_run(a[1:])
    elif k == "pack build":
        d = parse_pack_build(a[1:])
    elif k == "docker exec":
        flags, pos = pflag_parse(a[1:], set(), set(), set(), interspersed=False)
        d = {"name": pos[0] if pos else None, "command": pos[1:]}
    elif k in ("docker rm", "docker rmi", "docker logs", "docker port"):
        flags, pos = parse_simple(a[1:])
        d = {"force": bool(flags.get("force")), "follow": bool(flags.get("follow")), "names": pos}
    elif k == "docker volume remove":
        flags, pos = parse_simple(a[2:])
        d = {"force": bool(flags.get("force")), "names": pos}
    elif k == "pack sbom download":
        flags, pos = parse_simple(a[2:])
        d = {"names": pos, "output_dir": flags.get("output-dir", [None])[0]}
    else:
        raise ParseError("unexpected command %r" % (a,))
    d["kind"] = k
    d["seq"] = entry["seq"]
    d["failed"] = entry.get("failed", False)
    return d
