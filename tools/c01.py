"""C01 — struct-API layer requests (cached_layer / uncached_layer / LayerRef writes) over build
histories with simulated cache restores, judged step by step by a small state-machine model."""
import itertools
import os

import envmodel
import layersim
import tomlw
import vp
from vp import hx
from c04 import enc_entries

# layer names: plain, dotted (stem = another layer), and legal names with characters that are special somewhere else (quotes,
# backslash, tab, leading / trailing space - "deps " and "deps" are two layers -, non-ASCII). A history uses three of them.
NAMES = ["a", "a.b", "a.sbom.x", "c-1", "deps", "deps ", " lead", "it's", 'q"x', "tab\tname", "é", "back\\slash", "a b"]      # "a.sbom.x" is a layer of its own, not an SBOM file of "a"
SYMS = ["cK", "cD", "cE", "tK", "tR", "tE", "u", "wmG", "wmT", "we", "ws", "wx", "wf", "R", "bK"]
WRITES = {"wmG", "wmT", "we", "ws", "wx", "wf"}
SBOM_FORMATS = ["cdx", "spdx", "syft"]
ENV_POOL = [("all", "append", b"PATH", b"/x"), ("all", "delim", b"PATH", b":"), ("build", "override", b"CC", b"gcc"), ("launch", "default", b"PORT", b"8080"),
            ("process:web", "override", b"ROLE", b"web"), ("process:worker", "prepend", b"ROLE", b"w"), ("launch", "prepend", b"LD_LIBRARY_PATH", b"/l"),
            ("all", "override", b"EMPTY", b""), ("build", "override", b"RAW", b"\xff\xfe\x00\x80"), ("process:web", "append", b"RAWP", b"caf\xe9"),
            ("process:web.1", "override", b"INSTANCE", b"1"), ("process:web.2", "override", b"INSTANCE", b"2"),
            # the same (behaviour, name, value) in scope "all" and in a narrower scope: each is a file of its own
            ("all", "override", b"DUP", b"same"), ("build", "override", b"DUP", b"same"), ("process:web", "override", b"DUP", b"same"),
            ("all", "default", b"DD", b"d"), ("launch", "default", b"DD", b"d"), ("all", "prepend", b"PP", b"x"), ("build", "prepend", b"PP", b"x"),
            ("all", "delim", b"PP", b":"), ("build", "delim", b"PP", b":")]
MD_GENERIC = [{"v": "1"}, {}, {"name": "x", "n": 3, "flag": True, "nested": {"k": ["a", "b"]}}, {"version": 7}, {"Version": "caps"},
              # parses as the typed metadata (extra keys are allowed there) - a kept layer must still keep every value
              {"version": "1.0", "extra": "keep-me", "nested": {"k": [1, 2]}, "build_id": 42}]
MD_KEYS8 = {"k%d" % i: "v%d" % i for i in range(9)}


def concrete(sym, r, name=None):
    """abstract symbol -> concrete step"""
    name = name or ("a.b" if sym == "bK" else "a")
    fl = {"build": r.random() < 0.5, "launch": r.random() < 0.5}
    cause = "c%d" % r.randrange(1000)
    if sym in ("cK", "bK"):
        return dict(op="cached", name=name, mtype="generic", restored={"action": "keep", "cause": cause}, invalid={"action": "delete", "cause": "unused"}, **fl)
    if sym == "cD":
        return dict(op="cached", name=name, mtype="generic", restored={"action": "delete", "cause": cause}, invalid={"action": "delete", "cause": "unused"}, **fl)
    if sym == "cE":
        return dict(op="cached", name=name, mtype="generic", restored={"action": "boom-restored", "cause": cause}, invalid={"action": "delete", "cause": "unused"}, **fl)
    if sym == "tK":
        return dict(op="cached", name=name, mtype="typed", restored={"action": r.choice(["keep", "keep", "delete"]), "cause": cause},
                    invalid={"action": "delete", "cause": "i" + cause}, **fl)
    if sym == "tR":
        return dict(op="cached", name=name, mtype="typed", restored={"action": r.choice(["keep", "keep", "delete", "boom-after-replace"]), "cause": cause},
                    invalid={"action": "replace", "cause": "i" + cause, "version": "migrated-%d" % r.randrange(100)}, **fl)
    if sym == "tE":
        return dict(op="cached", name=name, mtype="typed", restored={"action": "keep", "cause": cause}, invalid={"action": "boom-invalid", "cause": "x"}, **fl)
    if sym == "u":
        return dict(op="uncached", name=name, **fl)
    if sym == "wmG":
        md = dict(r.choice(MD_GENERIC))
        if r.random() < 0.3:
            md.update(MD_KEYS8)
        return dict(op="write_metadata", name=name, metadata=md)
    if sym == "wmT":
        return dict(op="write_metadata_typed", name=name, version="%d.%d" % (r.randrange(5), r.randrange(5)))
    if sym == "we":
        k = r.randint(0, len(ENV_POOL))
        return dict(op="write_env", name=name, entries=r.sample(ENV_POOL, k))
    if sym == "ws":
        fmts = r.sample(SBOM_FORMATS, r.randint(0, 3))
        return dict(op="write_sboms", name=name, sboms=[[f, hx(b'{"sbom":"%s-%d"}' % (f.encode(), r.randrange(1000))) if r.random() < 0.85 else ""] for f in fmts])      # (an SBOM document of zero bytes is a file of zero bytes)
    if sym == "wx":
        progs = r.sample(["p1", "p2", "p3"], r.randint(0, 3))
        # the program's name is one thing, the file it is copied from another ("p1b": same size and mode as p1, other content)
        return dict(op="write_exec_d", name=name, programs=[[p, r.choice([p, p, "p1b" if p == "p1" else "p2l" if p == "p2" else p])] for p in progs] + ([["gone", "no-such-source"]] if r.random() < 0.08 else []))
    if sym == "wf":
        files = [[r.choice(["data.txt", "bin/tool", "lib/libx.so", "deep/er/file", "env.build.txt"]), hx(b"content-%d" % r.randrange(1000))] for _ in range(r.randint(1, 3))]
        # symbolic links inside the layer (to a file, to a directory, dangling, relative upwards): legal layer content
        links = [[r.choice(["current", "bin/tool-link", "deep/er/link", "dangling"]), r.choice(["data.txt", ".", "no/such/target", "../bin", "deep", "../a/data.txt", "../a.b", "../a.b/bin/tool"])] for _ in range(r.choice([0, 0, 1, 2]))]
        return dict(op="fs_write", name=name, files=files, links=links)
    if sym == "R":
        return dict(op="restore")
    raise AssertionError(sym)


def enum_histories(maxlen):
    for n in range(1, maxlen + 1):
        for h in itertools.product(SYMS, repeat=n):
            # prune: a write needs a LayerRef obtained for layer "a" earlier in the same build
            ok, have = True, False
            for s in h:
                if s in WRITES:
                    if not have:
                        ok = False
                        break
                elif s == "R":
                    have = False
                elif s in ("cK", "cD", "tK", "tR", "u"):
                    have = True      # may not produce a ref if a callback fails; checked dynamically too
                elif s in ("cE", "tE"):
                    pass
            if ok:
                yield h


# --------------------------------------------------------------------------
# the model

def md_tagged(md):
    return None if md is None else tomlw.tagged(md)


def typed_parses(md):
    """the harness' typed metadata: a string `version`, optionally a map of strings `labels`, anything else ignored"""
    if not (isinstance(md, dict) and isinstance(md.get("version"), str)):
        return False
    lb = md.get("labels", {})
    return isinstance(lb, dict) and all(isinstance(x, str) for x in lb.values())


def predict_cached(v, step):
    """-> (outcome, expected callbacks, metadata after) ; outcome: ('restored', cause) | ('empty', x) | ('error',)"""
    if not v["dir_present"]:
        return ("empty", "newly"), [], None
    md = None
    if v["toml"] is not None:
        _, md = layersim.parse_toml(v["toml"])
    cbs = []

    def restored_cb(mdv):
        if step["mtype"] == "typed":
            cbs.append({"cb": "restored", "metadata": {"t": [["version", {"s": mdv["version"]}]]}})
        else:
            cbs.append({"cb": "restored", "metadata": md_tagged(mdv)})
        act = step["restored"]["action"]
        if act == "keep":
            return ("restored", step["restored"]["cause"])
        if act == "delete":
            return ("empty", {"restored": step["restored"]["cause"]})
        return ("error",)

    if step["mtype"] == "generic" or typed_parses(md):
        return restored_cb(md), cbs, md
    cbs.append({"cb": "invalid", "metadata": md_tagged(md)})
    act = step["invalid"]["action"]
    if act == "delete":
        return ("empty", {"invalid": step["invalid"]["cause"]}), cbs, None
    if act == "replace":
        newmd = {"version": step["invalid"]["version"]}
        return restored_cb(newmd), cbs, newmd
    return ("error",), cbs, md


def state_of(rep):
    s = rep["state"]
    if "restored" in s:
        return ("restored", s["restored"])
    return ("empty", s["empty"])


def abstract_state(v):
    if not v["dir_present"] and v["toml"] is None:
        return ("absent",)
    if not v["dir_present"]:
        return ("toml-only",)
    types, md = (None, None)
    if v["toml"] is not None:
        types, md = layersim.parse_toml(v["toml"])
    mk = "none" if md is None else ("typed" if typed_parses(md) else "generic")
    files = [k for k in v["dir"] if not (k.split(b"/")[0] in (b"env", b"env.build", b"env.launch", b"exec.d"))]
    return ("dir", "types" if types is not None else "restored", mk, any(k.split(b"/")[0].startswith(b"env") and k.split(b"/")[0] in (b"env", b"env.build", b"env.launch") for k in v["dir"]),
            bool(v["sboms"]), any(k.startswith(b"exec.d") for k in v["dir"]), bool(files))


def check_others(pre, post, names, target, sh, case, what):
    for nm in names:
        t = layersim.view(post, nm)["toml"]
        if isinstance(t, bytes):
            try:
                layersim.parse_toml(t)
            except Exception as e:  # noqa: BLE001
                sh.violation("toml-invalid", "%s left an unparsable %s.toml: %s; content %r" % (what, nm, e, t[:200]), case)
                return False
    for nm in names:
        if nm == target:
            continue
        a, b = layersim.view(pre, nm), layersim.view(post, nm)
        if a != b:
            own = layersim.owned_keys([nm])
            diff = vp.snap_diff({k: v for k, v in pre.items() if k.split(b"/")[0] in own}, {k: v for k, v in post.items() if k.split(b"/")[0] in own})
            sh.violation("other-layer-touched", "%s on layer %r changed layer %r: %s" % (what, target, nm, diff), case)
            return False
    stray = layersim.stray_entries(post, names)
    if stray:
        sh.violation("stray-entry", "%s left entries that belong to no layer: %r" % (what, stray[:5]), case)
        return False
    return True


def judge_request(step, rep, pre, post, names, sh, case):
    nm = step["name"]
    v0, v1 = layersim.view(pre, nm), layersim.view(post, nm)
    what = "%s(%s)" % (step["op"], nm)
    cache = step["op"] == "cached"
    if cache:
        outcome, want_cbs, md_after = predict_cached(v0, step)
    else:
        outcome = ("empty", "newly") if not v0["dir_present"] else ("empty", None)
        want_cbs, md_after = [], None
    def norm_cb(c):      # key order inside metadata tables is irrelevant
        return {"cb": c["cb"], "metadata": None if c.get("metadata") is None else tomlw.untagged(c["metadata"])}
    got_cbs = [norm_cb(c) for c in rep.get("callbacks", [])]
    want_cbs = [norm_cb(c) for c in want_cbs]
    if not check_others(pre, post, names, nm, sh, case, what):
        return None
    if "err" in rep:
        if outcome[0] != "error":
            sh.violation("unexpected-error", "%s failed with %s although the callbacks decided %r; pre-state %r" % (what, rep["detail"][:300], outcome, abstract_state(v0)), case)
            return None
        if rep["err"] != "BuildpackError":
            sh.violation("error-variant", "%s: a callback error must surface as the buildpack's error, got %s" % (what, rep["detail"][:200]), case)
            return None
        if got_cbs != want_cbs:
            sh.violation("callbacks", "%s: callbacks %r, expected %r" % (what, got_cbs, want_cbs), case)
        # the request that a callback refused has declared nothing: the layer's [types], its directory and its SBOM files are what they were
        def types_of(v):
            try:
                return layersim.parse_toml(v["toml"])[0] if isinstance(v["toml"], bytes) else v["toml"]
            except Exception:
                return v["toml"]
        sh.count("refused_requests_compared")
        if (types_of(v0), v0["dir"], v0["sboms"]) != (types_of(v1), v1["dir"], v1["sboms"]):
            sh.violation("refused-request-changed-the-layer", "%s was refused by a callback (%s), but the layer changed: [types] %r -> %r%s%s" % (what, rep["detail"][:120], types_of(v0), types_of(v1),
                         "" if v0["dir"] == v1["dir"] else "; directory contents differ", "" if v0["sboms"] == v1["sboms"] else "; SBOM files differ"), case)
        return ("error",)
    if outcome[0] == "error":
        sh.violation("error-swallowed", "%s succeeded (%r) although a callback returned an error" % (what, rep["state"]), case)
        return None
    if got_cbs != want_cbs:
        sh.violation("callbacks", "%s with pre-state %r: callbacks invoked %r, expected %r" % (what, abstract_state(v0), got_cbs, want_cbs), case)
        return None
    for c in rep.get("callbacks", []):
        if "path" in c and c["path"].encode() != os.path.join(case["_layers"], nm).encode():
            sh.violation("callback-path", "%s: callback got path %r" % (what, c["path"]), case)
    got = state_of(rep)
    if cache:
        if got != outcome:
            sh.violation("state:%s->%s" % (outcome[0], got[0]), "%s with pre-state %r reported %r, the callbacks decided %r" % (what, abstract_state(v0), got, outcome), case)
            return None
    else:
        # uncached_layer validates with its own fixed callbacks: an existing layer is always "restored, then deleted"
        want_u = ("empty", "newly") if outcome[1] == "newly" else ("empty", {"restored": None})
        if got != want_u:
            sh.violation("state:uncached", "%s with pre-state %r reported %r, expected %r" % (what, abstract_state(v0), got, want_u), case)
            return None
    # on-disk post-conditions
    if not v1["dir_present"]:
        sh.violation("dir-missing", "%s returned %r but the layer directory does not exist" % (what, got), case)
        return None
    if v1["toml"] is None:
        sh.violation("toml-missing", "%s returned %r but <layer>.toml does not exist" % (what, got), case)
        return None
    try:
        types, md = layersim.parse_toml(v1["toml"])
    except Exception as e:  # noqa: BLE001
        sh.violation("toml-invalid", "%s left an unparsable <layer>.toml: %s" % (what, e), case)
        return None
    want_types = {"build": step["build"], "launch": step["launch"], "cache": cache}
    if types is None or {k: types.get(k, False) for k in want_types} != want_types or set(types) - set(want_types):
        sh.violation("types", "%s (reported %s): <layer>.toml declares types %r, requested %r" % (what, got[0], types, want_types), case)
        return None
    if got[0] == "restored":
        if v1["dir"] != v0["dir"]:
            sh.violation("restored:files", "%s reported Restored but the layer directory changed: %s" % (what, vp.snap_diff(v0["dir"], v1["dir"])), case)
            return None
        if v1["sboms"] != v0["sboms"]:
            sh.violation("restored:sboms", "%s reported Restored but SBOM files changed: %r -> %r" % (what, sorted(v0["sboms"]), sorted(v1["sboms"])), case)
            return None
        if not tomlw.same(md, md_after) if (md is not None and md_after is not None) else (md or None) != (md_after or None):
            sh.violation("restored:metadata", "%s reported Restored but metadata is %r, expected %r" % (what, md, md_after), case)
            return None
    else:
        if v1["dir"]:
            sh.violation("empty:files", "%s reported Empty (%r) but the layer directory holds %r" % (what, got[1], sorted(v1["dir"])[:6]), case)
            return None
        if md:
            sh.violation("empty:metadata", "%s reported Empty (%r) but metadata %r is left over" % (what, got[1], md), case)
            return None
        if v1["sboms"]:
            sh.violation("empty:sboms", "%s reported Empty (%r) but SBOM files %r are left over from an earlier build" % (what, got[1], sorted(v1["sboms"])), case)
            return None
    return got


def judge_write(step, rep, pre, post, names, src_dir, sh, case):
    nm = step["name"]
    v0, v1 = layersim.view(pre, nm), layersim.view(post, nm)
    what = "LayerRef(%s).%s" % (nm, step["op"])
    if step.get("swap"):              # used by C20 only: exec.d re-arranged from its own files / a replace that must fail; whatever it
        return True                   # leaves behind is compared across processes, not judged here
    if not check_others(pre, post, names, nm, sh, case, what):
        return False
    if step["op"] == "write_exec_d" and any(not os.path.exists(os.path.join(src_dir, s_)) for _, s_ in step["programs"] if not s_.startswith("@layer/")):
        # one of the sources does not exist: the call fails. What it leaves in exec.d is not specified - nothing else in the layer is touched,
        # and nothing new appears (the next successful call installs exactly its own programs: judged there)
        if "err" not in rep:
            sh.violation("write:execd:missing-source-accepted", "%s succeeded although a source file does not exist" % what, case)
            return False
        rest0 = {k: e for k, e in v0["dir"].items() if not (k == b"exec.d" or k.startswith(b"exec.d/"))}
        rest1 = {k: e for k, e in v1["dir"].items() if not (k == b"exec.d" or k.startswith(b"exec.d/"))}
        if rest0 != rest1 or v0["toml"] != v1["toml"] or v0["sboms"] != v1["sboms"]:
            sh.violation("write:execd:failed-call-collateral", "%s failed (a source file is missing) and left something behind outside exec.d: %s" % (what, vp.snap_diff(rest0, rest1)), case)
            return False
        return True
    if "err" in rep:
        sh.violation("write:error", "%s failed: %s" % (what, rep["detail"][:300]), case)
        return False
    t0 = layersim.parse_toml(v0["toml"]) if v0["toml"] is not None else (None, None)
    t1 = layersim.parse_toml(v1["toml"]) if v1["toml"] is not None else (None, None)
    op = step["op"]
    if op == "env_to_metadata":       # used by C20 only: the derived metadata is compared across processes, not judged here
        return True
    if op in ("write_metadata", "write_metadata_typed"):
        want = step["metadata"] if op == "write_metadata" else {"version": step["version"]}
        if t1[0] != t0[0]:
            sh.violation("write:metadata:types", "%s changed the layer types %r -> %r" % (what, t0[0], t1[0]), case)
            return False
        if not tomlw.same(t1[1] if t1[1] is not None else {}, want):
            sh.violation("write:metadata:value", "%s: metadata on disk %r, written %r" % (what, t1[1], want), case)
            return False
        if v1["dir"] != v0["dir"] or v1["sboms"] != v0["sboms"]:
            sh.violation("write:metadata:collateral", "%s changed files or SBOMs of the layer" % what, case)
            return False
        return True
    if v1["toml"] != v0["toml"]:
        sh.violation("write:toml-touched", "%s changed <layer>.toml" % what, case)
        return False
    if op == "write_sboms":
        want = {f: bytes.fromhex(h) for f, h in step["sboms"]}
        if v1["sboms"] != want:
            sh.violation("write:sboms", "%s: SBOM files on disk %r, written %r" % (what, sorted(v1["sboms"]), sorted(want)), case)
            return False
        if v1["dir"] != v0["dir"]:
            sh.violation("write:sboms:collateral", "%s changed the layer directory" % what, case)
            return False
        return True
    if v1["sboms"] != v0["sboms"]:
        sh.violation("write:sboms-touched", "%s changed SBOM files" % what, case)
        return False
    envroots = (b"env", b"env.build", b"env.launch")
    if op == "write_env":
        entries = [tuple(e) for e in step["entries"]]
        want = envmodel.expected_tree(entries)
        got = {k: e[2] for k, e in v1["dir"].items() if k.split(b"/")[0] in envroots and e[0] == "f"}
        if got != want:
            sh.violation("write:env", "%s: env files on disk %r, expected %r" % (what, sorted(got), sorted(want)), case)
            return False
        rest0 = {k: e for k, e in v0["dir"].items() if k.split(b"/")[0] not in envroots}
        rest1 = {k: e for k, e in v1["dir"].items() if k.split(b"/")[0] not in envroots}
        if rest0 != rest1:
            sh.violation("write:env:collateral", "%s changed non-env files: %s" % (what, vp.snap_diff(rest0, rest1)), case)
            return False
        return True
    if op == "write_exec_d":
        want = {b"exec.d/" + p.encode(): (os.stat(os.path.join(src_dir, s)).st_mode & 0o7777, open(os.path.join(src_dir, s), "rb").read()) for p, s in step["programs"]}
        got = {k: (e[1], e[2]) for k, e in v1["dir"].items() if k.startswith(b"exec.d/") and e[0] == "f"}
        if got != want or ((b"exec.d" in v1["dir"]) != bool(want)):
            sh.violation("write:execd", "%s: exec.d on disk %r, expected %r (name: mode; content compared too)" % (what, sorted((k, oct(v[0])) for k, v in got.items()), sorted((k, oct(v[0])) for k, v in want.items())), case)
            return False
        shared = vp.shared_inodes(os.path.join(os.path.dirname(src_dir), "layers", nm, "exec.d"))
        if shared:
            sh.violation("write:execd:shares-inode", "%s: the installed programs %r are hard links (a later change of the source file would change the layer)" % (what, shared), case)
            return False
        rest0 = {k: e for k, e in v0["dir"].items() if not k.startswith(b"exec.d")}
        rest1 = {k: e for k, e in v1["dir"].items() if not k.startswith(b"exec.d")}
        if rest0 != rest1:
            sh.violation("write:execd:collateral", "%s changed other files: %s" % (what, vp.snap_diff(rest0, rest1)), case)
            return False
        return True
    raise AssertionError(op)


def enc_step(step, src_dir):
    s = dict(step)
    if s["op"] == "write_metadata":
        s["metadata"] = tomlw.tagged(s["metadata"])
    elif s["op"] == "write_env":
        s["entries"] = enc_entries(s["entries"])
    elif s["op"] == "write_exec_d":
        # "@layer/..." names a file inside the layer itself (e.g. an existing exec.d program)
        layers = os.path.join(os.path.dirname(src_dir), "layers")
        s["programs"] = [[p, os.path.join(layers, s["name"], src[len("@layer/"):]) if src.startswith("@layer/") else os.path.join(src_dir, src)] for p, src in s["programs"]]
    return s


def jsonable(steps):
    out = []
    for s in steps:
        s = dict(s)
        if s["op"] == "write_env":
            s["entries"] = [[a, b, c.decode("latin-1"), d.decode("latin-1")] for a, b, c, d in s["entries"]]
        out.append(s)
    return out


def unjson(steps):
    out = []
    for s in steps:
        s = dict(s)
        if s["op"] == "write_env":
            s["entries"] = [(a, b, c.encode("latin-1"), d.encode("latin-1")) for a, b, c, d in s["entries"]]
        out.append(s)
    return out


def run_history(mon, base, hid, steps, names, sh, snapshots_out=None, src_mtime=None):
    root = os.path.join(base, "h%s" % hid)
    layers = os.path.join(root, "layers")
    src = os.path.join(root, "src")
    for d in (layers, os.path.join(root, "app"), os.path.join(root, "bp"), src):
        os.makedirs(d)
    # the layers directory as the platform names it: plainly, through a symbolic link, or with '.' / '..' segments
    style = sum(map(ord, str(hid))) % 3
    if style == 0:
        os.symlink("layers", os.path.join(root, "layers-link"))
        layers = os.path.join(root, "layers-link")
    elif style == 1:
        layers = os.path.join(root, "app", "..", ".", "layers")
    for p in ("p1", "p2", "p3"):
        with open(os.path.join(src, p), "wb") as f:
            f.write(b"#!/bin/sh\necho " + p.encode() + b"\n")
        os.chmod(os.path.join(src, p), {"p1": 0o755, "p2": 0o775, "p3": 0o700}[p])
    with open(os.path.join(src, "p1b"), "wb") as f:
        f.write(b"#!/bin/sh\necho pB\n")
    os.chmod(os.path.join(src, "p1b"), 0o755)
    os.symlink("p2", os.path.join(src, "p2l"))      # a source that is a symbolic link: what is installed is the program, not the link
    if src_mtime is not None:
        # (the age of the source files relative to what is installed from them is no input: C20 runs its processes with old, current and future sources)
        for p in ("p1", "p2", "p3", "p1b"):
            os.utime(os.path.join(src, p), (src_mtime, src_mtime))
    case = {"steps": jsonable(steps), "names": names, "_layers": layers, "umask": getattr(mon, "umask", 0o022)}
    try:
        mon.call({"op": "init", "layers_dir": layers, "app_dir": os.path.join(root, "app"), "bp_dir": os.path.join(root, "bp")})
        alive = set()
        pre = vp.snapshot(layers)
        for i, step in enumerate(steps):
            case["failing_step"] = i
            op = step["op"]
            if op == "restore":
                layersim.restore(layers, names)
                if step.get("strip"):
                    # one restored layer directory comes back without its <layer>.toml: a restored layer without metadata and without flags
                    sp = os.path.join(layers, step["strip"] + ".toml")
                    if os.path.isdir(os.path.join(layers, step["strip"])) and os.path.lexists(sp):
                        os.unlink(sp)
                        sh.count("restores_without_toml")
                mon.call({"op": "drop_refs"})
                alive.clear()
                pre = vp.snapshot(layers)
                sh.count("restores")
                continue
            if op == "fs_write":
                if step["name"] not in alive:
                    return
                for rel, h in step["files"]:
                    p = os.path.join(layers, step["name"], rel)
                    os.makedirs(os.path.dirname(p), exist_ok=True)
                    if os.path.islink(p) or os.path.isdir(p):
                        continue
                    with open(p, "wb") as f:
                        f.write(bytes.fromhex(h))
                for rel, target in step.get("links", []):
                    p = os.path.join(layers, step["name"], rel)
                    if not os.path.isdir(os.path.dirname(p)) and os.path.lexists(os.path.dirname(p)):
                        continue
                    os.makedirs(os.path.dirname(p), exist_ok=True)
                    if not os.path.lexists(p):
                        os.symlink(target, p)
                pre = vp.snapshot(layers)
                continue
            if op in ("cached", "uncached"):
                v0 = layersim.view(pre, step["name"])
                rep = mon.call(enc_step(step, src))
                post = vp.snapshot(layers)
                sh.evaluations += 1
                got = judge_request(step, rep, pre, post, names, sh, case)
                if got is None and snapshots_out is not None:
                    # (C20 compares the snapshots of several processes and does not use this model's verdicts: carry on)
                    got = ("error",) if "err" in rep else ("restored", None)
                if got is None:
                    return
                st = abstract_state(v0)
                if st[0] != "absent":
                    sh.nontrivial.add((st, op, step.get("mtype"), got[0], None if got[0] != "empty" else (got[1] if isinstance(got[1], str) or got[1] is None else sorted(got[1])[0])))
                sh.add("abstract_states", st)
                sh.count("callbacks_observed", len(rep.get("callbacks", [])))
                if got[0] == "error":
                    alive.discard(step["name"])
                else:
                    alive.add(step["name"])
            else:
                if step["name"] not in alive:
                    return
                rep = mon.call(enc_step(step, src))
                if rep.get("no_ref"):
                    return
                post = vp.snapshot(layers)
                sh.evaluations += 1
                if not judge_write(step, rep, pre, post, names, src, sh, case) and snapshots_out is None:
                    return
            pre = post
            if snapshots_out is not None:
                snapshots_out.append(post)
        case.pop("failing_step", None)
        if len(steps) >= 3 and any(s["op"] == "restore" for s in steps):
            sh.sample({"history": [s["op"] + (":" + s.get("name", "")) for s in steps], "observed": "every step matched the model (state, callbacks, snapshot)"}, cap=1)
    finally:
        vp.rmtree(root)


def random_history(r, length):
    steps = _random_history(r, length)
    for st in steps:
        # a third of the LayerRef writes go through the OLDEST handle obtained for the layer in this build instead of the newest
        # (several handles to one layer are legal; each of them writes the layer as it is now)
        if st["op"].startswith("write_") and r.random() < 0.33:
            st["stale"] = True
    return steps


def _random_history(r, length):
    steps = []
    alive = set()
    mine = NAMES[:3] if r.random() < 0.4 else r.sample(NAMES, 3)
    for _ in range(length):
        k = r.random()
        if k < 0.12:
            steps.append(dict(concrete("R", r), strip=r.choice(mine)) if r.random() < 0.3 else concrete("R", r))
            alive.clear()
            continue
        name = r.choice(mine)
        if k < 0.5 or name not in alive:
            sym = r.choice(["cK", "cK", "cD", "cE", "tK", "tK", "tR", "tR", "tE", "u"])
            steps.append(concrete(sym, r, name))
            if sym not in ("cE", "tE"):
                alive.add(name)
        else:
            steps.append(concrete(r.choice(sorted(WRITES)), r, name))
    return steps


def shard_run(arg):
    kind, items, seed, work = arg
    sh = vp.Shard()
    um = vp.UMASKS[(items[0][0] if items else 0) % len(vp.UMASKS)]
    sh.add("umasks", oct(um))
    mon = vp.Mon("layers", umask=um)
    base = os.path.join(work, "w%d" % os.getpid())
    os.makedirs(base, exist_ok=True)
    try:
        for idx, item in items:
            r = vp.rng(seed, "c01", kind, idx)
            if kind == "enum":
                steps = [concrete(s, r) for s in item]
                names = ["a", "a.b"]
            else:
                steps = random_history(r, item)
                names = NAMES
            try:
                run_history(mon, base, "%s%d" % (kind[0], idx), steps, names, sh)
            except vp.ExecutorDied as e:
                # the process running the library call died (abort / stack overflow / panic inside the call): that is behaviour of
                # the code under test, witnessed by the history that led to it
                sh.violation("process-died:%s" % e.req.get("op"), "the process died (status %s) inside %s after the history %r" % (e.status, e.req.get("op"), [s.get("op") for s in steps]),
                             {"steps": jsonable(steps), "names": names, "died_on": e.req})
                mon.close()
                mon = vp.Mon("layers", umask=um)
            sh.count("histories")
    finally:
        mon.close()
        vp.rmtree(base)
    return sh.dict()


# --------------------------------------------------------------------------
# typed metadata of a realistic shape: written through a LayerRef, handed to the next request's callback

RICH_STR = ["", "plain", 'q"uote', "back\\slash", "nl\nline", "tab\there", "café", "日本", "\U0001F600", "x" * 300, " lead", "trail ", "#hash", "a=b", "[x]", "'single'"]
RICH_DT = ["1979-05-27T07:32:00Z", "1979-05-27T00:32:00-07:00", "1979-05-27T07:32:00", "1979-05-27", "07:32:00", "1979-05-27T07:32:00.999999Z"]


def gen_rich(r):
    def inner():
        d = {"key": r.choice(RICH_STR), "depth": [[r.choice([0, -1, 2 ** 63 - 1, -2 ** 63, 7]) for _ in range(r.randint(0, 3))] for _ in range(r.randint(0, 3))]}
        if r.random() < 0.5:
            d["note"] = r.choice(RICH_STR)
        return d
    v = {"schema_version": r.choice([0, 1, 2 ** 32 - 1]), "name": r.choice(RICH_STR), "tags": [r.choice(RICH_STR) for _ in range(r.choice([0, 0, 1, 3]))],
         "nums": [r.choice([0, 1, -1, 2 ** 63 - 1, -2 ** 63]) for _ in range(r.choice([0, 1, 4]))],
         "big": r.choice([0, 1, 2 ** 31, 2 ** 63 - 1, 2 ** 63, 2 ** 64 - 1]), "ratio": r.choice([0.0, 1.5, -2.25, 1e300, 5e-324, 0.1, "nan", "inf", "-inf"]), "flag": r.random() < 0.5,
         "kind": r.choice(["plain", "versioned", "named"]), "kind_major": r.choice([0, 7, 2 ** 32 - 1]), "kind_name": r.choice(RICH_STR), "inner": inner(),
         "map": [[k, r.choice(RICH_STR)] for k in r.sample(["a", "b.c", "with space", "", "é", "Z"], r.randint(0, 4))], "pairs": [inner() for _ in range(r.choice([0, 1, 3]))]}
    if r.random() < 0.6:
        v["opt_str"] = r.choice(RICH_STR)
    if r.random() < 0.6:
        v["when"] = r.choice(RICH_DT)
    return v


def rich_expected(v):
    """the TOML table serde's derive gives for this value (kebab-case names, None omitted, externally tagged enum)"""
    def inner(d):
        o = {"key": d["key"], "depth": d["depth"]}
        if "note" in d:
            o["note"] = d["note"]
        return o
    ratio = {"nan": float("nan"), "inf": float("inf"), "-inf": float("-inf")}.get(v["ratio"], v["ratio"])
    e = {"schema-version": v["schema_version"], "name": v["name"], "tags": v["tags"], "nums": v["nums"], "big": v["big"], "ratio": ratio, "flag": v["flag"],
         "kind": "plain" if v["kind"] == "plain" else {"versioned": {"major": v["kind_major"]}} if v["kind"] == "versioned" else {"named": v["kind_name"]},
         "inner": inner(v["inner"]), "map": dict(v["map"]), "pairs": [inner(p) for p in v["pairs"]]}
    if "opt_str" in v:
        e["opt-str"] = v["opt_str"]
    if "when" in v:
        e["when"] = tomlw.Dt(v["when"])
    return e


def rich_shard(arg):
    idxs, seed, work = arg
    import tomllib
    sh = vp.Shard()
    um = vp.UMASKS[(idxs[0] if idxs else 0) % len(vp.UMASKS)]
    mon = vp.Mon("layers", umask=um)
    root = os.path.join(work, "rich%d" % os.getpid())
    layers = os.path.join(root, "layers")
    for d in (layers, os.path.join(root, "app"), os.path.join(root, "bp")):
        os.makedirs(d)
    try:
        mon.call({"op": "init", "layers_dir": layers, "app_dir": os.path.join(root, "app"), "bp_dir": os.path.join(root, "bp")})
        prev = {}       # layer name -> the value last written successfully
        for idx in idxs:
            r = vp.rng(seed, "c01-rich", idx)
            if idx % 5 == 4:
                # a metadata type with optional fields only (unset: an empty [metadata] table): kept over several requests
                note, count = r.choice([None, None, "", "n"]), r.choice([None, None, 0, 7])
                req = {"op": "allopt", "name": "opt%d" % (idx % 2), "requests": 3}
                if note is not None:
                    req["note"] = note
                if count is not None:
                    req["count"] = count
                rep = mon.call(req)
                sh.evaluations += 1
                case = {"allopt": {"note": note, "count": count}}
                bad = None if "rounds" in rep else "the first request or the write failed: %r" % (rep,)
                for k, rd in enumerate(rep.get("rounds", [])):
                    if rd.get("state") != {"restored": "kept"} or not rd.get("equal"):
                        bad = "request #%d after the write reported %r and its callback saw %s (file before that request: %r)" % (k + 1, rd.get("state") or rd.get("err"), rd.get("seen"), rd.get("toml_before"))
                        break
                if bad:
                    sh.violation("rich:all-optional-metadata", "metadata {note: %r, count: %r} of a type with optional fields only: %s" % (note, count, bad), case)
                else:
                    sh.nontrivial.add(("rich", "all-optional", note is None, count is None))
                continue
            v = gen_rich(r)
            name = "rich%d" % (idx % 3)
            case = {"rich": v, "name": name}
            try:
                rep = mon.call({"op": "rich", "name": name, "launch": idx % 2 == 0, "value": v})
            except vp.ExecutorDied as e:
                sh.violation("rich:process-died", "the process died (status %s) while writing / re-reading the typed metadata %r" % (e.status, v), case)
                mon = vp.Mon("layers", umask=um)
                mon.call({"op": "init", "layers_dir": layers, "app_dir": os.path.join(root, "app"), "bp_dir": os.path.join(root, "bp")})
                continue
            sh.evaluations += 1
            what = "typed metadata %r" % (v,)
            if rep.get("write_err"):
                # TOML integers are 64-bit signed: a u64 beyond that cannot be written, and saying so is the only acceptable outcome
                if v["big"] > 2 ** 63 - 1:
                    # ... and the layer is then what it was before the refused write: the same layer name has been used by earlier
                    # cases of this shard, so the next request either restores the previous value (callback runs, Restored) or, for
                    # the very first use, finds the freshly created layer without metadata of this type
                    if "after_err" in rep or (prev.get(name) is not None and (rep.get("after_state") != {"restored": "kept"} or not rep.get("after_seen_some"))):
                        sh.violation("rich:refused-write-damaged-layer", "%s: write_metadata correctly refused the value, but the next request for the layer no longer restores the "
                                     "value written before (%r): state %r, error %r" % (what, prev.get(name), rep.get("after_state"), rep.get("after_err")), case)
                        prev[name] = None
                        continue
                    sh.nontrivial.add(("rich", "unrepresentable-integer-refused", prev.get(name) is not None))
                else:
                    sh.violation("rich:write-error", "%s: write_metadata failed: %s" % (what, rep.get("detail", "")[:300]), case)
                continue
            if "err" in rep:
                sh.violation("rich:request-error", "%s: the request after the write failed: %s; file: %r" % (what, rep.get("detail", "")[:300], rep.get("toml_text", "")[:300]), case)
                continue
            try:
                doc = tomllib.loads(rep["toml_text"])
            except Exception as e:  # noqa: BLE001
                sh.violation("rich:invalid-toml", "%s: the written <layer>.toml is not valid TOML: %s\n%s" % (what, e, rep["toml_text"][:400]), case)
                continue
            want = rich_expected(v)
            if not tomlw.same(doc.get("metadata"), tomlw.to_py(want)):
                sh.violation("rich:content", "%s: <layer>.toml holds metadata %r, expected %r" % (what, doc.get("metadata"), want), case)
                continue
            prev[name] = v
            if rep["state"] != {"restored": "kept"} or not rep["callback_ran"] or not rep["restored_equal"]:
                sh.violation("rich:restored-value", "%s: the next request reported %r (callback ran: %s) and its callback saw %s" % (what, rep["state"], rep["callback_ran"], rep["restored_debug"][:400]), case)
                continue
            sh.nontrivial.add(("rich", v["kind"], "opt_str" in v, "when" in v, bool(v["pairs"]), bool(v["map"]), str(v["ratio"]) in ("nan", "inf", "-inf"), v["big"] > 2 ** 31))
        sh.sample({"typed_metadata": "Rich { schema-version, name, opt-str?, tags, nums, big: u64, ratio: f64, flag, when?: Datetime, kind: enum, inner: struct, map, pairs: [struct] }",
                   "observed": "file re-read by tomllib equals the serde shape of the value; the next request's callback received an equal value"}, cap=1)
    finally:
        mon.close()
        vp.rmtree(root)
    return sh.dict()


def threads_shard(arg):
    """several threads of one process, each working on a layer of its own in one layers directory"""
    idxs, work = arg
    sh = vp.Shard()
    for idx in idxs:
        root = os.path.join(work, "thr%d-%d" % (os.getpid(), idx))
        layers = os.path.join(root, "layers")
        for d in (layers, os.path.join(root, "app"), os.path.join(root, "bp")):
            os.makedirs(d)
        mon = vp.Mon("layers")
        try:
            mon.call({"op": "init", "layers_dir": layers, "app_dir": os.path.join(root, "app"), "bp_dir": os.path.join(root, "bp")})
            threads, rounds = [2, 4, 8, 16][idx % 4], 120
            rep = mon.call({"op": "threads", "threads": threads, "rounds": rounds})
            sh.evaluations += rep.get("writes", 0)
            sh.count("route_threads", rep.get("writes", 0))
            case = {"threads": threads, "rounds": rounds}
            if rep.get("problems") or rep.get("stray"):
                sh.violation("threads:%s" % ("other-layers-content" if rep.get("problems") else "stray-files"), "%d threads, each requesting and writing its own layer %d times: %s; entries in <layers> that belong to no layer: %r"
                             % (threads, rounds, "; ".join(rep.get("problems", [])) or "-", rep.get("stray")), case)
            else:
                sh.nontrivial.add(("threads", threads))
        except vp.ExecutorDied as e:
            sh.violation("threads:process-died", "the process died (status %s) while %d threads handled their layers" % (e.status, threads), {"threads": threads})
        finally:
            mon.close()
            vp.rmtree(root)
    return sh.dict()


def run(tier, seed, work):
    res = vp.Result("C01", tier, seed, "exploration")
    res.after_error_routes = ['refused_requests_compared']      # routes added in round 12 (a handled failure followed by ordinary work): must have observed something
    for d in vp.pmap(threads_shard, [(s, work) for s in vp.split(list(range(16 if tier == "quick" else 160)), 4)]):
        res.merge(d)
    res.required = ["route_threads"]
    maxlen = 3 if tier == "quick" else 5
    hs = list(enumerate(enum_histories(maxlen)))
    r = vp.rng(seed, "c01-len")
    nrand = 1500 if tier == "quick" else 8000
    rnd = [(i, r.randint(8, 30 if tier == "quick" else 60)) for i in range(nrand)]
    shards = [("enum", s, seed, work) for s in vp.split(hs, vp.NCPU * 2)] + [("rand", s, seed, work) for s in vp.split(rnd, vp.NCPU)]
    for d in vp.pmap(shard_run, shards):
        res.merge(d)
    nrich = 800 if tier == "quick" else 20000
    for d in vp.pmap(rich_shard, [(s, seed, work) for s in vp.split(list(range(nrich)), vp.NCPU)]):
        res.merge(d)
    res.extra["rich_typed_metadata_values"] = nrich
    res.exhaustive = True
    res.extra["exhaustive_bound"] = ("all histories of length <=%d over the %d-symbol alphabet %r (writes only through a LayerRef obtained in the same build), layers 'a' and 'a.b'; "
                                     "flags, causes and payloads drawn per instance from VERIF_SEED" % (maxlen, len(SYMS), SYMS))
    res.extra["enumerated_histories"] = len(hs)
    res.rule = ("evaluations = layer requests and LayerRef writes judged (state + callback log + full <layers> snapshot). distinct_nontrivial = distinct "
                "(abstract pre-state of the layer [dir/toml-only, types present or stripped by restore, metadata kind, has env/SBOM/exec.d/files], operation, metadata type, outcome, cause kind) "
                "transitions taken on a layer that existed before the request")
    res.assumptions = ["restore between builds is simulated from the files actually on disk: cache=true keeps dir+SBOMs+toml without [types]; launch-only keeps the toml; others vanish",
                       "for uncached_layer the expected cause is NewlyCreated for an absent layer and RestoredLayerAction for an existing one (its fixed internal callbacks)",
                       "writes go through the most recent LayerRef of a layer, obtained in the current build"]
    res.required = list(getattr(res, "required", [])) + res.after_error_routes
    return res


def replay(case, work):
    res = vp.Result("C01", "quick", 0, "exploration")
    sh = vp.Shard()
    mon = vp.Mon("layers", umask=case.get("umask", 0o022))
    run_history(mon, work, "replay", unjson(case["steps"]), case["names"], sh)
    mon.close()
    sh.nontrivial.update({"replay-a", "replay-b"})
    res.merge(sh.dict())
    res.rule = "replay of one recorded history"
    res.sample({"steps": case["steps"]})
    return res
