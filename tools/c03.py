"""C03 — LayerEnv on-disk layout and read-back."""
import os

import envmodel
import vp
from vp import hx
from c04 import enc_entries, enc_queries, dec_env

PROCS = ["web", "worker.1", "a_b"]
SCOPES = ["all", "build", "launch"] + ["process:" + p for p in PROCS]
NAME_CLASSES = {
    "plain": [b"A", b"PATH", b"FOO_BAR"],
    "dots": [b"a.b", b"x.y.z", b"A.append", b"B.override"],
    "leaddot": [b".x", b".append", b"..", b"."],
    "space": [b"X Y", b" lead", b"trail "],
    "eq": [b"K=V", b"="],
    "newline": [b"N\nL"],
    "hibytes": [b"\xff\xfe", b"caf\xc3\xa9", b"\x80"],
}
VALUES = [b"", b"v", b"a:b", b"\x00\x01\xff", b"line1\nline2\n", b" padded ", b"x" * 300, b"caf\xc3\xa9", b"$HOME `id`"]
BYSTANDERS = {
    b"bin": ("d", 0o755), b"bin/tool": ("f", 0o755, b"#!/bin/sh\n"),
    b"exec.d": ("d", 0o755), b"exec.d/x": ("f", 0o755, b"x"),
    b"data": ("f", 0o644, b"payload"), b"envy": ("f", 0o600, b"not an env dir"),
    b"env.txt": ("f", 0o644, b"t"), b"env.launchx": ("d", 0o750), b"env.launchx/K.override": ("f", 0o644, b"no"),
    b"lib": ("d", 0o755),
    # what a killed earlier run of some tool may have left next to the env directories: scratch directories with env-like files
    b".env.tmp": ("d", 0o755), b".env.tmp/STALE.override": ("f", 0o644, b"stale"), b".env.build.tmp": ("d", 0o755), b".env.build.tmp/STALE.append": ("f", 0o644, b"stale"),
    b".env.launch.tmp": ("d", 0o755), b".env.launch.tmp/STALE.default": ("f", 0o644, b"stale"), b"env.tmp": ("d", 0o755), b"env.tmp/STALE.override": ("f", 0o644, b"stale"),
}
QSCOPES = ["all", "build", "launch", "process:web", "process:worker.1", "process:a_b", "process:unknown"]


def name_class(n):
    for c, ns in NAME_CLASSES.items():
        if n in ns:
            return c
    return "other"


def gen_env(r, size=None, empty_ok=True):
    n = size if size is not None else r.choice([0, 1, 1, 2, 3, 5, 8] if empty_ok else [1, 2, 3, 5, 8])
    scopes = r.sample(SCOPES, r.randint(1, len(SCOPES)))
    d = {}
    for _ in range(n):
        cls = r.choice(list(NAME_CLASSES))
        d[(r.choice(scopes), r.choice(envmodel.BEHAVIOURS), r.choice(NAME_CLASSES[cls]))] = r.choice(VALUES)
    return [(s, b, nm, v) for (s, b, nm), v in d.items()]


def covering_pool(r, n):
    """Pool with every scope x behaviour x name class at least once, then random."""
    pool = [[]]
    classes = list(NAME_CLASSES)
    i = 0
    for s in SCOPES:
        for b in envmodel.BEHAVIOURS:
            cls = classes[i % len(classes)]
            i += 1
            e = [(s, b, r.choice(NAME_CLASSES[cls]), r.choice(VALUES))]
            e += gen_env(r, r.randint(0, 3))
            # dedupe keys
            d = {(a, bb, c): v for a, bb, c, v in e}
            pool.append([(a, bb, c, v) for (a, bb, c), v in d.items()])
    # the same (behaviour, name, value) in scope "all" and in narrower scopes: every one of them is a file of its own
    for beh in envmodel.BEHAVIOURS:
        nm, v = r.choice(NAME_CLASSES["plain"]), r.choice([b"v", b"a:b", b":"])
        e = [(sc, beh, nm, v) for sc in ("all", "build", "launch", "process:web")]
        if beh in ("append", "prepend"):
            e += [(sc, "delim", nm, b":") for sc in ("all", "build", "launch", "process:web")]
        pool.append(e)
    # a process type named like the env file of a launch variable ("web" overridden for launch + the process "web.override"): env.launch/web.override
    # would have to be a file and a directory - the env cannot be laid out, so the write is refused (or every entry is on disk; never a silent loss)
    for beh in envmodel.BEHAVIOURS:
        pool.append([("launch", beh, b"web", b"1"), ("process:web.%s" % beh, "append", b"P", b"2"), ("all", "default", b"Q", b"3")])
    # a name that ends in the suffix of its own behaviour ("app.append" appended): the file is app.append.append
    pool.append([("all", b, b"app." + b.encode(), b"x") for b in envmodel.BEHAVIOURS] + [("build", "append", b"app", b"y"), ("all", "append", b"app", b"z")])
    for _ in range(max(2, n // 50)):
        pool.append(gen_large_env(r))
    while len(pool) < n:
        pool.append(gen_env(r))
    return pool[:n]


def gen_large_env(r):
    """hundreds of entries over many variables, long names (below NAME_MAX with the longest suffix) and values around and beyond
    common buffer sizes, many variables per scope directory"""
    names = [b"V%d" % i for i in range(r.randint(20, 150))] + [b"L" * r.choice([100, 200, 240])]
    big = [bytes([r.randrange(1, 256)]) * k for k in (4095, 4096, 4097, 8192, 65536, 70001)]
    d = {}
    for _ in range(r.randint(100, 250)):
        d[(r.choice(SCOPES), r.choice(envmodel.BEHAVIOURS), r.choice(names))] = r.choice(big) if r.random() < 0.02 else r.choice(VALUES)
    return [(s, b, nm, v) for (s, b, nm), v in d.items()]


def make_bystanders(d):
    for rel, spec in sorted(BYSTANDERS.items()):
        p = os.path.join(d, rel)
        if spec[0] == "d":
            os.mkdir(p)
            os.chmod(p, spec[1])
        else:
            with open(p, "wb") as f:
                f.write(spec[2])
            os.chmod(p, spec[1])


ENV_ROOTS = (b"env", b"env.build", b"env.launch")


def is_env_path(rel):
    top = rel.split(b"/", 1)[0]
    return top in ENV_ROOTS


def check_tree(d, entries, what, case, sh):
    snap = vp.snapshot(d)
    want = envmodel.expected_tree(entries)
    got_files = {k: v[2] for k, v in snap.items() if is_env_path(k) and v[0] == "f"}
    if got_files != want:
        extra = sorted(set(got_files) - set(want))
        missing = sorted(set(want) - set(got_files))
        diff = [k for k in want if k in got_files and got_files[k] != want[k]]
        sh.violation("layout:" + ("stale" if extra else "missing" if missing else "content"),
                     "%s: env files on disk differ from the spec layout of the written env: unexpected %r, missing %r, wrong content %r"
                     % (what, extra[:4], missing[:4], diff[:4]), case)
        return False
    # directories below the env roots exist only if they hold something; nothing but dirs/files
    for k, v in snap.items():
        if not is_env_path(k):
            continue
        if v[0] == "d":
            if not any(f.startswith(k + b"/") for f in want):
                sh.violation("layout:empty-dir", "%s: empty or unexpected directory %r left under the env roots" % (what, k), case)
                return False
        elif v[0] != "f":
            sh.violation("layout:kind", "%s: unexpected entry kind at %r: %r" % (what, k, v), case)
            return False
    by = {k: v for k, v in snap.items() if not is_env_path(k)}
    if by != BYSTANDERS:
        sh.violation("bystander", "%s: something outside env*/ changed: %s" % (what, vp.snap_diff(BYSTANDERS, by)), case)
        return False
    return True


def probes(entries):
    names = sorted({n for _, _, n, _ in entries})[:6] or [b"A"]
    starts = [{}, {n: b"" for n in names}, {n: b"s" for n in names}, {b"UNRELATED": b"u", names[0]: b"p:q"}]
    return [(s, st) for s in QSCOPES for st in starts]


def check_readback(mon, d, entries, case, sh, what, spec_entries=None):
    qs = probes(entries)
    rep = mon.call({"op": "read_apply", "dir": hx(d), "queries": enc_queries(qs)})
    if "err" in rep:
        sh.violation("read:error", "%s: read_from_layer_dir failed: %s" % (what, rep["detail"]), case)
        return False
    model_entries = entries if spec_entries is None else spec_entries
    for i, (scope, start) in enumerate(qs):
        sh.evaluations += 1
        want = envmodel.apply(model_entries, scope, start, layer_dir=d)
        got = dec_env(rep["results"][i]["result"])
        if got != want:
            keys = [k for k in set(got) | set(want) if got.get(k) != want.get(k)]
            sh.violation("read:apply:%s" % scope.split(":")[0],
                         "%s: after read-back apply(%s, %r) gives %r for %r, the written env gives %r"
                         % (what, scope, start, {k: got.get(k) for k in keys}, keys, {k: want.get(k) for k in keys}), case)
            return False
    return True


def file_dir_collision(entries):
    """a launch-scoped variable whose env file has the name of a process type's directory"""
    files = {n + b"." + b.encode() for s_, b, n, _ in entries if s_ == "launch"}
    return any(s_.startswith("process:") and s_[len("process:"):].encode() in files for s_, _, _, _ in entries)


def run_pair(mon, base, idx, old, new, sh, locked=False):
    """locked: the executor runs as uid 65534 and, before the new env is written, the env directories of the old one lose their
    write bit - the old files cannot be removed. The write may fail; it must not succeed with the old files still there."""
    d = os.path.join(base, b"p%d" % idx)
    os.mkdir(d)
    case = {"kind": "pair", "old": enc_entries(old), "new": enc_entries(new), "locked": locked}
    try:
        make_bystanders(d)
        if locked:
            vp.chown_tree(d)
        for step, entries in (("old", old), ("new", new)):
            if step == "new" and not locked and idx % 5 == 2:
                # between the two writes one that is refused half-way (a variable name that cannot be a file name) - the caller handles the error and
                # writes the new env: what the refused write left behind (if anything) is gone after that like everything else written earlier
                bad = list(old[: len(old) // 2]) + [("build", "override", b"BAD/NAME", b"x"), ("launch", "append", b"ALSO/BAD", b"y"), ("process:web", "default", b"P/Q", b"z")]
                rep0 = mon.call({"op": "write", "dir": hx(d), "entries": enc_entries(bad)})
                sh.count("refused_writes_in_between", 1 if "err" in rep0 else 0)
                if "err" not in rep0 and not (check_tree(d, bad, "after a write with names that contain '/', which reported success,", case, sh)
                                              and check_readback(mon, d, bad, case, sh, "after a write with names that contain '/', which reported success,")):
                    return
                case["refused_write_in_between"] = True
            if locked and step == "new":
                for root in ENV_ROOTS:
                    for dp, _, _ in os.walk(os.path.join(d, root)):
                        os.chmod(dp, 0o555)
            if not locked and step == "new" and idx % 4 == 1:
                # the layer directory itself without write bits (as root the write still goes through): its mode is not the writer's to change
                os.chmod(d, [0o555, 0o500, 0o711][idx // 4 % 3])
            mode_before = os.stat(d).st_mode
            rep = mon.call({"op": "write", "dir": hx(d), "entries": enc_entries(entries)})
            sh.evaluations += 1
            if os.stat(d).st_mode != mode_before:
                sh.violation("write:layer-dir-mode", "writing the %s env changed the mode of the layer directory itself: %o -> %o" % (step, mode_before & 0o7777, os.stat(d).st_mode & 0o7777), case)
                return
            if "err" in rep and locked and step == "new":
                sh.count("locked_writes_refused")
                sh.nontrivial.add(("locked-refused", frozenset(s_.split(":")[0] for s_, _, _, _ in old)))
                return
            if "err" in rep and file_dir_collision(entries):
                sh.count("unrepresentable_envs_refused")
                sh.nontrivial.add(("file-dir-collision-refused", step))
                return
            if "err" in rep:
                sh.violation("write:error", "write_to_layer_dir(%s env) failed: %s" % (step, rep["detail"]), case)
                return
            if not check_tree(d, entries, "after writing the %s env" % step, case, sh):
                return
            if not check_readback(mon, d, entries, case, sh, "after writing the %s env" % step):
                return
        if old:
            so = frozenset(s.split(":")[0] for s, _, _, _ in old)
            sn = frozenset(s.split(":")[0] for s, _, _, _ in new)
            nc = frozenset(name_class(n) for _, _, n, _ in old + new)
            sh.nontrivial.add((so, sn, nc))
            sh.sample({"old": [(s, b, repr(n), repr(v[:20])) for s, b, n, v in old][:4],
                       "new": [(s, b, repr(n), repr(v[:20])) for s, b, n, v in new][:4],
                       "observed": "tree == spec layout of new env, bystanders unchanged, 28 read-back probes equal"}, cap=1)
    finally:
        vp.rmtree(d)


READ_NAMES = [b"A", b"PATH", b"FOO_BAR", b"X Y", b"\xff\xfe", b"K=V"]


def gen_read_dir(r, d):
    """Hand-made spec-shaped layer dir. Returns a description for the replay file."""
    desc = []
    roots = [b"env", b"env.build", b"env.launch"]
    for root in roots:
        if r.random() < 0.25:
            continue
        os.mkdir(os.path.join(d, root))
        dirs = [root]
        if root == b"env.launch":
            for p in r.sample(PROCS, r.randint(0, 3)):
                if r.random() < 0.25:
                    # the process directory is a symbolic link to a directory (kept elsewhere in the layer): a directory like any other
                    os.mkdir(os.path.join(d, b"procdata-" + p.encode()))
                    os.symlink(os.path.join(b"..", b"procdata-" + p.encode()), os.path.join(d, root, p.encode()))
                else:
                    os.mkdir(os.path.join(d, root, p.encode()))
                dirs.append(root + b"/" + p.encode())
        else:
            if r.random() < 0.3:
                os.mkdir(os.path.join(d, root, b"subdir"))
                with open(os.path.join(d, root, b"subdir", b"Z.override"), "wb") as f:
                    f.write(b"ignored")
                desc.append((root + b"/subdir/Z.override", b"ignored"))
        for dd in dirs:
            for _ in range(r.choice([0, 1, 2, 4])):
                name = r.choice(READ_NAMES)
                suf = r.choice([b"", b"", b".append", b".default", b".delim", b".override", b".prepend",
                                b".unknown", b".APPEND", b".", b".\xff"])
                fn = name + suf
                val = r.choice(VALUES)
                p = os.path.join(d, dd, fn)
                if r.random() < 0.1 and not os.path.lexists(p):
                    tgt = os.path.join(d, b"data-" + bytes([97 + len(desc) % 26]))
                    with open(tgt, "wb") as f:
                        f.write(val)
                    os.symlink(tgt, p)
                    desc.append((dd + b"/" + fn, b"->" + val))
                else:
                    if os.path.islink(p):
                        continue
                    with open(p, "wb") as f:
                        f.write(val)
                    desc.append((dd + b"/" + fn, val))
    for sub in (b"bin", b"lib"):
        if r.random() < 0.5:
            os.mkdir(os.path.join(d, sub))
    return desc


def run_readdir(mon, base, idx, seed, sh):
    r = vp.rng(seed, "c03-read", idx)
    d = os.path.join(base, b"r%d" % idx)
    os.mkdir(d)
    try:
        desc = gen_read_dir(r, d)
        case = {"kind": "readdir", "idx": idx, "seed": seed, "files": [[hx(a), hx(b)] for a, b in desc]}
        spec_entries, unspec = envmodel.read_layer_dir(d)
        if unspec:
            sh.count("read_unspecified_skipped")
            return
        before = vp.snapshot(d)
        ok = check_readback(mon, d, spec_entries, case, sh, "hand-made env dir", spec_entries=spec_entries)
        if vp.snapshot(d) != before:
            sh.violation("read:mutates", "reading a layer dir changed it: %s" % vp.snap_diff(before, vp.snapshot(d)), case)
        if ok:
            kinds = frozenset((p.rsplit(b"/", 1)[0].split(b"/")[0], os.path.splitext(p)[1] if b"." in p.rsplit(b"/", 1)[1] else b"<none>",
                               b"proc" if p.count(b"/") == 2 else b"top") for p, _ in desc)
            sh.add("read_dir_shapes", kinds)
            sh.count("read_dirs")
            if len(kinds) >= 3:
                sh.nontrivial.add(("read", kinds))
    finally:
        vp.rmtree(d)


def shard_run(arg):
    kind, items, seed, base = arg
    sh = vp.Shard()
    mon = vp.Mon("env", prefix=vp.NOBODY if kind == "pair-locked" else ())
    wbase = os.path.join(base.encode(), b"w%d" % os.getpid())
    os.makedirs(wbase, exist_ok=True)
    if kind == "pair-locked":
        os.chown(wbase, 65534, 65534)
    try:
        for it in items:
            if kind in ("pair", "pair-locked"):
                idx, old, new = it
                run_pair(mon, wbase, idx, old, new, sh, locked=kind == "pair-locked")
            else:
                run_readdir(mon, wbase, it, seed, sh)
    finally:
        mon.close()
        vp.rmtree(wbase)
    return sh.dict()


def run(tier, seed, work):
    res = vp.Result("C03", tier, seed, "exploration")
    res.after_error_routes = ['refused_writes_in_between', 'unrepresentable_envs_refused']      # routes added in round 12 (a handled failure followed by ordinary work): must have observed something
    r = vp.rng(seed, "c03")
    if tier == "quick":
        pool = covering_pool(r, 60)
        pairs = [(i, pool[r.randrange(len(pool))], pool[r.randrange(len(pool))]) for i in range(8000)]
        # make sure every pool element is used once as old and once as new
        pairs += [(8000 + i, pool[i], pool[(i * 7 + 3) % len(pool)]) for i in range(len(pool))]
        nread = 3000
    else:
        pool = covering_pool(r, 300)
        pairs = [(i * len(pool) + j, pool[i], pool[j]) for i in range(len(pool)) for j in range(len(pool))]
        nread = 100000
    # derived pairs: the new env is the old one with whole scopes dropped (everything else byte-identical), and vice versa -
    # the situations in which a writer could believe "nothing changed here"
    base = len(pairs) + 100000
    derived = []
    for i, e in enumerate(pool):
        scopes = sorted({x[0] for x in e})
        for sc in scopes:
            sub = [x for x in e if x[0] != sc]
            derived.append((base + len(derived), e, sub))
            derived.append((base + len(derived), sub, e))
        procs = [x for x in e if x[0].startswith("process:")]
        if procs:
            noproc = [x for x in e if not x[0].startswith("process:")]
            derived.append((base + len(derived), e, noproc))
            derived.append((base + len(derived), noproc, e))
        derived.append((base + len(derived), e, e))
    if tier == "quick":
        derived = derived[:3000]
    pairs += derived
    shards = [("pair", s, seed, work) for s in vp.split(pairs, vp.NCPU * 2)]
    shards += [("read", s, seed, work) for s in vp.split(range(nread), vp.NCPU)]
    if vp.nobody_works():
        # the same overwrites by an unprivileged user whose old env directories have become read-only
        lk = [(10 ** 7 + i, o, n) for i, (_, o, n) in enumerate(pairs[:: max(1, len(pairs) // (600 if tier == "quick" else 6000))]) if o]
        shards += [("pair-locked", s, seed, work) for s in vp.split(lk, vp.NCPU)]
        res.extra["locked_pairs"] = len(lk)
    else:
        res.inconclusive.append("cannot drop privileges with setpriv: overwrites of read-only env directories are not exercised")
    for d in vp.pmap(shard_run, shards):
        res.merge(d)
    res.extra["pairs"] = len(pairs)
    res.extra["env_pool"] = len(pool)
    res.rule = ("evaluations = write_to_layer_dir calls + read-back apply() probes compared. distinct_nontrivial = distinct "
                "(scope kinds of old env, scope kinds of new env, name classes used) combinations among pairs whose OLD env is non-empty "
                "(real overwrites), plus distinct hand-made read-side directory shapes with >=3 (root, suffix, level) kinds")
    res.assumptions = ["dotted variable names and process names ending in a behaviour suffix are unspecified on the hand-made read side and skipped there",
                       "names never contain '/' or NUL (quantifier)"]
    if tier == "thorough":
        res.extra["pairs_note"] = "all ordered pairs over the env pool"
    res.required = list(getattr(res, "required", [])) + res.after_error_routes
    return res


def replay(case, work):
    res = vp.Result("C03", "quick", case.get("seed", 0), "exploration")
    sh = vp.Shard()
    mon = vp.Mon("env")
    base = work.encode()
    dec = lambda es: [(s, b, bytes.fromhex(n), bytes.fromhex(v)) for s, b, n, v in es]
    if case["kind"] == "pair" and case.get("locked"):
        mon.close()
        mon = vp.Mon("env", prefix=vp.NOBODY)
        os.chown(base, 65534, 65534)
        run_pair(mon, base, 0, dec(case["old"]), dec(case["new"]), sh, locked=True)
    elif case["kind"] == "pair":
        run_pair(mon, base, 0, dec(case["old"]), dec(case["new"]), sh)
    else:
        run_readdir(mon, base, case["idx"], case["seed"], sh)
    mon.close()
    sh.nontrivial.update({"replay-a", "replay-b"})
    res.merge(sh.dict())
    res.rule = "replay of one recorded case"
    res.sample(case)
    return res
