"""C17 — libcnb-test passes build and container configuration to pack / docker completely and
unambiguously: the stand-ins' argv is decoded by reference parsers of the CLIs' own option
grammars and must give back exactly the generated configuration."""
import os
import zlib
import re

import testrun
import vp

HOSTILE = ["plain", "-x", "--flag", "--env", "--rm", "--", "-", "with space", "a=b", "=lead", "trail=", "q\"uote", "single'q", "$HOME", "`id`", "café", "日本語", "", " ", "a;b", "*",
           "--name=evil", "--entrypoint", "x y z", "\ttab", "new\nline", "--publish=1:1", "8080", "3000", "true", "/bin/sh"]
KEYS = ["A", "PATH", "lower", "with space", "-dash", "--double", "k.ey", "café", "K_1", "0", "PORT", "PORT", "HOME", "CNB_PLATFORM_API", "DOCKER_HOST", "ENTRYPOINT"]
BUILDPACKS = ["./fixtures/app", "../crate/fixtures", "./does/not/exist", "fixtures/app", ".", "heroku/nodejs", "heroku/procfile@1.2.3", "urn:cnb:registry:x/y", "/abs/path/bp", "rel/bp.cnb", "-weird", "--also", "docker://img/bp:1", "with space/bp", "a=b", "dup/bp", "dup/bp"]
DEEP = "/".join("d%d" % i for i in range(20))
FIXTURE = {"fixtures/app/%s/leaf20.txt" % DEEP: "twenty levels down", "../crate2/fixtures/app/index.txt": "the other crate's app", "../crate2/fixtures/app/only-in-crate2": "2",
           "elsewhere/app/index.txt": "the app beside the link target", "elsewhere/app/keep": "e", "elsewhere/deep/marker": "m", "fixtures/app/index.txt": "hello", "fixtures/app/sub/file": "x", "fixtures/app/keep": "k", "fixtures/other app/f": "other", "Cargo.toml": "[package]\nname = \"fixturecrate\"\nversion = \"0.0.0\"\n"}
OWN = re.compile(r"^libcnbtest_[a-z]{12}$")


def gen_case(r, idx, env):
    c = {"idx": idx}
    # "fixtures/link" is a symlink to a directory elsewhere: "fixtures/link/../app" is <that directory's parent>/app for the
    # file system, which is a different directory than the lexically simplified "fixtures/app"
    app = r.choice(["fixtures/app", "fixtures/other app", os.path.join(env.crate, "fixtures/app"), "./fixtures/../fixtures/app", "fixtures/link/../app"])
    nb = r.choice([0, 1, 2, 4])
    bps = [r.choice(BUILDPACKS) for _ in range(nb)]
    benv = {}
    for _ in range(r.choice([0, 1, 3, 6])):
        benv[r.choice(KEYS)] = r.choice(HOSTILE)
    pre = None
    if r.random() < 0.5:
        pre = {"add": [[r.choice(["added.txt", "sub/new/deep.txt", "index.txt"]), r.choice(HOSTILE)] for _ in range(r.randint(0, 2))], "remove": r.sample(["index.txt", "keep", "nope"], r.randint(0, 2)),
               "append": ([["log.txt", "line\n"]] if r.random() < 0.6 else []) + ([["linked.txt", "written through the copy\n"]] if r.random() < 0.4 else [])}
    c["build"] = {"builder": r.choice(["heroku/builder:24", "-b", "builder with space", "--builder"]), "app_dir": app, "buildpacks": bps, "env": [[k, v] for k, v in benv.items()],
                  "preprocessor": pre, "expected": "success"}
    cenv = {}
    for _ in range(r.choice([0, 1, 3, 6])):
        cenv[r.choice(KEYS)] = r.choice(HOSTILE)
    cmd = None if r.random() < 0.3 else [r.choice(HOSTILE) for _ in range(r.randint(0, 4))]
    mounts = {}
    for _ in range(r.choice([0, 0, 1, 2, 3])):
        # (sources that do not exist on this host, and sources that do: reached through a symbolic link, or a directory without write bits - the
        # source is passed on as it was configured, and the mount is read-write unless the configuration says otherwise)
        mounts[r.choice(["/src/a", "/host path/with space", "rel/src", "/src=eq", "/-dash", os.path.join(env.root, "mnt-link", "sub"), os.path.join(env.root, "mnt-ro"),
                         os.path.join(env.root, "mnt-link")])] = r.choice(["/target", "/t space", "/t=eq", "/-t"])
    if len(mounts) >= 2 and r.random() < 0.5:
        # two different sources mounted onto the same target: both mounts are handed to docker, which is the one to complain
        ks = sorted(mounts)
        mounts[ks[1]] = mounts[ks[0]]
    c["container"] = {"entrypoint": None if r.random() < 0.4 else r.choice(HOSTILE), "command": cmd, "env": [[k, v] for k, v in cenv.items()],
                      "ports": sorted(set(r.choice([80, 8080, 1, 65535, 3000]) for _ in range(r.choice([0, 1, 2, 4])))), "mounts": [[s, t] for s, t in mounts.items()]}
    c["rebuild"] = r.random() < 0.4
    # setters called more than once: the last call decides (builder methods replace / overwrite), nothing of the earlier value may leak
    if r.random() < 0.35:
        c["build"]["superseded"] = {"app_dir": r.choice([None, "fixtures/other app", "fixtures/app"]),
                                    "buildpacks": r.choice([None, ["old/bp", "--old"], [r.choice(BUILDPACKS)]]),
                                    "env": [[k, "OLD-" + r.choice(HOSTILE)] for k in r.sample(sorted(benv), min(len(benv), r.randint(0, 2)))]}
    if r.random() < 0.35:
        c["container"]["superseded"] = {"entrypoint": r.choice([None, "old-entry", "--rm"]) if c["container"]["entrypoint"] is not None else None,
                                        "command": r.choice([None, ["old", "--cmd"]]) if cmd is not None else None,
                                        "env": [[k, "OLD-" + r.choice(HOSTILE)] for k in r.sample(sorted(cenv), min(len(cenv), r.randint(0, 2)))],
                                        "mounts": [[s_, "/old-target"] for s_ in r.sample(sorted(mounts), min(len(mounts), 1))]}
    c["container"]["envs_split"] = r.random() < 0.5
    # a rebuild with a configuration of its own: the second pack build carries that one, on the same image
    if c["rebuild"] and r.random() < 0.4:
        benv2 = {}
        for _ in range(r.choice([0, 1, 3])):
            benv2[r.choice(KEYS)] = r.choice(HOSTILE)
        c["rebuild_cfg"] = {"builder": r.choice(["heroku/builder:24", "other/builder:22", "--builder"]), "app_dir": r.choice(["fixtures/app", "fixtures/other app"]),
                            "buildpacks": [r.choice(BUILDPACKS) for _ in range(r.choice([0, 1, 3]))], "env": [[k, v] for k, v in benv2.items()],
                            "preprocessor": None if r.random() < 0.5 else {"add": [["re.txt", "rebuilt"]], "remove": [], "append": []}, "expected": "success"}
    # a later, independent build in the same process that belongs to another crate (CARGO_MANIFEST_DIR differs): relative app
    # paths are resolved against the crate of the build at hand
    c["second_crate_build"] = r.random() < 0.25
    c["shell"] = r.choice(HOSTILE)
    c["exec"] = r.choice(HOSTILE)
    return c


def mount_sources(env):
    """bind-mount sources that exist on the host"""
    os.makedirs(os.path.join(env.root, "mnt-real", "sub"), exist_ok=True)
    if not os.path.lexists(os.path.join(env.root, "mnt-link")):
        os.symlink("mnt-real", os.path.join(env.root, "mnt-link"))
    os.makedirs(os.path.join(env.root, "mnt-ro"), exist_ok=True)
    os.chmod(os.path.join(env.root, "mnt-ro"), 0o555)


def fixture_digest(path):
    out = []

    def walk(d, rel):
        for n in sorted(os.listdir(d)):
            p = os.path.join(d, n)
            if os.path.isdir(p):
                out.append([rel + n + "/", ""])
                walk(p, rel + n + "/")
            else:
                out.append([rel + n, open(p, "rb").read().hex()])
    walk(path, "")
    return out


def apply_pre(digest, pre):
    d = {k: v for k, v in digest}
    for rel, content in pre["add"]:
        parts = rel.split("/")
        for i in range(1, len(parts)):
            d["/".join(parts[:i]) + "/"] = ""
        d[rel] = content.encode().hex()
    for rel, text in pre.get("append", []):
        d[rel] = (bytes.fromhex(d.get(rel, "")) + text.encode()).hex()
    for rel in pre["remove"]:
        d.pop(rel, None)
    return sorted([k, v] for k, v in d.items())


def run_case(env, c, sh):
    link = os.path.join(env.crate, "fixtures", "link")
    if not os.path.lexists(link):
        os.symlink("../elsewhere/deep", link)
    # a symbolic link with an ABSOLUTE target inside the app fixtures: the copy given to a preprocessor is a copy, not a set of links back
    for appdir in ("fixtures/app", "fixtures/other app"):
        lk = os.path.join(env.crate, appdir, "linked.txt")
        if not os.path.lexists(lk):
            os.symlink(os.path.join(env.crate, "elsewhere", "deep", "marker"), lk)
    scenario = {"builds": [{"config": c["build"], "body": [{"op": "run_shell_command", "command": c["shell"]},
                                                            {"op": "start_container", "config": c["container"], "body": [{"op": "shell_exec", "command": c["exec"]}] +
                                                             ([{"op": "address_for_port", "port": c["container"]["ports"][0]}] if c["container"]["ports"] else [])}] +
                            ([{"op": "rebuild", "reuse_config": not c.get("rebuild_cfg"), "config": c.get("rebuild_cfg") or c["build"], "body": []}] if c.get("rebuild") else [])}]}
    crate2 = os.path.join(env.root, "crate2")
    if c.get("second_crate_build"):
        scenario["builds"].append({"config": {"builder": "b2/builder", "app_dir": "fixtures/app", "buildpacks": ["second/bp"], "env": [], "preprocessor": None, "expected": "success"},
                                   "manifest_dir": crate2, "body": []})
    app_abs = os.path.realpath(c["build"]["app_dir"] if os.path.isabs(c["build"]["app_dir"]) else os.path.join(env.crate, c["build"]["app_dir"]))
    before = fixture_digest(app_abs)
    case = {"idx": c["idx"], "case": c}
    what = "case #%d" % c["idx"]
    if c["idx"] % 10 == 9:
        # pack fails although success is expected: the runner must give up after that one invocation
        rc, err, log, left = env.run(scenario, {"fail_kinds": ["pack build"], "exit": 1})
        sh.evaluations += 1
        n = len([e for e in log if e["kind"] == "pack build"])
        if n != 1 or rc == 0:
            sh.violation("pack-build-count:on-failure", "%s: pack build failed (scripted); the runner issued %d pack build invocations and the scenario exit was %r" % (what, n, rc), case)
        else:
            sh.nontrivial.add(("pack-fails", len(c["build"]["buildpacks"])))
        # ... and that is the end of this test only: the next test of the same process builds as if nothing had happened
        sc2 = {"builds": [scenario["builds"][0], {"config": {"builder": "b2/builder", "app_dir": "fixtures/app", "buildpacks": ["second/bp"], "env": [["AFTER", "a failed test"]], "preprocessor": None,
                                                             "expected": "success"}, "body": [{"op": "run_shell_command", "command": "true"}]}], "catch_builds": True}
        rc, err, log, left = env.run(sc2, {"fail_seq": 0, "exit": 1})
        sh.evaluations += 1
        sh.count("builds_after_a_failed_build_in_the_same_process")
        packs = [testrun.decode(e) for e in log if e["kind"] == "pack build"]
        if rc != 0 or len(packs) != 2 or packs[1]["builder"] != "b2/builder" or packs[1]["buildpacks"] != ["second/bp"] or sorted(packs[1]["env"]) != [("AFTER", "a failed test")]:
            sh.violation("build-after-failed-build", "%s: the first test's pack build failed (scripted, success expected: that test panics); the second test of the same process: exit %r, pack builds %r; stderr %s"
                         % (what, rc, [(p_["builder"], p_["buildpacks"], p_["env"]) for p_ in packs], err[-300:]), case)
        return
    if c["build"].get("preprocessor") and c["idx"] % 7 == 3 and not c.get("second_crate_build"):
        # the fixture holds something that cannot be copied (a FIFO left behind by local tooling): the build either fails before pack runs, or
        # pack is given the complete app - never a copy that silently stops at the entry
        fifo = os.path.join(app_abs, "a-pipe")
        os.mkfifo(fifo)
        try:
            rc, err, log, left = env.run(scenario, timeout=25)      # (a copy that opens the FIFO blocks for ever: not waited for)
        finally:
            os.unlink(fifo)
        sh.evaluations += 1
        if rc is None:
            sh.inconclusive.append("%s: the build of a fixture that holds a FIFO did not return within 25 s" % what)
            return
        sh.count("fixtures_with_an_uncopyable_entry")
        want = apply_pre(before, c["build"]["preprocessor"])
        for e in log:
            if e["kind"] == "pack build":
                missing = sorted(set(map(tuple, want)) - set(map(tuple, e.get("path_digest", []))))
                if missing:
                    sh.violation("path:partial-copy", "%s: the fixture contains a FIFO; pack build ran (scenario exit %r) on a copy of the app that lacks %r" % (what, rc, [m[0] for m in missing][:6]), case)
                    return
        if rc == 0 and not any(e["kind"] == "pack build" for e in log):
            sh.violation("pack-build-count", "%s: exit 0 without a pack build" % what, case)
            return
        sh.nontrivial.add(("uncopyable-entry", "refused" if rc != 0 else "copied"))
        return
    # (a third of the runs that use a preprocessor: the system's temporary directory is an ancestor of the fixture)
    above = bool(c["build"].get("preprocessor")) and zlib.crc32(repr(sorted(c["build"]["env"])).encode() + b"%d" % len(scenario["builds"])) % 3 == 0
    rc, err, log, left = env.run(scenario, tmp_above_fixture=above)
    if above:
        sh.count("runs_with_tmpdir_above_the_fixture")
    sh.evaluations += 1
    if rc != 0:
        sh.violation("scenario-failed", "%s: the scenario did not complete (exit %r): %s" % (what, rc, err[-400:]), case)
        return
    if fixture_digest(app_abs) != before:
        sh.violation("fixture-modified", "%s: the app fixture %s was modified by the run" % (what, app_abs), case)
        return
    try:
        cmds = [testrun.decode(e) for e in log]
    except testrun.ParseError as e:
        sh.violation("ambiguous-argv", "%s: a command line does not parse under the CLI's own grammar: %s; commands %r" % (what, e, [x["argv"] for x in log]), case)
        return
    builds = [x for x in cmds if x["kind"] == "pack build"]
    if c.get("second_crate_build"):
        if not builds or len(builds) < 2:
            sh.violation("pack-build-count", "%s: %d pack build invocations although a second build was run" % (what, len(builds)), case)
            return
        last = builds.pop()
        want_dir = os.path.realpath(os.path.join(crate2, "fixtures", "app"))
        if last["builder"] != "b2/builder" or last["buildpacks"] != ["second/bp"] or os.path.realpath(last["path"] or "") != want_dir or log[last["seq"]]["path_digest"] != fixture_digest(want_dir):
            sh.violation("second-crate:path", "%s: the build of the second crate (CARGO_MANIFEST_DIR=%s, app_dir 'fixtures/app') ran pack with --path %r (builder %r)" % (what, crate2, last["path"], last["builder"]), case)
            return
    if len(builds) != (2 if c.get("rebuild") else 1):
        sh.violation("pack-build-count", "%s: %d pack build invocations" % (what, len(builds)), case)
        return
    cfg = c["build"]
    if c.get("rebuild_cfg"):
        cfg2 = c["rebuild_cfg"]
        b2, raw2 = builds[1], log[builds[1]["seq"]]
        app2 = os.path.realpath(os.path.join(env.crate, cfg2["app_dir"]))
        base2 = fixture_digest(app2)
        want2 = base2 if cfg2["preprocessor"] is None else apply_pre(base2, cfg2["preprocessor"])
        got = (b2["image"], b2["builder"], b2["buildpacks"], sorted(b2["env"]))
        exp = (builds[0]["image"], cfg2["builder"], cfg2["buildpacks"], sorted((k, v) for k, v in cfg2["env"]))
        if got != exp:
            sh.violation("rebuild:own-config", "%s: rebuild with its own configuration: pack build decodes to %r, expected %r (argv %r)" % (what, got, exp, raw2["argv"]), case)
            return
        if sorted(raw2["path_digest"]) != sorted(want2) or (cfg2["preprocessor"] is None) != (os.path.realpath(b2["path"] or "") == app2):
            sh.violation("rebuild:own-config-path", "%s: rebuild with its own configuration: --path %r holds %r, expected %r" % (what, b2["path"], sorted(raw2["path_digest"])[:6], sorted(want2)[:6]), case)
            return
    elif c.get("rebuild"):
        # the rebuild (with the first build's own configuration) must look exactly like the first build: same image, same options,
        # and - with a preprocessor - a fresh private copy with the edits applied once
        b2, raw2 = builds[1], log[builds[1]["seq"]]
        if (b2["image"], b2["builder"], b2["buildpacks"], sorted(b2["env"])) != (builds[0]["image"], builds[0]["builder"], builds[0]["buildpacks"], sorted(builds[0]["env"])):
            sh.violation("rebuild:options", "%s: the rebuild's pack build differs from the first: %r vs %r" % (what, raw2["argv"], log[builds[0]["seq"]]["argv"]), case)
            return
        want2 = before if cfg["preprocessor"] is None else apply_pre(before, cfg["preprocessor"])
        if sorted(raw2["path_digest"]) != sorted(want2):
            sh.violation("rebuild:path-content", "%s: on rebuild pack saw %r, expected %r" % (what, sorted(raw2["path_digest"])[:6], sorted(want2)[:6]), case)
            return
    b = builds[0]
    raw = log[b["seq"]]
    if not OWN.match(b["image"]):
        sh.violation("image-name", "%s: image name %r" % (what, b["image"]), case)
        return
    if b["builder"] != cfg["builder"]:
        sh.violation("builder", "%s: --builder decodes to %r, configured %r (argv %r)" % (what, b["builder"], cfg["builder"], raw["argv"]), case)
        return
    if b["buildpacks"] != cfg["buildpacks"]:
        sh.violation("buildpacks", "%s: buildpacks decode to %r, configured (in this order) %r" % (what, b["buildpacks"], cfg["buildpacks"]), case)
        return
    want_env = sorted((k, v) for k, v in cfg["env"])
    if sorted(b["env"]) != want_env:
        sh.violation("build-env", "%s: --env pairs decode to %r, configured %r" % (what, sorted(b["env"]), want_env), case)
        return
    if cfg["preprocessor"] is None:
        if b["path"] is None or os.path.realpath(b["path"]) != app_abs:
            sh.violation("path:fixture", "%s: --path is %r, the fixture is %r" % (what, b["path"], app_abs), case)
            return
        if raw["path_digest"] != before:
            sh.violation("path:content", "%s: content given to pack differs from the fixture" % what, case)
            return
    else:
        if b["path"] is None or os.path.realpath(b["path"]) == app_abs or not raw.get("path_is_dir"):
            sh.violation("path:not-private", "%s: a preprocessor is configured but --path is %r (fixture %r)" % (what, b["path"], app_abs), case)
            return
        want = apply_pre(before, cfg["preprocessor"])
        if sorted(raw["path_digest"]) != want:
            sh.violation("path:preprocessed-content", "%s: pack saw %r, expected fixture + preprocessor edits %r" % (what, sorted(raw["path_digest"])[:6], want[:6]), case)
            return
    runs = [x for x in cmds if x["kind"] == "docker run"]
    det = [x for x in runs if x["detach"]]
    if len(det) != 1:
        sh.violation("docker-run-count", "%s: %d detached docker run invocations" % (what, len(det)), case)
        return
    d = det[0]
    cc = c["container"]
    if not OWN.match(d["name"] or "") or d["image"] != b["image"] or d["rm"] or d["platform"] != "linux/amd64":
        sh.violation("docker-run:frame", "%s: docker run decodes to name %r image %r rm %r platform %r (argv %r)" % (what, d["name"], d["image"], d["rm"], d["platform"], log[d["seq"]]["argv"]), case)
        return
    if d["entrypoint"] != cc["entrypoint"]:
        sh.violation("docker-run:entrypoint", "%s: entrypoint decodes to %r, configured %r (argv %r)" % (what, d["entrypoint"], cc["entrypoint"], log[d["seq"]]["argv"]), case)
        return
    if d["env"] != dict(cc["env"]):
        sh.violation("docker-run:env", "%s: container env decodes to %r, configured %r" % (what, d["env"], dict(cc["env"])), case)
        return
    if sorted(d["publish"]) != sorted("127.0.0.1::%d" % p for p in cc["ports"]):
        sh.violation("docker-run:ports", "%s: --publish values %r, configured ports %r" % (what, d["publish"], cc["ports"]), case)
        return
    got_m = sorted((m.get("source"), m.get("target"), m.get("type")) for m in d["mounts"])
    if got_m != sorted((s, t, "bind") for s, t in cc["mounts"]) or any(set(m) != {"type", "source", "target"} for m in d["mounts"]):
        sh.violation("docker-run:mounts", "%s: mounts decode to %r, configured %r" % (what, d["mounts"], cc["mounts"]), case)
        return
    if d["command"] != (cc["command"] or []):
        sh.violation("docker-run:command", "%s: container command decodes to %r, configured %r (argv %r)" % (what, d["command"], cc["command"], log[d["seq"]]["argv"]), case)
        return
    sh_runs = [x for x in runs if not x["detach"]]
    if len(sh_runs) != 1 or sh_runs[0]["command"] != [c["shell"]] or sh_runs[0]["entrypoint"] != "launcher" or sh_runs[0]["image"] != b["image"] or not sh_runs[0]["rm"]:
        sh.violation("shell-command", "%s: run_shell_command(%r) became %r" % (what, c["shell"], [log[x["seq"]]["argv"] for x in sh_runs]), case)
        return
    ex = [x for x in cmds if x["kind"] == "docker exec"]
    if len(ex) != 1 or ex[0]["name"] != d["name"] or ex[0]["command"] != ["launcher", c["exec"]]:
        sh.violation("shell-exec", "%s: shell_exec(%r) became %r" % (what, c["exec"], [log[x["seq"]]["argv"] for x in ex]), case)
        return

    def cls(s):
        if s is None:
            return "none"
        return ("dash" if s.startswith("-") else "") + ("space" if " " in s else "") + ("eq" if "=" in s else "") + ("quote" if '"' in s or "'" in s else "") + \
               ("uni" if any(ord(ch) > 127 for ch in s) else "") + ("empty" if s == "" else "") + ("ctl" if any(ord(ch) < 32 for ch in s) else "") or "plain"
    sh.nontrivial.add((cls(cc["entrypoint"]), tuple(sorted({cls(x) for x in (cc["command"] or [])})), tuple(sorted({cls(v) for _, v in cc["env"]}))[:3],
                       len(cc["ports"]), len(cc["mounts"]), len(cfg["buildpacks"]), cfg["preprocessor"] is not None, os.path.isabs(cfg["app_dir"])))
    sh.sample({"pack_argv": raw["argv"], "docker_run_argv": log[d["seq"]]["argv"], "observed": "decodes back to exactly the configured values"}, cap=1)


def shard_run(arg):
    seed, idxs, work = arg
    sh = vp.Shard()
    env = testrun.Env(os.path.join(work, "w%d" % os.getpid()))
    env.create(FIXTURE)
    mount_sources(env)
    try:
        for idx in idxs:
            run_case(env, gen_case(vp.rng(seed, "c17", idx), idx, env), sh)
    finally:
        vp.rmtree(env.root)
    return sh.dict()


def run(tier, seed, work):
    res = vp.Result("C17", tier, seed, "exploration")
    res.after_error_routes = ['builds_after_a_failed_build_in_the_same_process', 'fixtures_with_an_uncopyable_entry']      # routes added in round 12 (a handled failure followed by ordinary work): must have observed something
    n = 4000 if tier == "quick" else 90000
    for d in vp.pmap(shard_run, [(seed, s, work) for s in vp.split(range(n), vp.NCPU)]):
        res.merge(d)
    res.rule = ("evaluations = scenarios (one pack build, one detached docker run, one run_shell_command, one shell_exec each) whose logged argv was decoded and compared. distinct_nontrivial = distinct "
                "(string class of entrypoint, classes in command, classes in env values [dash, space, eq, quote, uni, empty, ctl], #ports, #mounts, #buildpacks, preprocessor used, absolute app dir) combinations")
    res.assumptions = ["docker run / docker exec are parsed non-interspersed (options end at IMAGE / CONTAINER), pack build interspersed; --buildpack is a comma-separated string slice, --env a string array",
                       "not generated because the target grammars give them meaning: '=' in env keys, ',' and '\"' in mount paths and buildpack references"]
    res.required = list(getattr(res, "required", [])) + res.after_error_routes
    return res


def replay(case, work):
    res = vp.Result("C17", "quick", 0, "exploration")
    sh = vp.Shard()
    env = testrun.Env(os.path.join(work, "replay"))
    env.create(FIXTURE)
    mount_sources(env)
    run_case(env, case["case"], sh)
    sh.nontrivial.update({"replay-a", "replay-b"})
    res.merge(sh.dict())
    res.rule = "replay of one recorded configuration"
    res.sample({"idx": case["idx"]})
    return res
