"""C20 — identical inputs give byte-identical layer and phase outputs: every scenario runs in three
fresh processes (fresh hash seeds, different work-dir roots, PIDs, start times) and the per-step
snapshots are compared byte for byte."""
import json
import os

import c01
import c02
import phase
import tomlw
import vp

ROOTS = ["r1", "second-root-with-a-longer-name", "r3/nested/deeper"]
WIDE = {"k%02d" % i: "v%d" % i for i in range(12)}


ORDER_SENSITIVE = [("build", "default", b"FOO", b"d"), ("build", "append", b"FOO", b"a"), ("build", "prepend", b"FOO", b"p"), ("build", "delim", b"FOO", b"+"),
                   ("launch", "override", b"BAR", b"o"), ("launch", "append", b"BAR", b"a"), ("launch", "default", b"BAR", b"d"), ("process:web", "prepend", b"BAR", b"w"),
                   ("process:web", "default", b"BAR", b"x"),
                   # process scopes are plain strings: two that end in the same path component are two scopes
                   ("process:jobs/web", "override", b"W", b"jobs"), ("process:other/web", "override", b"W", b"other"), ("process:web", "override", b"W", b"plain")]


def widen_c01(steps):
    out = []
    for s in steps:
        out.append(s)
        if s["op"] == "write_env":
            # an env directory as a restored cache may hold it: NAME and NAME.override side by side (both mean "override"). Which one wins
            # is not specified, but it must be the same one in every process
            dups = []
            for i in range(8):
                for root in ("env", "env.launch/web"):
                    dups.append(["%s/DUP%d" % (root, i), b"plain-%d" % i])
                    dups.append(["%s/DUP%d.override" % (root, i), b"suffixed-%d" % i])
            out.append({"op": "fs_write", "name": s["name"], "files": [[p, v.hex()] for p, v in dups], "links": []})
            out.append({"op": "env_to_metadata", "name": s["name"]})
        if s["op"] == "write_exec_d":
            # re-arrange the programs using the layer's own exec.d files as sources (swap): whatever happens must not depend on the process
            out.append({"op": "write_exec_d", "name": s["name"], "programs": [["p1", "@layer/exec.d/p2"], ["p2", "@layer/exec.d/p1"], ["p3", "p3"]], "swap": True})
            # ... the same names again, one of them from another source of the same size (the three processes see sources dated 1980, now and 2100:
            # which content ends up installed does not depend on how old the source file looks)
            out.append({"op": "write_exec_d", "name": s["name"], "programs": [["p1", "p1"], ["p2", "p2"]], "swap": True})
            out.append({"op": "write_exec_d", "name": s["name"], "programs": [["p1", "p1b"], ["p2", "p2"]], "swap": True})
            # ... and a replace that fails (one source does not exist): what a failed call leaves behind is the same in every process too
            out.append({"op": "write_exec_d", "name": s["name"], "programs": [["p1", "p1"], ["gone", "no-such-source"], ["p3", "p3"]], "swap": True})
    steps[:] = out
    for s in steps:
        if s["op"] == "write_metadata":
            s["metadata"] = dict(s["metadata"])
            s["metadata"].update(WIDE)
            s["metadata"]["nested"] = dict(WIDE)
            # (the typed metadata of the harness has a `version` and an unordered map `labels`: a later request that keeps the layer
            # must leave the file as it is, whatever the buildpack's metadata type would make of it)
            s["metadata"]["labels"] = dict(WIDE)
            s["metadata"].setdefault("version", "1.0")
        if s["op"] == "write_env":
            s["entries"] = list(c01.ENV_POOL) + ORDER_SENSITIVE + [("process:p%d" % i, "override", b"K%d" % i, b"v") for i in range(8)]
        if s["op"] == "write_sboms" and s["sboms"]:
            # two different documents of one format: which one ends up on disk must not depend on the process
            f0 = s["sboms"][0][0]
            s["sboms"] = [[f0, b'{"first":1}'.hex()]] + s["sboms"] + [[f0, b'{"last":2}'.hex()]]
        if s["op"] == "write_exec_d" and not s.get("swap"):
            # "./p1" and "p1" are two names for one destination: which source ends up there must not depend on the process
            s["programs"] = [[p, p] for p in ("p1", "p2", "p3")] + [["./p1", "p2"], ["./p3", "p1"]]
            s["swap"] = True        # (compared across processes only: C01's model has no opinion on aliased names)
    return steps


def widen_c02(steps):
    for n, s in enumerate(steps):
        for k in ("create", "update"):
            if k in s and "err" not in s[k]:
                s[k]["env"] = list(c01.ENV_POOL) + ORDER_SENSITIVE + [("process:p%d" % i, "override", b"K%d" % i, b"v") for i in range(8)]
                s[k]["exec_d"] = [[p, p] for p in ("p1", "p2", "p3")]
                if n % 3 == 1:
                    # ... every third result has many programs, one of which (sorting last) has no source: the call fails, and what the
                    # failed call leaves of exec.d is the same in every process
                    s[k]["exec_d"] = [["a%d" % i, "p%d" % (1 + i % 3)] for i in range(7)] + [["zz-gone", "no-such-source"]]
                if s[k]["sboms"]:
                    f0 = s[k]["sboms"][0][0]
                    s[k]["sboms"] = [[f0, b'{"first":1}'.hex()]] + s[k]["sboms"] + [[f0, b'{"last":2}'.hex()]]
    return steps


def compare(runs, what, case, sh):
    """runs: list of (list of snapshots)"""
    n = min(len(r) for r in runs)
    if len({len(r) for r in runs}) != 1:
        sh.violation("diverged", "%s: the three runs took a different number of steps %r" % (what, [len(r) for r in runs]), case)
        return False
    for i in range(n):
        a = runs[0][i]
        for j, other in enumerate(runs[1:], 1):
            if other[i] != a:
                sh.violation("bytes-differ:%s" % sorted(k for k in set(a) | set(other[i]) if a.get(k) != other[i].get(k))[0].decode(errors="replace").rsplit("/", 1)[-1].split(".")[-1],
                             "%s: after step %d run 1 and run %d differ: %s" % (what, i, j + 1, vp.snap_diff(a, other[i], 3)), case)
                return False
    return True


def wide_tables(snaps):
    for s in snaps:
        for k, e in s.items():
            if e[0] == "f" and k.endswith(b".toml") and e[2].count(b"\n") >= 6:
                return True
    return False


def history_case(arg):
    kind, idx, seed, work = arg
    sh = vp.Shard()
    r = vp.rng(seed, "c20", kind, idx)
    if kind == "rich":
        return rich_case(idx, seed, work, r)
    if kind == "c01":
        steps = widen_c01(c01.random_history(r, r.randint(6, 16)))
        mod, names = c01, c01.NAMES
    else:
        steps = widen_c02(c02.random_history(r, r.randint(5, 12)))
        mod, names = c02, c02.NAMES
    runs = []
    inner = vp.Shard()
    for nrun, root in enumerate(ROOTS):
        base = os.path.join(work, "h-%s-%d" % (kind, idx), root)
        os.makedirs(base)
        # a fresh process per run - started in different working directories, with source files of different age (1980, now, 2100)
        mon = vp.Mon("layers", cwd=[None, base, "/proc"][nrun])
        snaps = []
        try:
            mod.run_history(mon, base, "x", steps, names, inner, snapshots_out=snaps, src_mtime=[315532800, None, 4102444800][nrun])
        except vp.ExecutorDied:
            snaps.append({b"<process died>": ("?",)})
        finally:
            mon.close()
        runs.append(snaps)
    vp.rmtree(os.path.join(work, "h-%s-%d" % (kind, idx)))
    sh.evaluations += 1
    case = {"kind": kind, "idx": idx, "steps": mod.jsonable(steps)}
    if compare(runs, "%s history #%d" % (kind, idx), case, sh) and runs[0]:
        if wide_tables(runs[0]):
            sh.nontrivial.add((kind, idx))
        sh.count("snapshots_compared", 3 * len(runs[0]))
        sh.sample({"kind": kind + " history", "steps": len(steps), "snapshots_per_run": len(runs[0]), "observed": "3 fresh processes, byte-identical after every step"}, cap=1)
    return sh.dict()


def rich_case(idx, seed, work, r):
    """typed metadata written through write_metadata, some of it refused (an integer TOML cannot hold): what the layers directory holds
    after every call - after the refused ones too - is the same in every process"""
    sh = vp.Shard()
    vals = [c01.gen_rich(r) for _ in range(r.randint(3, 7))]
    vals.insert(r.randint(1, len(vals)), dict(c01.gen_rich(r), big=2 ** 64 - 1))
    runs = []
    for root in ROOTS:
        base = os.path.join(work, "h-rich-%d" % idx, root)
        layers = os.path.join(base, "layers")
        for d in (layers, os.path.join(base, "app"), os.path.join(base, "bp")):
            os.makedirs(d)
        mon = vp.Mon("layers")
        snaps = []
        try:
            mon.call({"op": "init", "layers_dir": layers, "app_dir": os.path.join(base, "app"), "bp_dir": os.path.join(base, "bp")})
            for k, v in enumerate(vals):
                mon.call({"op": "rich", "name": "rich%d" % (k % 2), "launch": k % 2 == 0, "value": v})
                snaps.append(vp.snapshot(layers))
            # ... and a refused write as the last thing the process does with a layer (no later request that would tidy up after it)
            mon.call({"op": "rich", "name": "rich-last", "launch": True, "value": dict(vals[0], big=2 ** 63), "no_follow_up": True})
            snaps.append(vp.snapshot(layers))
        except vp.ExecutorDied:
            snaps.append({b"<process died>": ("?",)})
        finally:
            mon.close()
        runs.append(snaps)
    vp.rmtree(os.path.join(work, "h-rich-%d" % idx))
    sh.evaluations += 1
    case = {"kind": "rich", "idx": idx, "values": vals}
    if compare(runs, "typed-metadata history #%d" % idx, case, sh) and runs[0]:
        if wide_tables(runs[0]):
            sh.nontrivial.add(("rich", idx))
        sh.count("snapshots_compared", 3 * len(runs[0]))
    return sh.dict()


def phase_script(r):
    labels = [["k%d" % (i % 7), r.choice(tomlw.RND_STRINGS)] for i in range(12)]        # duplicated keys on purpose
    r.shuffle(labels)
    procs = [{"type": "p%d" % i, "command": ["c%d" % i], "args": ["a"], "default": i == 0, **({"wd": [".", "frontend", "", "../app"][i % 4]} if i % 3 else {})} for i in range(6)]
    procs += [{"type": "p%d" % i, "command": ["again-%d" % i], "args": [], "default": False} for i in (1, 4)]      # a process type defined twice
    groups = []
    for g in range(3):
        grp = []
        for i in range(8):
            grp.append(["provides", "prov-%d-%d" % (g, i)])
            grp.append(["requires", "req-%d-%d" % (g, i), tomlw.tagged(dict(WIDE))])
            if i % 3 == 0:
                grp.append(["requires", "req-%d-%d" % (g, i), tomlw.tagged({"again": i})])       # the same name required twice in one alternative
        groups.append(grp)
    small = [[["provides", "s%d" % k], ["requires", "s%d" % k, tomlw.tagged({"k": k})]] for k in range(4)]
    # alternatives that are exact repetitions of an earlier one (of the main alternative, of another alternative, of the one just
    # before) stay where they are: the build plan lists what the buildpack said, in the order it said it
    alts = [groups[0], groups[1], small[0], groups[0], small[1], small[0], groups[2], groups[2], small[2], small[3], small[1]]
    plan = []
    for n, grp in enumerate(alts):
        if n:
            plan.append(["or"])
        plan += [list(x) for x in grp]
        if grp in groups:
            plan.append(["requires_hashmap", "from-hashmap-%d" % groups.index(grp), 12])
    store = dict(WIDE)
    store["nested"] = dict(WIDE)
    return {"detect": {"result": "plan", "plan": plan},
            "build": {"result": "ok", "launch": {"processes": procs, "labels": labels, "plural": r.random() < 0.7,
                                                 "slices": [["a/*"], ["b", "c/**"], ["a/*"], ["d"], ["e/f"], ["b", "c/**"], ["g"], ["h"], ["a/*"]]}, "store": tomlw.tagged(store), "store_hashmap_keys": 12,
                      # (two and three different documents of one format for one target: which of them ends up on disk is the same in every process)
                      # ("cdxbom": a cyclonedx_bom model without serial number, converted by libcnb's optional feature - every third scenario)
                      "build_sboms": ["cdx", "spdx", "syft", "cdx#2", "syft#2", "cdx#3"] if r.random() < 0.67 else ["spdx", "cdxbom"],
                      "launch_sboms": ["syft", "cdx", "syft#2", "syft#3", "cdx#2"] if r.random() < 0.67 else ["cdxbom", "syft"]}}


def phase_case(arg):
    idx, seed, work = arg
    sh = vp.Shard()
    r = vp.rng(seed, "c20-phase", idx)
    script = phase_script(r)
    runs = []
    for nrun, root in enumerate(ROOTS):
        lay = phase.Layout(os.path.join(work, "p-%d" % idx, root))
        lay.create()
        with open(os.path.join(lay.bp, "buildpack.toml"), "w") as f:
            f.write(phase.BP_TOML_OK)
        os.makedirs(os.path.join(lay.platform, "env"))
        with open(lay.plan, "w") as f:
            f.write("")
        snaps = []
        # (the three processes stand in different directories: the app directory as the lifecycle has it, the root, a sub-directory of the app)
        os.makedirs(os.path.join(lay.app, "frontend"), exist_ok=True)
        cwd = [lay.app, lay.root, os.path.join(lay.app, "frontend")][nrun]
        st, marker, err = lay.run("detect", lay.detect_args(), lay.env(), script, cwd=cwd)
        snaps.append(vp.snapshot(lay.root, lambda rel: rel in (b"marker", b"dump.json", b"script.json") or rel.startswith(b"bp")))
        with open(lay.plan, "w") as f:
            # (names required more than once, by several buildpacks: the plan the build logic is shown lists them as the file does, in every process)
            f.write("".join('[[entries]]\nname = "%s"\n[entries.metadata]\nfrom = %d\n' % (n, k) for k, n in enumerate(["x", "node", "y", "node", "x", "node", "z", "y"])))
        st2, marker2, err2 = lay.run("build", lay.build_args(), lay.env(), dict(script, dump=lay.dump), cwd=cwd)
        snap = vp.snapshot(lay.layers)
        try:
            snap[b"<the buildpack plan the build logic was shown>"] = ("f", 0, json.dumps(json.load(open(lay.dump)).get("plan"), sort_keys=True).encode())
        except (OSError, ValueError):
            snap[b"<the buildpack plan the build logic was shown>"] = ("f", 0, b"<no dump>")
        snaps.append(snap)
        if st != 0 or st2 != 0:
            sh.inconclusive.append("phase run failed (detect %d, build %d): %s %s" % (st, st2, err[-200:], err2[-200:]))
        runs.append(snaps)
    vp.rmtree(os.path.join(work, "p-%d" % idx))
    sh.evaluations += 1
    case = {"kind": "phase", "idx": idx}
    if compare(runs, "detect+build scenario #%d" % idx, case, sh):
        sh.nontrivial.add(("phase", idx))
        sh.count("snapshots_compared", 6)
        sh.sample({"kind": "detect+build", "outputs": sorted(k.decode() for k in runs[0][1]), "observed": "3 fresh processes, byte-identical build plan and <layers>"}, cap=1)
    return sh.dict()


def both(arg):
    return phase_case(arg[1:]) if arg[0] == "phase" else history_case(arg)


def run(tier, seed, work):
    res = vp.Result("C20", tier, seed, "exploration")
    nh = 600 if tier == "quick" else 12000
    np_ = 600 if tier == "quick" else 12000
    args = [("c01", i, seed, work) for i in range(nh // 2)] + [("c02", i, seed, work) for i in range(nh // 2)] + [("phase", i, seed, work) for i in range(np_)] + [("rich", i, seed, work) for i in range(nh // 10)]
    for d in vp.pimap(both, args, chunksize=4):
        res.merge(d)
    res.rule = ("evaluations = scenarios executed in three fresh processes under three different work-dir roots and compared byte for byte after every step. distinct_nontrivial = distinct scenarios "
                "whose outputs contain at least one TOML table with >=6 lines (wide tables: 12-key metadata/store tables, 12 labels with duplicated keys, 8 provides/requires per or-group, 8 per-process env dirs)")
    res.assumptions = ["each run is a fresh OS process, so std's RandomState is re-seeded; work-dir roots differ in length and depth; absolute paths never occur inside generated values"]
    return res


def replay(case, work):
    res = vp.Result("C20", "quick", 0, "exploration")
    seed = int(os.environ.get("VERIF_SEED", "0"))
    if case["kind"] == "phase":
        res.merge(phase_case((case["idx"], seed, work)))
    else:
        res.merge(history_case((case["kind"], case["idx"], seed, work)))
    res.nontrivial.update({"replay-a", "replay-b"})
    res.rule = "replay of one recorded scenario (regenerated from VERIF_SEED and its index)"
    res.sample({"kind": case["kind"], "idx": case["idx"]})
    return res
