"""C10 — implicit layer paths: from directories only, build/launch only, never persisted."""
import itertools
import os

import envmodel
import vp
from vp import hx
from c04 import enc_entries, enc_queries, dec_env

SUBS = [b"bin", b"lib", b"include", b"pkgconfig"]
KINDS = ["absent", "dir", "file", "ln-dir", "ln-file", "dangling"]
XKINDS = KINDS + ["ln-ln-dir", "loop", "fifo", "ln-abs-dir"]     # thorough extras
EXPLICIT = {
    "none": [],
    "path-append-all": [("all", "append", b"PATH", b"/extra/bin"), ("all", "delim", b"PATH", b":")],
    "path-override-build": [("build", "override", b"PATH", b"/only")],
    "ldlib-prepend-launch": [("launch", "prepend", b"LD_LIBRARY_PATH", b"/pre"), ("launch", "delim", b"LD_LIBRARY_PATH", b";")],
    # append / prepend on an implicit-path variable WITHOUT a delimiter file: nothing may be invented on read (or written back)
    "path-append-nodelim": [("all", "append", b"PATH", b"/extra/bin")],
    "libs-prepend-nodelim": [("build", "prepend", b"LIBRARY_PATH", b"/pre"), ("launch", "append", b"LD_LIBRARY_PATH", b"/post"), ("all", "prepend", b"PKG_CONFIG_PATH", b"/pc")],
    # a delimiter file whose appends live in OTHER env directories: it stays where it is across read -> write cycles
    "lone-delim": [("all", "delim", b"LD_LIBRARY_PATH", b";"), ("build", "append", b"LD_LIBRARY_PATH", b"/b"), ("launch", "prepend", b"LD_LIBRARY_PATH", b"/l"), ("launch", "delim", b"PATH", b":")],
    # an empty delimiter is a delimiter: the file exists, reads back, and is written back
    "empty-delim": [("all", "prepend", b"PATH", b"/opt/tool/bin:"), ("all", "delim", b"PATH", b""), ("launch", "append", b"LD_LIBRARY_PATH", b"/x"), ("launch", "delim", b"LD_LIBRARY_PATH", b""),
                    ("build", "delim", b"CPATH", b"")],
    # paths are bytes: an entry that is not valid UTF-8 survives reading and writing back byte for byte
    "raw-bytes": [("all", "append", b"PATH", b"/opt/\xff\xfe/bin"), ("all", "delim", b"PATH", b":"), ("launch", "override", b"LD_LIBRARY_PATH", b"/l\xe9b"), ("build", "prepend", b"CPATH", b"\x80")],
    "cpath-default-build+proc": [("build", "default", b"CPATH", b"/dflt"), ("process:web", "override", b"PATH", b"/procpath")],
}
STARTS = [{}, {b"PATH": b"/usr/bin", b"LD_LIBRARY_PATH": b"", b"CPATH": b"c"},
          {b"PATH": b"p", b"LD_LIBRARY_PATH": b"l", b"LIBRARY_PATH": b"L", b"CPATH": b"C", b"PKG_CONFIG_PATH": b"P"}]
BASE_QUERIES = [(s, st) for s in ["all", "build", "launch", "process:web", "process:none"] for st in STARTS]
IMPLICIT_VARS = [b"PATH", b"LD_LIBRARY_PATH", b"LIBRARY_PATH", b"CPATH", b"PKG_CONFIG_PATH"]


def materialise(d, assignment):
    os.mkdir(d)
    os.mkdir(os.path.join(d, b"_d"))
    with open(os.path.join(d, b"_f"), "wb") as f:
        f.write(b"f")
    # directories with the implicit names one level further down (lib/pkgconfig, share/bin, ...) mean nothing
    for inner in SUBS:
        os.makedirs(os.path.join(d, b"_d", inner))
        os.makedirs(os.path.join(d, b"share", inner))
    for sub, kind in zip(SUBS, assignment):
        p = os.path.join(d, sub)
        if kind == "dir":
            os.mkdir(p)
            for inner in SUBS:
                os.mkdir(os.path.join(p, inner))
        elif kind == "file":
            with open(p, "wb") as f:
                f.write(b"x")
        elif kind == "ln-dir":
            os.symlink(b"_d", p)
        elif kind == "ln-file":
            os.symlink(b"_f", p)
        elif kind == "dangling":
            os.symlink(b"_nope", p)
        elif kind == "ln-ln-dir":
            os.symlink(b"_d", p + b".hop")
            os.symlink(os.path.basename(p) + b".hop", p)
        elif kind == "loop":
            os.symlink(os.path.basename(p), p)
        elif kind == "fifo":
            os.mkfifo(p)
        elif kind == "ln-abs-dir":
            os.symlink(os.path.join(d, b"_d"), p)


def run_case(mon, base, idx, dname, assignment, xname, sh):
    real = os.path.join(base, b"c%d" % idx, dname)
    os.mkdir(os.path.dirname(real))
    case = {"assignment": list(assignment), "explicit": xname, "dirname": hx(dname)}
    d = real
    try:
        materialise(real, assignment)
        # the layer dir as the caller names it: plainly, through a symlinked ancestor, or with '.' / '..' segments.
        # The implicit entries are <layer>/bin etc. for the path that was given.
        style = idx % 4
        if style == 1:
            os.symlink(os.path.dirname(real), os.path.dirname(real) + b"-link")
            d = os.path.join(os.path.dirname(real) + b"-link", dname)
        elif style == 2:
            os.mkdir(os.path.join(os.path.dirname(real), b"x"))
            d = os.path.join(os.path.dirname(real), b"x", b"..", b".", dname)
        case["path_style"] = ["plain", "symlinked-ancestor", "dot-segments", "plain"][style]
        entries = EXPLICIT[xname]
        if entries and idx % 3 == 2:
            # the env files as an earlier build (or another tool) left them: laid down by hand in the spec's layout, not through libcnb
            for rel, content in envmodel.expected_tree(entries).items():
                p = os.path.join(real, rel)
                os.makedirs(os.path.dirname(p), exist_ok=True)
                with open(p, "wb") as f:
                    f.write(content)
            case["env_files"] = "laid down by hand"
            if idx % 5 == 0 and os.path.isdir(os.path.join(real, b"env")):
                # ... one of them a symbolic link whose target is gone (a stale link from an earlier run): reading such a layer either fails
                # or reads everything else - it does not quietly come back with less
                os.symlink(b"/nonexistent/vp/target", os.path.join(real, b"env", b"GONE.override"))
                case["dangling_env_file"] = True
        elif entries:
            rep = mon.call({"op": "write", "dir": hx(d), "entries": enc_entries(entries)})
            if "err" in rep:
                sh.violation("write:error", "write_to_layer_dir failed: %s" % rep["detail"], case)
                return
        before = vp.snapshot(d)
        want_files = {k: v for k, v in envmodel.expected_tree(entries).items()}
        got_files = {k: e[2] for k, e in before.items() if e[0] == "f" and k.split(b"/")[0] in (b"env", b"env.build", b"env.launch")}
        if got_files != want_files:
            sh.violation("write:layout", "the env files after writing %s are %r, the spec layout is %r" % (xname, sorted(got_files), sorted(want_files)), case)
            return
        # starting environments that already mention the layer's own directories (a second application, an earlier buildpack
        # having exported them): the implicit entries are prepended all the same
        own = [{b"PATH": b"/usr/bin:" + os.path.join(d, b"bin"), b"LD_LIBRARY_PATH": os.path.join(d, b"lib"), b"LIBRARY_PATH": os.path.join(d, b"lib") + b":/x",
                b"CPATH": os.path.join(d, b"include"), b"PKG_CONFIG_PATH": b"/p:" + os.path.join(d, b"pkgconfig") + b":/q"}]
        QUERIES = BASE_QUERIES + [(sc, st) for sc in ["all", "build", "launch", "process:web"] for st in own]
        for cycle in range(4):
            rep = mon.call({"op": "read_apply", "dir": hx(d), "queries": enc_queries(QUERIES), "vanish": cycle == 2 and idx % 3 == 0 and style == 0})
            if "err" in rep and case.get("dangling_env_file"):
                sh.count("unreadable_env_file_reported")
                sh.nontrivial.add(("dangling-env-file", xname))
                return
            if "err" in rep:
                sh.violation("read:error", "read_from_layer_dir failed on %r: %s" % (assignment, rep["detail"]), case)
                return
            for i, (scope, start) in enumerate(QUERIES):
                sh.evaluations += 1
                want = envmodel.apply(entries, scope, start, layer_dir=d)
                got = dec_env(rep["results"][i]["result"])
                if got != want:
                    keys = sorted(k for k in set(got) | set(want) if got.get(k) != want.get(k))
                    sh.violation("implicit:%s:%s" % (scope.split(":")[0], keys[0].decode()),
                                 "layer %r (explicit %s), cycle %d: apply(%s, %r) gives %r, expected %r"
                                 % (dict(zip([s.decode() for s in SUBS], assignment)), xname, cycle, scope, start,
                                    {k: got.get(k) for k in keys}, {k: want.get(k) for k in keys}), case)
                    return
            if cycle == 3:
                break
            rep = mon.call({"op": "read_write", "dir": hx(d)})
            if "err" in rep:
                sh.violation("cycle:error", "read->write cycle %d failed: %s" % (cycle, rep["detail"]), case)
                return
            after = vp.snapshot(d)
            if after != before:
                sh.violation("cycle:persisted", "read->write cycle %d changed the layer directory: %s"
                             % (cycle + 1, vp.snap_diff(before, after)), case)
                return
            sh.count("cycles")
        if idx % 4 == 1 and "absent" in assignment:
            # the same process reads the same layer once more after one of the standard directories has appeared - with the layer directory's
            # timestamp put back to what it was (a restored cache, a tool that preserves times): what counts is what is there now
            sub = SUBS[list(assignment).index("absent")]
            st = os.stat(real)
            os.mkdir(os.path.join(real, sub))
            os.utime(real, ns=(st.st_atime_ns, st.st_mtime_ns))
            rep = mon.call({"op": "read_apply", "dir": hx(d), "queries": enc_queries(QUERIES)})
            if "err" in rep:
                sh.violation("read:error", "read_from_layer_dir failed on the re-read: %s" % rep["detail"], case)
                return
            for i, (scope, start) in enumerate(QUERIES):
                sh.evaluations += 1
                want = envmodel.apply(entries, scope, start, layer_dir=d)
                got = dec_env(rep["results"][i]["result"])
                if got != want:
                    keys = sorted(k for k in set(got) | set(want) if got.get(k) != want.get(k))
                    sh.violation("implicit:reread:%s" % keys[0].decode(), "layer %r after %s/ appeared (layer directory mtime unchanged), same process: apply(%s, %r) gives %r, expected %r"
                                 % (dict(zip([s_.decode() for s_ in SUBS], assignment)), sub.decode(), scope, start, {k: got.get(k) for k in keys}, {k: want.get(k) for k in keys}), case)
                    return
            sh.count("rereads_after_change")
        if any(k not in ("absent", "dir") for k in assignment):
            sh.nontrivial.add((tuple(assignment), xname))
            sh.sample({"layer": dict(zip([s.decode() for s in SUBS], assignment)), "explicit": xname,
                       "observed": "15 probes x 4 reads equal to the implicit-path table; env roots byte-identical over 3 read->write cycles"}, cap=1)
    finally:
        vp.rmtree(os.path.dirname(real))
        if os.path.lexists(os.path.dirname(real) + b"-link"):
            os.unlink(os.path.dirname(real) + b"-link")


def shard_run(arg):
    items, base = arg
    sh = vp.Shard()
    mon = vp.Mon("env")
    wbase = os.path.join(base.encode(), b"w%d" % os.getpid())
    os.makedirs(wbase, exist_ok=True)
    try:
        for idx, dname, assignment, xname in items:
            run_case(mon, wbase, idx, dname, assignment, xname, sh)
    finally:
        mon.close()
        vp.rmtree(wbase)
    return sh.dict()


def run(tier, seed, work):
    res = vp.Result("C10", tier, seed, "exploration")
    r = vp.rng(seed, "c10")
    cases = []
    xnames = list(EXPLICIT)
    base_assignments = list(itertools.product(KINDS, repeat=4))
    for a in base_assignments:
        for x in xnames:
            cases.append((len(cases), b"layer", a, x))
    dnames = [b"with space", b"caf\xc3\xa9", b"\xff\xfe", b"dot.ted", b"-dash", b"registry.local:5000_app", b":", b"a;b", b"$HOME"]      # ':' is the path-list separator
    if True:
        for _ in range(3000 if tier == "quick" else 200000):
            a = tuple(r.choice(XKINDS) for _ in range(4))
            cases.append((len(cases), r.choice(dnames), a, r.choice(xnames)))
    shards = [(s, work) for s in vp.split(cases, vp.NCPU * 2)]
    for d in vp.pmap(shard_run, shards):
        res.merge(d)
    res.exhaustive = True
    res.extra["exhaustive_bound"] = ("all 6^4 assignments of {absent, dir, file, symlink->dir, symlink->file, dangling} to bin/lib/include/pkgconfig"
                                     + " x all %d explicit-entry kinds" % len(xnames)
                                     + " x 5 query scopes x 3 starting envs x 4 reads with 3 read->write cycles")
    res.extra["layer_dirs"] = len(cases)
    res.rule = ("evaluations = apply() probes compared with the implicit-path table. distinct_nontrivial = distinct (assignment, explicit kind) "
                "pairs in which at least one of the four paths is something other than absent/plain directory")
    res.assumptions = ["implicit entries are prepended to the result of the explicit deltas of the same scope (the literal reading of the statement); "
                       "the order relative to explicit entries is not otherwise judged",
                       "env directories in the fix-point part are always written by libcnb itself"]
    return res


def replay(case, work):
    res = vp.Result("C10", "quick", 0, "exploration")
    sh = vp.Shard()
    mon = vp.Mon("env")
    run_case(mon, work.encode(), 0, bytes.fromhex(case["dirname"]), tuple(case["assignment"]), case["explicit"], sh)
    mon.close()
    sh.nontrivial.update({"replay-a", "replay-b"})
    res.merge(sh.dict())
    res.rule = "replay of one recorded case"
    res.sample(case)
    return res
