"""C15 — `cargo libcnb package` writes complete buildpack directories, also over stale or
interrupted output. The real cargo-libcnb executable (built from /repo) packages generated
workspaces; the package tree and stdout are judged against a specification of the output and
against the tree of a clean run; crash points come from the LD_PRELOAD injector."""
import os
import zlib
import posixpath
import shutil
import subprocess
import tomllib

import tomlw
import vp

TRIPLE = "x86_64-unknown-linux-gnu"
SHIM_MUT = "open_w,write,mkdir,unlink,rmdir,rename,chmod,symlink,link,truncate"


# The quick tier packages six workspaces: their layout features are not left to chance (every run sees a composite with its own Cargo.toml, ids with
# several '/', buildpacks nested beneath a composite, a composite without any libcnb: dependency but with a relative path, no composite at all, ...).
# From the seventh workspace on everything is drawn at random.
FORCED = {0: {"ncomps": 1, "multi_slash": True, "nested": False, "cargo_toml": None, "zero_dep": None, "case_twin": False},
          1: {"ncomps": 2, "multi_slash": False, "nested": False, "cargo_toml": 0, "zero_dep": 1, "case_twin": True, "n_bp": 3},
          2: {"ncomps": 1, "multi_slash": False, "nested": True, "cargo_toml": None, "zero_dep": None},
          3: {"ncomps": 2, "multi_slash": True, "nested": True, "cargo_toml": 1, "zero_dep": None, "case_twin": False},
          4: {"ncomps": 0, "multi_slash": False, "nested": False, "cargo_toml": None, "zero_dep": None, "case_twin": True, "n_bp": 2},
          5: {"ncomps": 1, "multi_slash": False, "nested": False, "cargo_toml": None, "zero_dep": 0}}


OTHER_DEPS = ["docker://docker.io/heroku/procfile-cnb:2.0.1", "../../vendor/other-bp", "./sub/../local-bp", "urn:cnb:registry:heroku/nodejs@1.2.3", "/abs/elsewhere",
              "/abs/vendor/current/../bash-bp", "docker://Docker.IO/Heroku/Example:1.2.3", "https://example.com/%7Euser/a/./b.cnb"]


def gen_workspace(r, widx):
    """-> description dict"""
    force = FORCED.get(widx, {})
    n_bp = force.get("n_bp", r.randint(1, 4))
    bps = []
    for i in range(n_bp):
        name = "bp%d%s" % (i, r.choice(["", "-x", "_y"]))
        # "helper-<i>" is unique in the workspace; "tool2" may exist in several crates (same artifact path in the shared target dir)
        extra = r.sample(["helper-%d" % i, "tool2"], r.choice([0, 0, 1, 2]))
        # the main binary target is normally named after the package; a crate with exactly one [[bin]] of another name is legal too
        main_bin = name if (extra or r.random() < 0.6) else "launcher-%d" % i
        bps.append({"kind": "libcnb", "id": "%s/%s" % (r.choice(["acme", "vp", "a.b"]), name.replace("_", ".")), "dir": "buildpacks/%s" % name, "crate": name, "extra_bins": extra, "main_bin": main_bin})
    if len(bps) >= 2 and (r.random() < 0.2 if "case_twin" not in force else force["case_twin"]):
        # two buildpacks whose ids differ in the case of one letter only: two buildpacks, two output directories
        ns, nm = bps[0]["id"].split("/", 1)
        bps[1]["id"] = "%s/%s" % (ns.capitalize() if ns.capitalize() != ns else ns.upper(), nm)
    comps = []
    for j in range(force.get("ncomps", r.choice([0, 1, 1, 2]))):
        pool = bps + comps
        deps = []
        # (a composite may also depend on nothing that is built here: paths and images only)
        for d in r.sample(pool, r.randint(0 if j == 1 or r.random() < 0.25 else 1, min(3, len(pool)))):
            deps.append("libcnb:" + d["id"])
        if force.get("zero_dep") == j:
            deps = ["../../vendor/other-bp"]
        elif "zero_dep" in force and not deps:
            deps.append("libcnb:" + pool[0]["id"])
        if force and force.get("zero_dep") != j:
            # the covering workspaces: the other dependencies rotate through the whole list (three per composite), and they are interleaved with
            # the libcnb: ones so that a libcnb: dependency follows a path / image dependency
            extras = [OTHER_DEPS[(widx * 5 + j * 3 + k) % len(OTHER_DEPS)] for k in range(3)]
            lib = list(deps)
            deps = []
            while lib or extras:
                if extras:
                    deps.append(extras.pop(0))
                if lib:
                    deps.append(lib.pop(0))
        else:
            for _ in range(r.choice([0, 1, 2]) if deps else r.choice([1, 2])):
                deps.append(r.choice(OTHER_DEPS))      # copied verbatim
            r.shuffle(deps)
        comps.append({"kind": "composite", "id": "meta/comp%d" % j, "dir": "meta/comp%d" % j, "deps": deps, "os": r.choice([None, "linux", "windows", "windows"]),
                      "bp_uri": r.choice([".", ".", "./"])})
    # nested layout: move some libcnb buildpacks beneath a composite's directory (dependencies of it or not)
    for k, b in enumerate(bps):
        if comps and (r.random() < 0.35 if "nested" not in force else force["nested"] and k == 0):
            b["dir"] = "%s/nested/%s" % ((r.choice(comps) if "nested" not in force else comps[0])["dir"], b["crate"])
    # ids with more than one '/': "meta/comp0/extra" is a buildpack of its own, and its output directory is not inside that of "meta/comp0"
    if comps and (r.random() < 0.4 if "multi_slash" not in force else force["multi_slash"]):
        old = bps[0]["id"]
        bps[0]["id"] = comps[0]["id"] + "/extra"
        for c in comps:
            c["deps"] = ["libcnb:" + bps[0]["id"] if d == "libcnb:" + old else d for d in c["deps"]]
        if "libcnb:" + bps[0]["id"] not in comps[0]["deps"]:
            comps[0]["deps"].append("libcnb:" + bps[0]["id"])
    # a composite whose directory also holds a Cargo.toml (it is still a composite: it has an order)
    for j, c in enumerate(comps):
        lib = [d for d in c["deps"] if d.startswith("libcnb:")]
        c["ungrouped"] = lib[-1] if len(lib) >= 2 and (r.random() < 0.5 if not force else widx % 2 == 1) else None
        c["cargo_toml"] = (r.random() < 0.3 if "cargo_toml" not in force else force["cargo_toml"] == j) and not any(b["dir"].startswith(c["dir"] + "/") for b in bps)
    # where cargo puts its artifacts: the default, CARGO_TARGET_DIR pointing outside the workspace, or [build] target-dir in .cargo/config.toml
    return {"idx": widx, "bps": bps, "comps": comps, "foreign": r.random() < 0.6, "target_mode": r.choice(["default", "default", "unset", "env-elsewhere", "config"])}


TARGET_OF = {}      # workspace root -> (mode, absolute target dir)


def styled(text, key):
    """buildpack.toml is carried over byte for byte: its line ends and trailing blanks are the author's (CRLF, no final newline, trailing blanks and a BOM-free comment
    tail are all valid TOML). The spelling is a function of the buildpack id, so that every run sees all of them."""
    k = zlib.crc32(key.encode()) % 5
    if k == 1:
        return text.replace("\n", "\r\n")
    if k == 2:
        return text.rstrip("\n")
    if k == 3:
        return text.replace("\n\n", " \t\n\n") + "\n\n# tail comment without newline"
    return text


def write_workspace(root, ws):
    os.makedirs(root)
    with open(os.path.join(root, "Cargo.toml"), "w") as f:
        f.write("[workspace]\nresolver = \"2\"\nmembers = [%s]\n" % ", ".join('"%s"' % b["dir"] for b in ws["bps"]))
    with open(os.path.join(root, ".ignore"), "w") as f:
        f.write("target/\npackaged/\nout-custom/\nbuild-out/\n%s/\n" % TRIPLE)
    mode = ws.get("target_mode", "default")
    TARGET_OF[root] = (mode, {"env-elsewhere": root + "-artifacts", "config": os.path.join(root, "build-out")}.get(mode, os.path.join(root, "target")))
    if mode == "config":
        os.makedirs(os.path.join(root, ".cargo"))
        with open(os.path.join(root, ".cargo", "config.toml"), "w") as f:
            f.write('[build]\ntarget-dir = "build-out"\n')
    for b in ws["bps"]:
        d = os.path.join(root, b["dir"])
        os.makedirs(os.path.join(d, "src", "bin"))
        with open(os.path.join(d, "Cargo.toml"), "w") as f:
            f.write('[package]\nname = "%s"\nversion = "0.1.0"\nedition = "2021"\n' % b["crate"])
            if b["main_bin"] != b["crate"]:
                f.write('\n[[bin]]\nname = "%s"\npath = "src/main.rs"\n' % b["main_bin"])
        with open(os.path.join(d, "buildpack.toml"), "w", newline="") as f:
            f.write(styled('api = "0.10"\n\n[buildpack]\nid = "%s"\nversion = "0.1.0"\n# a comment that must survive byte for byte\n\n[[targets]]\nos = "linux"\narch = "amd64"\n' % b["id"], b["id"]))
        with open(os.path.join(d, "src", "main.rs"), "w") as f:
            f.write('fn main() { println!("main of %s"); }\n' % b["crate"])
        for e in b["extra_bins"]:
            with open(os.path.join(d, "src", "bin", e + ".rs"), "w") as f:
                f.write('fn main() { println!("%s of %s"); }\n' % (e, b["crate"]))
    for c in ws["comps"]:
        d = os.path.join(root, c["dir"])
        os.makedirs(d, exist_ok=True)
        # (a dependency of package.toml need not be named by the composite's own order: c["ungrouped"] is one that is not)
        groups = "".join('[[order.group]]\nid = "%s"\nversion = "0.1.0"\n' % dep[len("libcnb:"):] for dep in c["deps"] if dep.startswith("libcnb:") and dep != c.get("ungrouped"))
        if not groups:
            # (an order needs at least one group: a composite of buildpacks that are not built here names one of those)
            groups = '[[order.group]]\nid = "external/procfile"\nversion = "2.0.1"\n'

        with open(os.path.join(d, "buildpack.toml"), "w", newline="") as f:
            f.write(styled('api = "0.10"\n\n[buildpack]\nid = "%s"\nversion = "0.1.0"\n\n[[order]]\n%s' % (c["id"], groups), c["id"]))
        if c.get("cargo_toml"):
            with open(os.path.join(d, "Cargo.toml"), "w") as f:
                f.write('[package]\nname = "%s-helper"\nversion = "0.0.0"\nedition = "2021"\n' % c["id"].replace("/", "-"))
            os.makedirs(os.path.join(d, "src"))
            with open(os.path.join(d, "src", "lib.rs"), "w") as f:
                f.write("")
        with open(os.path.join(d, "package.toml"), "w") as f:
            d = {"buildpack": {"uri": c["bp_uri"]}, "dependencies": [{"uri": u} for u in c["deps"]]}
            if c["os"]:
                d["platform"] = {"os": c["os"]}
            f.write(tomlw.selfcheck(d))
    if ws["foreign"]:
        d = os.path.join(root, "other", "shell-bp")
        os.makedirs(d)
        with open(os.path.join(d, "buildpack.toml"), "w") as f:
            f.write('api = "0.10"\n\n[buildpack]\nid = "other/shell"\nversion = "1.0.0"\n')
        # another tool's buildpack whose buildpack.toml uses keys libcnb's data types do not know: not a libcnb.rs buildpack, passed over
        d = os.path.join(root, "other", "exotic-bp")
        os.makedirs(d)
        with open(os.path.join(d, "buildpack.toml"), "w") as f:
            f.write('api = "0.10"\n\n[buildpack]\nid = "other/exotic"\nversion = "1.0.0"\n\n[[targets]]\nos = "linux"\narch = "amd64"\n[[targets.distributions]]\nname = "ubuntu"\nversions = ["24.04"]\n')
    os.makedirs(os.path.join(root, "docs"))
    os.makedirs(os.path.join(root, "buildpacks"), exist_ok=True)


def closure(ws, ids):
    by = {x["id"]: x for x in ws["bps"] + ws["comps"]}
    seen = set()
    stack = list(ids)
    while stack:
        i = stack.pop()
        if i in seen:
            continue
        seen.add(i)
        for dep in by[i].get("deps", []):
            if dep.startswith("libcnb:"):
                stack.append(dep[len("libcnb:"):])
    return seen


def run_package(cargo_libcnb, root, cwd, profile, package_dir=None, extra_env=None):
    args = [cargo_libcnb, "libcnb", "package", "--target", TRIPLE]
    if profile == "release":
        args.append("--release")
    if package_dir:
        args += ["--package-dir", package_dir]
    env = dict(os.environ)
    env.update(vp.hostile_env(cargo=True))      # (a home directory whose git ignore files ignore everything, a stale $PWD, ...)
    env.update({"CARGO": shutil.which("cargo"), "CARGO_NET_OFFLINE": "true", "CARGO_TERM_COLOR": "never"})
    mode, tdir = TARGET_OF.get(root, ("default", os.path.join(root, "target")))
    env.pop("CARGO_TARGET_DIR", None)
    env.pop("CARGO_BUILD_TARGET_DIR", None)
    if mode in ("default", "env-elsewhere"):
        env["CARGO_TARGET_DIR"] = tdir
    env.pop("RUSTFLAGS", None)
    env.pop("CI", None)
    env.pop("GITHUB_ACTIONS", None)
    if extra_env:
        env.update(extra_env)
    p = subprocess.run(args, cwd=cwd, env=env, stdout=subprocess.PIPE, stderr=subprocess.PIPE, timeout=600)
    return p.returncode, p.stdout.decode(), p.stderr.decode()


def expected_tree(ws, root, selected_ids, profile, pdir):
    """{relative path under package dir: entry} for everything that must exist"""
    prof = "debug" if profile == "dev" else "release"
    base = "%s/%s" % (TRIPLE, prof)
    out = {TRIPLE.encode(): ("d",), base.encode(): ("d",)}
    by = {x["id"]: x for x in ws["bps"] + ws["comps"]}

    def odir(i):
        return "%s/%s" % (base, i.replace("/", "_"))
    for i in closure(ws, selected_ids):
        x = by[i]
        d = odir(i)
        out[d.encode()] = ("d",)
        out[(d + "/buildpack.toml").encode()] = ("f", open(os.path.join(root, x["dir"], "buildpack.toml"), "rb").read())
        if x["kind"] == "libcnb":
            tdir = os.path.join(TARGET_OF.get(root, ("default", os.path.join(root, "target")))[1], TRIPLE, prof)
            out[(d + "/bin").encode()] = ("d",)
            out[(d + "/bin/build").encode()] = ("f", open(os.path.join(tdir, x["main_bin"]), "rb").read())
            out[(d + "/bin/detect").encode()] = ("l", b"build")
            if x["extra_bins"]:
                out[(d + "/.libcnb-cargo").encode()] = ("d",)
                out[(d + "/.libcnb-cargo/additional-bin").encode()] = ("d",)
                shared = {e for e in x["extra_bins"] if sum(e in b["extra_bins"] for b in ws["bps"]) > 1}
                for e in x["extra_bins"]:
                    if e in shared:     # the artifact path is reused by another crate: identify the binary by the string it prints
                        out[(d + "/.libcnb-cargo/additional-bin/" + e).encode()] = ("elf", ("%s of %s" % (e, x["crate"])).encode())
                    else:
                        out[(d + "/.libcnb-cargo/additional-bin/" + e).encode()] = ("f", open(os.path.join(tdir, e), "rb").read())
            out[(d + "/package.toml").encode()] = ("toml", {"buildpack": {"uri": "."}})
        else:
            deps = []
            for u in x["deps"]:
                if u.startswith("libcnb:"):
                    deps.append(os.path.join(pdir, odir(u[len("libcnb:"):])))
                elif ":" in u.split("/")[0] or u.startswith("/"):
                    deps.append(u)
                else:
                    deps.append(posixpath.normpath(posixpath.join(root, x["dir"], u)))
            out[(d + "/package.toml").encode()] = ("toml", {"buildpack": {"uri": x["bp_uri"]}, "dependencies": [{"uri": u} for u in deps], "platform": {"os": x["os"] or "linux"}})
    return out


def compare_tree(snap, want, scope_prefix=None):
    """-> list of difference strings. snap from vp.snapshot(package dir)."""
    diffs = []
    for k, w in want.items():
        g = snap.get(k)
        if g is None:
            diffs.append("%s is missing" % k.decode())
        elif w[0] == "d" and g[0] != "d":
            diffs.append("%s is not a directory (%s)" % (k.decode(), g[0]))
        elif w[0] == "f" and (g[0] != "f" or g[2] != w[1]):
            diffs.append("%s differs from its source (%s, %d bytes vs %d)" % (k.decode(), g[0], len(g[2]) if g[0] == "f" else -1, len(w[1])))
        elif w[0] == "elf" and (g[0] != "f" or not g[2].startswith(b"\x7fELF") or w[1] not in g[2]):
            diffs.append("%s is not the binary of this crate (expected an ELF file containing %r)" % (k.decode(), w[1]))
        elif w[0] == "l" and (g[0] != "l" or g[1] != w[1]):
            diffs.append("%s should be a link to %r, is %r" % (k.decode(), w[1], g[:2]))
        elif w[0] == "toml":
            try:
                d = tomllib.loads(g[2].decode()) if g[0] == "f" else None
            except Exception as e:  # noqa: BLE001
                d = "unparsable: %s" % e
            ww = dict(w[1])
            if isinstance(d, dict) and "platform" not in ww:
                d = {kk: vv for kk, vv in d.items() if kk != "platform" or vv != {"os": "linux"}}
                d = {kk: vv for kk, vv in d.items() if not (kk == "dependencies" and vv == [])}
            if d != ww:
                diffs.append("%s reads %r, expected %r" % (k.decode(), d, ww))
    for k in snap:
        if k not in want and (scope_prefix is None or k.startswith(scope_prefix)):
            diffs.append("unexpected entry %s (%s)" % (k.decode(errors="replace"), snap[k][0]))
    return diffs


PRESEEDS = ["outdir-dangling-symlink", "outdir-symlink-to-dirty-dir", "extra-files", "file-where-bin-dir", "detect-regular-file", "build-is-dir", "dir-where-buildpack-toml", "nested-stale-tree", "stale-additional-bin", "old-package-toml",
            "dangling-links"]


def preseed(kind, odir):
    """plant foreign / partial content in one buildpack's output dir (which may not exist yet)"""
    if kind == "outdir-is-file":
        os.makedirs(os.path.dirname(odir), exist_ok=True)
        vp.rmtree(odir)
        with open(odir, "w") as f:
            f.write("a file where the output directory belongs")
        return
    if kind in ("outdir-dangling-symlink", "outdir-symlink-to-dirty-dir"):
        os.makedirs(os.path.dirname(odir), exist_ok=True)
        vp.rmtree(odir)
        elsewhere = os.path.join(os.path.dirname(os.path.dirname(os.path.dirname(os.path.dirname(odir)))), "elsewhere-" + os.path.basename(odir))
        vp.rmtree(elsewhere)
        if kind == "outdir-symlink-to-dirty-dir":
            os.makedirs(os.path.join(elsewhere, "bin"))
            with open(os.path.join(elsewhere, "STALE"), "w") as f:
                f.write("must stay untouched and must not show up in the package")
        os.symlink(elsewhere, odir)
        return
    os.makedirs(odir, exist_ok=True)
    if kind == "extra-files":
        for rel in ("STALE.txt", "bin/old-binary", ".hidden/x", "lib/deep/er/file"):
            os.makedirs(os.path.dirname(os.path.join(odir, rel)), exist_ok=True)
            with open(os.path.join(odir, rel), "w") as f:
                f.write("stale")
    elif kind == "file-where-bin-dir":
        vp.rmtree(os.path.join(odir, "bin"))
        with open(os.path.join(odir, "bin"), "w") as f:
            f.write("not a dir")
    elif kind == "detect-regular-file":
        os.makedirs(os.path.join(odir, "bin"), exist_ok=True)
        vp.rmtree(os.path.join(odir, "bin", "detect"))
        with open(os.path.join(odir, "bin", "detect"), "w") as f:
            f.write("old detect")
    elif kind == "build-is-dir":
        vp.rmtree(os.path.join(odir, "bin", "build"))
        os.makedirs(os.path.join(odir, "bin", "build", "x"))
    elif kind == "dir-where-buildpack-toml":
        vp.rmtree(os.path.join(odir, "buildpack.toml"))
        os.makedirs(os.path.join(odir, "buildpack.toml", "sub"))
    elif kind == "nested-stale-tree":
        os.makedirs(os.path.join(odir, "a", "b", "c"), exist_ok=True)
        with open(os.path.join(odir, "a", "b", "c", "f"), "w") as f:
            f.write("x")
        os.chmod(os.path.join(odir, "a", "b"), 0o555)
    elif kind == "stale-additional-bin":
        os.makedirs(os.path.join(odir, ".libcnb-cargo", "additional-bin"), exist_ok=True)
        with open(os.path.join(odir, ".libcnb-cargo", "additional-bin", "removed-target"), "w") as f:
            f.write("binary of a target that no longer exists")
    elif kind == "old-package-toml":
        with open(os.path.join(odir, "package.toml"), "w") as f:
            f.write('[buildpack]\nuri = "."\n\n[[dependencies]]\nuri = "/stale/dependency"\n' + "# padding\n" * 50)
    elif kind == "dangling-links":
        os.symlink("nowhere", os.path.join(odir, "dangling"))
        os.makedirs(os.path.join(odir, "bin"), exist_ok=True)
        if not os.path.lexists(os.path.join(odir, "bin", "build")):
            os.symlink("detect", os.path.join(odir, "bin", "build"))
        if not os.path.lexists(os.path.join(odir, "bin", "detect")):
            os.symlink("build", os.path.join(odir, "bin", "detect"))


def judge_run(ws, root, cwd_rel, profile, pdir, rc, out, err, sh, case, what, also_present=()):
    """full specification check of one successful packaging run"""
    by_dir = {x["dir"]: x for x in ws["bps"] + ws["comps"]}
    if cwd_rel == ".":
        selected = [x["id"] for x in ws["bps"] + ws["comps"]]
    elif cwd_rel in by_dir:
        selected = [by_dir[cwd_rel]["id"]]
    else:
        selected = []
    if not selected:
        if rc == 0:
            sh.violation("nothing-selected-exit0", "%s: no buildpack is selected from %s, yet exit 0 and stdout %r" % (what, cwd_rel, out), case)
            return False
        return True
    if rc != 0:
        sh.violation("package-failed", "%s failed (exit %d): %s" % (what, rc, err[-400:]), case)
        return False
    prof = "debug" if profile == "dev" else "release"
    want_stdout = sorted(os.path.join(pdir, TRIPLE, prof, i.replace("/", "_")) for i in selected)
    got_stdout = sorted(line for line in out.split("\n") if line)
    if got_stdout != want_stdout:
        sh.violation("stdout", "%s: stdout lists %r, selected buildpacks' directories are %r" % (what, got_stdout, want_stdout), case)
        return False
    want = expected_tree(ws, root, set(selected) | set(also_present), profile, pdir)
    snap = vp.snapshot(pdir)
    if os.path.realpath(pdir) == os.path.realpath(root):
        snap = {k: v for k, v in snap.items() if k == TRIPLE.encode() or k.startswith(TRIPLE.encode() + b"/")}
    diffs = compare_tree(snap, want)
    if diffs:
        kind = "unexpected" if any(d.startswith("unexpected") for d in diffs) else "missing" if any("missing" in d for d in diffs) else "content"
        sh.violation("tree:%s" % kind, "%s: package directory does not match the specification: %s" % (what, diffs[:5]), case)
        return False
    return True


def scenario(arg):
    """one workspace with all its runs; returns Shard dict"""
    widx, seed, work, cargo_libcnb, shim, tier, crash = arg
    sh = vp.Shard()
    r = vp.rng(seed, "c15", widx)
    ws = gen_workspace(r, widx)
    root = os.path.join(work, "ws%d" % widx)
    write_workspace(root, ws)
    case = {"workspace": widx, "shape": {"libcnb": [(b["id"], b["extra_bins"]) for b in ws["bps"]], "composites": [(c["id"], c["deps"]) for c in ws["comps"]]}}
    shape = (len(ws["bps"]), sum(len(b["extra_bins"]) for b in ws["bps"]), len(ws["comps"]), ws["foreign"], ws.get("target_mode", "default"))
    sh.add("target_dir_modes", ws.get("target_mode", "default"))
    try:
        all_ids = [x["id"] for x in ws["bps"] + ws["comps"]]
        # (a) clean runs: root/dev into the default dir, one buildpack dir, release into a custom dir
        invocations = [(".", "dev", None)]
        # (a composite directory with its own Cargo.toml is a Cargo package outside the workspace: cargo refuses to run inside it, so
        # such directories are packaged from the workspace root only)
        own_manifest = {c["dir"] for c in ws["comps"] if c.get("cargo_toml")}
        pick = r.choice([x for x in (ws["comps"] or ws["bps"]) if x["dir"] not in own_manifest] or ws["bps"])
        invocations.append((pick["dir"], "dev", None))
        invocations.append((".", "release", "out-custom"))
        invocations.append(("docs", "dev", None))
        invocations.append((pick["dir"], "dev", "out-custom"))      # a relative --package-dir is relative to the invocation directory
        invocations.append(("buildpacks", "dev", None))      # contains buildpack dirs but is none itself: nothing is selected
        for c in ws["comps"]:
            if c["dir"] != pick["dir"]:
                invocations.append((c["dir"], "dev", None))   # every composite from its own directory (with other buildpacks nested beneath it or not)
        for b in ws["bps"]:
            if "/nested/" in b["dir"] and b["dir"] != pick["dir"]:
                invocations.append((b["dir"], "dev", None))   # a buildpack that lives beneath another buildpack's directory, from its own directory: it alone is selected
        if tier == "thorough":
            for x in ws["bps"] + ws["comps"]:
                invocations.append((x["dir"], r.choice(["dev", "release"]), r.choice([None, "out-custom", os.path.join(root, "abs-out")])))
        invocations.append((".", "dev", "."))      # the package directory is the workspace root itself (its output directory is listed in the ignore file)
        invocations = [iv for iv in invocations if iv[0] not in own_manifest]
        for n_inv, (cwd_rel, profile, pd) in enumerate(invocations):
            pdir = os.path.join(root, "packaged") if pd is None else (pd if os.path.isabs(pd) else os.path.normpath(os.path.join(root, cwd_rel, pd)))
            if pdir != root:
                vp.rmtree(pdir)
            # (every second run with the variables a CI system sets: what is printed and written does not depend on them)
            rc, out, err = run_package(cargo_libcnb, root, os.path.join(root, cwd_rel), profile, pd, extra_env={"CI": "true", "GITHUB_ACTIONS": "true"} if n_inv % 2 else None)
            sh.evaluations += 1
            what = "packaging from %s (%s%s)" % (cwd_rel, profile, ", --package-dir " + pd if pd else "")
            c = dict(case, run={"cwd": cwd_rel, "profile": profile, "package_dir": pd, "history": "clean"})
            if not judge_run(ws, root, cwd_rel, profile, pdir, rc, out, err, sh, c, what):
                return sh.dict()
            sh.nontrivial.add((shape, "clean", "root" if cwd_rel == "." else "bpdir" if cwd_rel != "docs" else "nondir", profile, pd is not None))
            if pdir == root:
                vp.rmtree(os.path.join(root, TRIPLE))
            elif pd:
                vp.rmtree(pdir)
        # (a2) the invocation directory reached through a symbolic link, with $PWD saying so (what `cd link/dir && cargo libcnb package` gives)
        via = root + "-via-link"
        if not os.path.lexists(via):
            os.symlink(root, via)
        pdir = os.path.join(root, "packaged")
        vp.rmtree(pdir)
        logical = os.path.join(via, pick["dir"])
        rc, out, err = run_package(cargo_libcnb, root, logical, "dev", None, extra_env={"PWD": logical})
        sh.evaluations += 1
        c = dict(case, run={"cwd": pick["dir"], "profile": "dev", "history": "clean", "via": "a symlinked path, PWD set to it"})
        if not judge_run(ws, root, pick["dir"], "dev", pdir, rc, out, err, sh, c, "packaging from %s reached through a symbolic link (PWD = the logical path)" % pick["dir"]):
            return sh.dict()
        sh.nontrivial.add((shape, "clean", "via-symlink", "dev", False))
        # reference: clean tree from the root, dev
        pdir = os.path.join(root, "packaged")
        vp.rmtree(pdir)
        rc, out, err = run_package(cargo_libcnb, root, root, "dev")
        clean = vp.snapshot(pdir)
        # (a3) a run that fails, the cause is repaired, the next run gives the clean tree again (the failed run has no part in it): a compile
        # error in one buildpack's source; a composite with a dependency on a buildpack that no directory of the workspace holds - while
        # a directory next to the workspace does
        comp = next((x for x in ws["comps"] if x["dir"] not in own_manifest), None)
        for fk in (["dangling-with-neighbour"] if comp else []) + ["compile-error"]:
            if fk == "compile-error":
                victim = r.choice(ws["bps"])
                path = os.path.join(root, victim["dir"], "src", "main.rs")
                broken = "fn main() { this is not rust }\n"
            else:
                victim = comp
                path = os.path.join(root, comp["dir"], "package.toml")
                nid = "vp/neighbour-%d" % widx
                doc = {"buildpack": {"uri": comp["bp_uri"]}, "dependencies": [{"uri": u} for u in comp["deps"]] + [{"uri": "libcnb:" + nid}]}
                if comp["os"]:
                    doc["platform"] = {"os": comp["os"]}
                broken = tomlw.selfcheck(doc)
                nb = os.path.join(os.path.dirname(root), "ws%d-neighbour" % widx, "bp")
                os.makedirs(nb, exist_ok=True)
                with open(os.path.join(nb, "buildpack.toml"), "w") as f:
                    f.write('api = "0.10"\n\n[buildpack]\nid = "%s"\nversion = "0.1.0"\n\n[[order]]\n[[order.group]]\nid = "external/procfile"\nversion = "2.0.1"\n' % nid)
                with open(os.path.join(nb, "package.toml"), "w") as f:
                    f.write('[buildpack]\nuri = "."\n')
            st0 = os.stat(path)
            orig = open(path).read()
            with open(path, "w") as f:
                f.write(broken)
            rc, out, err = run_package(cargo_libcnb, root, root, "dev")
            with open(path, "w") as f:
                f.write(orig)
            os.utime(path, ns=(st0.st_atime_ns, st0.st_mtime_ns))
            sh.evaluations += 1
            c = dict(case, run={"cwd": ".", "profile": "dev", "history": "after-failed-run:" + fk, "victim": victim["id"]})
            if rc == 0:
                sh.violation("failed-run-exit-0:%s" % fk, "packaging with %s (%s) exited 0; stderr: %s" % (fk, victim["id"], err[-300:]), c)
                return sh.dict()
            sh.count("failed_runs_followed_by_a_repaired_one")
            rc, out, err = run_package(cargo_libcnb, root, root, "dev")
            sh.evaluations += 1
            what = "re-packaging after a run that failed (%s in %s) and the repair of its cause" % (fk, victim["id"])
            if not judge_run(ws, root, ".", "dev", pdir, rc, out, err, sh, c, what):
                return sh.dict()
            after = vp.snapshot(pdir)
            if after != clean:
                sh.violation("after-failed-run:%s" % fk, "%s: the result differs from the clean tree: %s" % (what, vp.snap_diff(clean, after, 4)), c)
                return sh.dict()
            sh.nontrivial.add((shape, "after-failed-run", fk, victim["kind"]))
        # (b) stale / foreign content, then package again from the root: must equal the clean tree
        # (quick: the first two and three of the other nine, rotating with the workspace index so that six workspaces see all of them twice)
        kinds = PRESEEDS if tier == "thorough" else PRESEEDS[:2] + [PRESEEDS[2 + (widx * 3 + j) % (len(PRESEEDS) - 2)] for j in range(3)]
        for kind in kinds:
            victim = r.choice(ws["bps"] + ws["comps"])
            odir = os.path.join(pdir, TRIPLE, "debug", victim["id"].replace("/", "_"))
            preseed(kind, odir)
            rc, out, err = run_package(cargo_libcnb, root, root, "dev")
            sh.evaluations += 1
            c = dict(case, run={"cwd": ".", "profile": "dev", "history": "preseed:" + kind, "victim": victim["id"]})
            what = "re-packaging over %s in the output of %s" % (kind, victim["id"])
            if not judge_run(ws, root, ".", "dev", pdir, rc, out, err, sh, c, what):
                return sh.dict()
            if kind == "outdir-symlink-to-dirty-dir":
                stale = os.path.join(root, "elsewhere-" + victim["id"].replace("/", "_"), "STALE")
                if not os.path.exists(stale):
                    sh.violation("stale:symlink-target-wiped", "%s: the directory the stale symlink pointed to (outside the package dir) was emptied" % what, c)
                    return sh.dict()
            after = vp.snapshot(pdir)
            if {k: v for k, v in after.items() if v[0] != "f" or not k.endswith(b"package.toml")} != {k: v for k, v in clean.items() if v[0] != "f" or not k.endswith(b"package.toml")}:
                sh.violation("stale:%s" % kind, "%s: the result differs from packaging into an empty directory: %s" % (what, vp.snap_diff(clean, after, 4)), c)
                return sh.dict()
            sh.nontrivial.add((shape, "preseed", kind, victim["kind"]))
        # (b1) stale content in the output of a DEPENDENCY, then packaging from the directory of the composite that depends on it: the
        # dependency is packaged again (everything the selected buildpack needs is), the stale content is gone
        for c_ in [x for x in ws["comps"] if x["dir"] not in own_manifest and any(d.startswith("libcnb:") for d in x["deps"])][:1]:
            dep_id = [d for d in c_["deps"] if d.startswith("libcnb:")][0][len("libcnb:"):]
            preseed("extra-files", os.path.join(pdir, TRIPLE, "debug", dep_id.replace("/", "_")))
            rc, out, err = run_package(cargo_libcnb, root, os.path.join(root, c_["dir"]), "dev")
            sh.evaluations += 1
            c = dict(case, run={"cwd": c_["dir"], "profile": "dev", "history": "preseed-dependency:extra-files", "victim": dep_id})
            what = "packaging from %s over stale files in the output of its dependency %s" % (c_["dir"], dep_id)
            if not judge_run(ws, root, c_["dir"], "dev", pdir, rc, out, err, sh, c, what, also_present=all_ids):
                return sh.dict()
            sh.nontrivial.add((shape, "preseed-dependency", c_["kind"]))
        # (b2) the same with a custom --package-dir, where the output directory holds ONLY stale content (no earlier package at all)
        cdir = os.path.join(root, "out-custom")
        vp.rmtree(cdir)
        rc, out, err = run_package(cargo_libcnb, root, root, "dev", "out-custom")
        clean_c = vp.snapshot(cdir)
        for kind in ["extra-files", "stale-additional-bin", "nested-stale-tree"][: 3 if tier == "thorough" else 1 + widx % 2]:
            victim = r.choice(ws["bps"] + ws["comps"])
            vp.rmtree(cdir)
            preseed(kind, os.path.join(cdir, TRIPLE, "debug", victim["id"].replace("/", "_")))
            rc, out, err = run_package(cargo_libcnb, root, root, "dev", "out-custom")
            sh.evaluations += 1
            c = dict(case, run={"cwd": ".", "profile": "dev", "package_dir": "out-custom", "history": "preseed-only:" + kind, "victim": victim["id"]})
            what = "packaging into --package-dir out-custom whose output directory for %s holds only %s" % (victim["id"], kind)
            if not judge_run(ws, root, ".", "dev", cdir, rc, out, err, sh, c, what):
                return sh.dict()
            after = vp.snapshot(cdir)
            if {k: v for k, v in after.items() if v[0] != "f" or not k.endswith(b"package.toml")} != {k: v for k, v in clean_c.items() if v[0] != "f" or not k.endswith(b"package.toml")}:
                sh.violation("stale:custom-dir:%s" % kind, "%s: the result differs from packaging into an empty directory: %s" % (what, vp.snap_diff(clean_c, after, 4)), c)
                return sh.dict()
            sh.nontrivial.add((shape, "preseed-custom-dir", kind, victim["kind"]))
        vp.rmtree(cdir)
        # (c) crash points
        if crash:
            vp.rmtree(pdir)
            log = os.path.join(root, "shim.log")
            env = {"LD_PRELOAD": shim, "VP_SHIM_PREFIX": pdir, "VP_SHIM_MODE": "count", "VP_SHIM_LOG": log, "VP_SHIM_CLASS": SHIM_MUT, "VP_SHIM_COMM": "cargo-libcnb"}
            rc, out, err = run_package(cargo_libcnb, root, root, "dev", extra_env=env)
            calls = [t for t in vp.read_trace(log) if t["class"] in SHIM_MUT.split(",")]
            os.unlink(log)
            if rc != 0 or not calls:
                sh.inconclusive.append("workspace %d: count pass for crash points failed (rc %d, %d calls): %s" % (widx, rc, len(calls), err[-200:]))
                return sh.dict()
            sh.count("crash_point_candidates", len(calls))
            ks = list(range(1, len(calls) + 1))
            if tier == "quick" and len(ks) > 24:
                ks = sorted(r.sample(ks, 24))
            for k in ks:
                vp.rmtree(pdir)
                env = {"LD_PRELOAD": shim, "VP_SHIM_PREFIX": pdir, "VP_SHIM_MODE": "crash", "VP_SHIM_LOG": log, "VP_SHIM_CLASS": SHIM_MUT, "VP_SHIM_K": str(k), "VP_SHIM_COMM": "cargo-libcnb"}
                rc1, out1, err1 = run_package(cargo_libcnb, root, root, "dev", extra_env=env)
                fired = any(t["tag"] == "CRASH" for t in vp.read_trace(log))
                if os.path.exists(log):
                    os.unlink(log)
                if not fired:
                    sh.inconclusive.append("workspace %d: crash point %d never fired" % (widx, k))
                    continue
                partial = vp.snapshot(pdir) if os.path.isdir(pdir) else {}
                rc2, out2, err2 = run_package(cargo_libcnb, root, root, "dev")
                sh.evaluations += 1
                c = dict(case, run={"cwd": ".", "profile": "dev", "history": "crash-at-call-%d" % k, "call": calls[k - 1]["call"], "target": calls[k - 1]["phys"].decode(errors="replace")[-80:]})
                what = "re-packaging after a run killed at its mutating call #%d (%s on ...%s, %d entries left behind)" % (k, calls[k - 1]["call"], c["run"]["target"][-40:], len(partial))
                if not judge_run(ws, root, ".", "dev", pdir, rc2, out2, err2, sh, c, what):
                    return sh.dict()
                after = vp.snapshot(pdir)
                if after != clean:
                    sh.violation("crash-recovery", "%s: the result differs from a clean run: %s" % (what, vp.snap_diff(clean, after, 4)), c)
                    return sh.dict()
                sh.count("crash_points_fired")
                sh.nontrivial.add((shape, "crash", calls[k - 1]["class"], min(len(partial) // 4, 6)))
        sh.sample({"workspace": case["shape"], "runs": "clean x %d, pre-seeded x %d%s" % (len(invocations), len(kinds), ", crash points" if crash else ""),
                   "observed": "exit 0, stdout = selected dirs, package tree == specification == clean tree"}, cap=1)
    finally:
        vp.rmtree(root)
        vp.rmtree(root + "-artifacts")
        vp.rmtree(root + "-via-link")
        vp.rmtree(root + "-neighbour")
    return sh.dict()


def run(tier, seed, work):
    res = vp.Result("C15", tier, seed, "fault_enumeration")
    res.after_error_routes = ['failed_runs_followed_by_a_repaired_one']      # routes added in round 12 (a handled failure followed by ordinary work): must have observed something
    cargo_libcnb = vp.build_cargo_libcnb()
    shim = vp.build_shim()
    n = 6 if tier == "quick" else 40
    ncrash = 2 if tier == "quick" else 8
    args = [(i, seed, work, cargo_libcnb, shim, tier, i < ncrash) for i in range(n)]
    for d in vp.pimap(scenario, args, chunksize=1, procs=min(vp.NCPU, n)):
        res.merge(d)
    res.rule = ("evaluations = runs of the real cargo-libcnb executable whose exit status, stdout and package tree were judged. distinct_nontrivial = distinct "
                "(workspace shape [#libcnb buildpacks, #additional binaries, #composites, foreign buildpack present], history kind [clean / pre-seed kind / crash], invocation dir kind or call class, profile / amount left behind)")
    res.assumptions = ["only the x86_64-unknown-linux-gnu target is installed here: every run passes --target %s (the default musl target cannot be built)" % TRIPLE,
                       "every generated workspace has an ignore file listing target/ and the output directories (quantifier)",
                       "the sandbox runs as root, so stale content that is undeletable for the packaging user cannot be produced and is not explored",
                       "crash points = every (quick: up to 24 sampled) mutating libc call of the cargo-libcnb process beneath the package directory; the run is killed with _exit before the call"]
    res.required = list(getattr(res, "required", [])) + res.after_error_routes
    return res


def replay(case, work):
    res = vp.Result("C15", "quick", 0, "fault_enumeration")
    seed = int(os.environ.get("VERIF_SEED", "0"))
    d = scenario((case["workspace"], seed, work, vp.build_cargo_libcnb(), vp.build_shim(), "thorough", "crash" in case.get("run", {}).get("history", "")))
    res.merge(d)
    res.nontrivial.update({"replay-a", "replay-b"})
    res.rule = "replay: re-runs the whole scenario of the recorded workspace index"
    res.sample({"workspace": case["workspace"], "run": case.get("run")})
    return res
