"""Reference model of the CNB layer-environment rules, written from the buildpack spec
("Environment Variable Modification Rules", "Layer Paths") and the lifecycle's documented
file order. Shares no code with libcnb. Values and names are bytes.

An environment description ("LE") is a list of entries (scope, behaviour, name, value),
scope in {"all","build","launch","process:<p>"}; inserting the same (scope, behaviour,
name) again replaces the value.
"""
import os

BEHAVIOURS = ["append", "default", "delim", "override", "prepend"]
SUFFIX = {b: "." + b for b in BEHAVIOURS}


def deltas(entries):
    """-> {scope: {(behaviour, name): value}}"""
    d = {}
    for scope, beh, name, value in entries:
        d.setdefault(scope, {})[(beh, name)] = value
    return d


def apply_delta(delta, env):
    env = dict(env)
    names = sorted({n for (_, n) in delta})
    for name in names:
        delim = delta.get(("delim", name), b"")
        # order of application for one variable inside one env directory: the
        # lifecycle processes the files of a directory in sorted order, i.e.
        # NAME.append, NAME.default, NAME.delim, NAME.override, NAME.prepend
        if ("append", name) in delta:
            prev = env.get(name, b"")
            v = delta[("append", name)]
            env[name] = (prev + delim + v) if prev else v
        if ("default", name) in delta:
            if name not in env:
                env[name] = delta[("default", name)]
        if ("override", name) in delta:
            env[name] = delta[("override", name)]
        if ("prepend", name) in delta:
            prev = env.get(name, b"")
            v = delta[("prepend", name)]
            env[name] = (v + delim + prev) if prev else v
    return env


def implicit_paths(layer_dir, scope, spelled=None):
    """Layer paths per the spec; layer_dir is bytes or None (in-memory env: none). spelled: the path as the code under test was given it
    (e.g. relative to ITS working directory) - the entries are that spelling plus the sub-directory; layer_dir is where this process finds it."""
    if layer_dir is None or scope not in ("build", "launch"):
        return []
    out = []
    table = [(b"bin", b"PATH", ("build", "launch")),
             (b"lib", b"LD_LIBRARY_PATH", ("build", "launch")),
             (b"lib", b"LIBRARY_PATH", ("build",)),
             (b"include", b"CPATH", ("build",)),
             (b"pkgconfig", b"PKG_CONFIG_PATH", ("build",))]
    for sub, var, scopes in table:
        p = os.path.join(layer_dir, sub)
        if scope in scopes and os.path.isdir(p):   # isdir follows symlinks
            out.append((var, p if spelled is None else os.path.join(spelled, sub)))
    return out


def apply(entries, scope, start, layer_dir=None, spelled=None):
    d = deltas(entries)
    env = apply_delta(d.get("all", {}), start)
    if scope != "all":
        env = apply_delta(d.get(scope, {}), env)
    for var, path in implicit_paths(layer_dir, scope, spelled):
        prev = env.get(var, b"")
        env[var] = (path + os.pathsep.encode() + prev) if prev else path
    return env


def expected_tree(entries):
    """Files the spec prescribes below a layer dir for this env:
    {relative path (bytes): content}; directories exist iff they hold a file."""
    out = {}
    roots = {"all": b"env", "build": b"env.build", "launch": b"env.launch"}
    for scope, delta in deltas(entries).items():
        if scope.startswith("process:"):
            root = b"env.launch/" + scope[len("process:"):].encode()
        else:
            root = roots[scope]
        for (beh, name), value in delta.items():
            out[root + b"/" + name + SUFFIX[beh].encode()] = value
    return out


def read_dir_delta(path):
    """Spec reading of one env directory -> delta {(beh,name): value}.
    Returns (delta, unspecified) where unspecified is True when a file name makes the
    NAME.suffix split ambiguous (dotted names)."""
    delta = {}
    unspecified = False
    for fn in sorted(os.listdir(path)):
        full = os.path.join(path, fn)
        if os.path.isdir(full):
            continue
        if b"." in fn:
            stem, ext = fn.rsplit(b".", 1)
            if stem == b"":
                # ".append" – a dot-file: name is the whole thing, no suffix
                stem, ext = fn, None
            if ext is not None and b"." in stem:
                unspecified = True
        else:
            stem, ext = fn, None
        with open(full, "rb") as f:
            data = f.read()
        if ext is None:
            if ("override", stem) in delta:
                unspecified = True      # NAME and NAME.override both present: the spec names no winner
            delta[("override", stem)] = data
        else:
            try:
                e = ext.decode()
            except UnicodeDecodeError:
                continue
            if e in BEHAVIOURS:
                if (e, stem) in delta:
                    unspecified = True
                delta[(e, stem)] = data
            # unknown suffix: ignored
    return delta, unspecified


def read_layer_dir(layer_dir):
    """Spec reading of a layer dir -> (entries, unspecified)."""
    entries = []
    unspec = False
    roots = [("all", b"env"), ("build", b"env.build"), ("launch", b"env.launch")]
    for scope, sub in roots:
        p = os.path.join(layer_dir, sub)
        if os.path.isdir(p):
            d, u = read_dir_delta(p)
            unspec |= u
            for (beh, name), v in d.items():
                entries.append((scope, beh, name, v))
            if scope == "launch":
                for fn in sorted(os.listdir(p)):
                    pp = os.path.join(p, fn)
                    if os.path.isdir(pp):
                        d, u = read_dir_delta(pp)
                        unspec |= u
                        try:
                            pname = fn.decode()
                        except UnicodeDecodeError:
                            unspec = True
                            continue
                        for (beh, name), v in d.items():
                            entries.append(("process:" + pname, beh, name, v))
    return entries, unspec
