#!/bin/bash
# usage: tools/try_seed.sh <patch.diff> <ID> [<ID>...]   — applies a seeded change to /repo, runs the quick checks, reverts.
set -u
patch=$(realpath $1); shift
cd /verif
if [ -n "$(git -C /repo status --porcelain --untracked-files=no)" ]; then echo "/repo not clean"; exit 3; fi
git -C /repo apply "$patch" || { echo "patch does not apply"; exit 3; }
mkdir -p /tmp/vp-evidence-bak && cp -a evidence/. /tmp/vp-evidence-bak/
for id in "$@"; do
  echo "== $id on $(basename $(dirname $patch))/$(basename $patch)"
  VERIF_TIER=${VERIF_TIER:-quick} ./check $id --tier ${VERIF_TIER:-quick} 2>&1 | grep -E "^(VIOLATION|HELD|BROKEN|KNOWN|INCONCLUSIVE|  what)" | head -8
done
git -C /repo checkout -- .
cp -a /tmp/vp-evidence-bak/. evidence/ && rm -rf /tmp/vp-evidence-bak
rm -rf /verif/replay
