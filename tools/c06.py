"""C06 — the DetectContext / BuildContext handed to the buildpack equals what the platform supplied."""
import json
import os

import phase
import tomlw
import vp

ENV_NAMES = [b"FOO", b"PATH", b"lower", b"with space", b"UNI\xc3\xa9", b"\xff\xfe", b".hidden", b"A=B", b"dot.ted", b"NL\nNAME", b"-dash", b"x" * 100]
ENV_VALUES = [b"\xef\xbb\xbfbom-first", b"\xef\xbb\xbf", b"mid\xef\xbb\xbfbom", b"", b"v", b"line1\nline2\n", b"  padded  ", b"\n", b"trailing\n\n", b"caf\xc3\xa9 \xe6\x97\xa5\xe6\x9c\xac", b"a=b", b"$(id)", b"x" * 5000, b"\ttab"]
BAD_UTF8 = [b"\xff\xfe", b"ok\x80", b"\xc3"]
DIRNAMES = ["plain", "with space", "café", "日本", "a.b-c_d", "plain", "with space", "café", "日本", "a.b-c_d",
            "bad\udcff", "\udcc3(é"]      # (surrogateescape spelling of) directory names that are not valid UTF-8: legal paths


def gen_case(r, idx):
    c = {"idx": idx, "phase": r.choice(["detect", "build", "build"]), "dirname": r.choice(DIRNAMES)}
    # platform env
    kind = r.random()
    env = []
    if kind < 0.12:
        c["env_dir"] = False
    else:
        c["env_dir"] = True
        for name in r.sample(ENV_NAMES, r.randint(0, 7)):
            k = r.random()
            if k < 0.55:
                env.append((name, "file", r.choice(ENV_VALUES)))
            elif k < 0.65:
                env.append((name, "dir", None))
            elif k < 0.72:
                env.append((name, "link-file", r.choice(ENV_VALUES)))
            elif k < 0.78:
                # the way Kubernetes projects files: NAME -> ..data/NAME (a RELATIVE target, resolved against the env directory)
                env.append((name, "link-rel", r.choice(ENV_VALUES)))
            elif k < 0.86:
                env.append((name, "link-dir", None))
            elif k < 0.90:
                env.append((name, "dangling", None))
            elif k < 0.93:
                # a regular file whose size as reported by stat (0) is not the number of bytes it yields
                env.append((name, "link-proc", None))
            else:
                env.append((name, "file-bad-utf8", r.choice(BAD_UTF8)))
    if c["env_dir"] and idx % 100 == 99:
        # large: hundreds of variables, values around and far beyond common buffer sizes
        env += [(b"GEN_%d" % i, "file", r.choice(ENV_VALUES)) for i in range(r.randint(100, 400))]
        env += [(b"BIG_%d" % k, "file", bytes([r.randrange(32, 127)]) * k) for k in (4095, 4096, 8193, 65536, 1000003)]
    c["env"] = env
    # targets
    t = dict(phase.TARGET_DEFAULT)
    t["CNB_TARGET_OS"] = r.choice(["linux", "windows", "Linux x", "", "Linux", "darwin", "LINUX"])
    t["CNB_TARGET_ARCH"] = r.choice(["amd64", "arm64", "riscv 64", "é", "x86_64", "aarch64", "AMD64", "arm64/v8", "x64", "i386", "arm"])
    t["CNB_TARGET_DISTRO_NAME"] = r.choice(["ubuntu", "", "my distro", "日本", "'alpine'", '"quoted"', '"', "Ubuntu", "UBUNTU"])
    t["CNB_TARGET_DISTRO_VERSION"] = r.choice(["24.04", "", "v 1", "rolling", '"24.04"', "''", " 24.04 ", "24.04\n"])
    if r.random() < 0.45:
        del t["CNB_TARGET_ARCH_VARIANT"]
    else:
        t["CNB_TARGET_ARCH_VARIANT"] = r.choice(["v8", "", "v 7", "V8", "8"])
    c["targets"] = t
    c["bad_target"] = r.choice(phase.TARGET_VARS) if r.random() < 0.06 else None
    c["bp_dir_style"] = r.choice(["plain", "plain", "symlink", "dotted", "trailing-slash"])
    # descriptor
    c["bp_name"] = r.choice([None, "Name", "q\"uote", "日本"])
    # the id as buildpack.toml spells it: the context carries exactly that string - or, if it is no buildpack id at all (blanks around it), nothing runs
    c["bp_id"] = r.choice(["vp/ctx"] * 12 + ["Vp/CTX", "vp/./ctx", "vp/ctx/", " vp/ctx", "vp/ctx ", "vp/ctx\n", "\tvp/ctx"])
    c["bp_metadata"] = None if r.random() < 0.3 else tomlw.rnd_table(r, 0)
    c["bp_targets"] = r.randint(0, 2)
    # plan + store (build)
    c["plan"] = [(r.choice(tomlw.RND_STRINGS), None if r.random() < 0.3 else tomlw.rnd_table(r, 1)) for _ in range(r.choice([0, 1, 2, 4]) if idx % 100 != 98 else r.randint(40, 120))]
    if c["plan"] and r.random() < 0.3:
        # the same entry twice in a row (two buildpacks requiring the same thing with the same metadata): the plan holds both
        k = r.randrange(len(c["plan"]))
        c["plan"].insert(k, c["plan"][k])
    c["store"] = r.choice(["absent", "absent", "valid", "valid", "valid-empty", "bad-utf8", "directory", "malformed", "no-metadata-key"])
    c["plan_defect"] = r.choice([None] * 8 + ["entry-unknown-key", "entry-unknown-table", "root-unknown-key", "entry-name-missing", "store-unknown-key"])
    c["store_md"] = tomlw.rnd_table(r, 0)
    return c


def materialise(lay, c):
    vp.rmtree(lay.root)
    lay.create()
    with open(os.path.join(lay.bp, "buildpack.toml"), "w") as f:
        d = {"api": "0.10", "buildpack": {"id": c.get("bp_id", "vp/ctx"), "version": "3.2.1"}}
        if c["bp_name"] is not None:
            d["buildpack"]["name"] = c["bp_name"]
        if c["bp_targets"]:
            d["targets"] = [{"os": "linux", "arch": "amd64"}][:1] * c["bp_targets"]
        if c["bp_metadata"] is not None:
            d["metadata"] = c["bp_metadata"]
        f.write(tomlw.selfcheck(d))
    envdir = os.path.join(os.fsencode(lay.platform), b"env")
    if c["env_dir"]:
        os.makedirs(envdir)
        tgt = os.path.join(os.fsencode(lay.root), b"targets")
        os.makedirs(tgt)
        for i, (name, kind, val) in enumerate(c["env"]):
            p = os.path.join(envdir, name)
            if kind in ("file", "file-bad-utf8"):
                with open(p, "wb") as f:
                    f.write(val)
            elif kind == "dir":
                os.mkdir(p)
                with open(os.path.join(p, b"INNER"), "wb") as f:
                    f.write(b"must not appear")
            elif kind == "link-file":
                t = os.path.join(tgt, b"t%d" % i)
                with open(t, "wb") as f:
                    f.write(val)
                os.symlink(t, p)
            elif kind == "link-rel":
                os.makedirs(os.path.join(envdir, b"..data"), exist_ok=True)
                with open(os.path.join(envdir, b"..data", b"t%d" % i), "wb") as f:
                    f.write(val)
                os.symlink(b"..data/t%d" % i, p)
            elif kind == "link-dir":
                t = os.path.join(tgt, b"d%d" % i)
                os.mkdir(t)
                os.symlink(t, p)
            elif kind == "dangling":
                os.symlink(b"/nonexistent/vp", p)
            elif kind == "link-proc":
                os.symlink(b"/proc/sys/kernel/ostype", p)
    with open(lay.plan, "w") as f:
        entries = []
        for name, md in c["plan"]:
            e = {"name": name}
            if md is not None:
                e["metadata"] = md
            entries.append(e)
        text = tomlw.selfcheck({"entries": entries}) if entries else ""
        d = c.get("plan_defect")
        if d == "entry-unknown-key":
            text += '\n[[entries]]\nname = "extra"\nversion = "22.x"\n'
        elif d == "entry-unknown-table":
            text += '\n[[entries]]\nname = "extra"\n[entries.metadat]\nk = "v"\n'
        elif d == "root-unknown-key":
            text = 'unknown_root_key = 1\n' + text
        elif d == "entry-name-missing":
            text += '\n[[entries]]\n[entries.metadata]\nk = "v"\n'
        f.write(text)
    sp = os.path.join(lay.layers, "store.toml")
    if c["phase"] == "build":
        if c["store"] == "valid":
            with open(sp, "w") as f:
                f.write(tomlw.selfcheck({"metadata": c["store_md"]}) + ("\n[metadatas]\nx = 1\n" if c.get("plan_defect") == "store-unknown-key" else ""))
        elif c["store"] == "valid-empty":
            with open(sp, "w") as f:
                f.write("[metadata]\n")
        elif c["store"] == "bad-utf8":
            with open(sp, "wb") as f:
                f.write(b'[metadata]\nk = "\xff\xfe"\n')
        elif c["store"] == "directory":
            os.mkdir(sp)
        elif c["store"] == "malformed":
            with open(sp, "w") as f:
                f.write("[metadata\nk = ")
        elif c["store"] == "no-metadata-key":
            with open(sp, "w") as f:
                f.write("")


def run_case(base, c, sh):
    root = os.path.join(base, c["dirname"], "c%d" % c["idx"])
    lay = phase.Layout(root)
    if any(0xDC80 <= ord(ch) <= 0xDCFF for ch in root):
        # (the buildpack's own directory stays at a UTF-8 path: CNB_BUILDPACK_DIR is not what these cases are about)
        lay.bp = os.path.join(base, "ctl-%d" % c["idx"], "bp")
    try:
        materialise(lay, c)
        bp_given = lay.bp
        if c["bp_dir_style"] == "symlink":
            bp_given = os.path.join(lay.root, "bp-link")
            os.symlink(lay.bp, bp_given)
        elif c["bp_dir_style"] == "dotted":
            bp_given = os.path.join(lay.root, "app", "..", ".", "bp")
        elif c["bp_dir_style"] == "trailing-slash":
            bp_given = lay.bp + "/"
        env = {"CNB_BUILDPACK_DIR": bp_given}
        env_b = {}
        for k, v in c["targets"].items():
            env[k] = v
        if c["bad_target"] and c["bad_target"] in env:
            # non-UTF-8 value: passed as bytes
            env_b[c["bad_target"].encode()] = b"\xff\xfe"
            del env[c["bad_target"]]
        nonutf = any(0xDC80 <= ord(ch) <= 0xDCFF for ch in root)
        if nonutf:
            # the harness' own control files live outside the oddly named directory (their paths travel inside a JSON document)
            ctl = os.path.join(base, "ctl-%d" % c["idx"])
            os.makedirs(ctl, exist_ok=True)
            lay.marker, lay.dump, lay.script = os.path.join(ctl, "marker"), os.path.join(ctl, "dump.json"), os.path.join(ctl, "script.json")
        script = {"marker": lay.marker, "dump": lay.dump}
        args = lay.build_args() if c["phase"] == "build" else lay.detect_args()
        full_env = {k.encode(): os.fsencode(v) for k, v in env.items()}
        full_env.update(env_b)
        full_env[b"PATH"] = b"/usr/bin:/bin"
        full_env[b"VPBP_SCRIPT"] = os.fsencode(lay.script)
        with open(lay.script, "w") as f:
            json.dump(script, f)
        import subprocess
        p = subprocess.run([os.path.join(lay.bp, "bin", c["phase"])] + args, cwd=lay.app, env=full_env, stdout=subprocess.PIPE, stderr=subprocess.PIPE, timeout=60)
        status = p.returncode
        marker = open(lay.marker).read().split("\n")[:-1] if os.path.exists(lay.marker) else []
        sh.evaluations += 1
        case = {k: v for k, v in c.items()}
        case["env"] = [[n.hex(), k, None if v is None else v.hex()] for n, k, v in c["env"]]
        case["bp_metadata"] = repr(c["bp_metadata"])
        case["plan"] = repr(c["plan"])
        case["store_md"] = repr(c["store_md"])
        if nonutf:
            # every path the platform hands over is a legal path that is not valid UTF-8: the phase either refuses to run (no context,
            # non-zero) or carries those paths byte for byte - and then everything else must be right too (checked below)
            dumped = os.path.exists(lay.dump)
            if status != 0 and not dumped:
                if len([m for m in marker if m.startswith("on_error")]) > 1:
                    sh.violation("error-not-reported", "%s under a non-UTF-8 directory: on_error ran %r" % (c["phase"], marker), case)
                else:
                    sh.nontrivial.add(("non-utf8-dir-refused", c["phase"]))
                return
            got = json.load(open(lay.dump)) if dumped else {}
            want_hex = {"app_dir_hex": os.fsencode(lay.app).hex()}
            if c["phase"] == "build":
                want_hex["layers_dir_hex"] = os.fsencode(lay.layers).hex()
            bad = {k: got.get(k) for k, v in want_hex.items() if got.get(k) != v}
            if status != 0 or bad:
                sh.violation("non-utf8-dir-altered", "%s under a directory whose name is not valid UTF-8 (%r): exit %d, the context carries %r instead of the bytes given (%r)"
                             % (c["phase"], os.fsencode(root), status, bad, {k: want_hex[k] for k in bad}), case)
                return
        bad_env_file = [n for n, k, _ in c["env"] if k == "file-bad-utf8"]
        must_fail = []
        if bad_env_file:
            must_fail.append("platform env file %r has non-UTF-8 content" % bad_env_file[0])
        if c["bad_target"] and c["bad_target"] in c["targets"]:
            must_fail.append("%s is not valid UTF-8" % c["bad_target"])
        if c.get("bp_id", "vp/ctx").strip() != c.get("bp_id", "vp/ctx"):
            must_fail.append("buildpack.toml names the buildpack %r, which is not a buildpack id" % c["bp_id"])
        if c["phase"] == "build" and c["store"] == "no-metadata-key" and not must_fail:
            # an empty store.toml: the spec does not say whether [metadata] is required -> either outcome, but nothing in between
            if status != 0 and not os.path.exists(lay.dump):
                if len([m for m in marker if m.startswith("on_error")]) != 1:
                    sh.violation("error-not-reported", "build with an empty store.toml was rejected but on_error ran %r" % (marker,), case)
                return
            c = dict(c)
            c["store"] = "valid-empty"
        if c["phase"] == "build" and c.get("plan_defect") and (c["plan_defect"] != "store-unknown-key" or c["store"] == "valid"):
            must_fail.append("the buildpack plan / store has a defect the context cannot represent (%s)" % c["plan_defect"])
        if c["phase"] == "build" and c["store"] in ("bad-utf8", "directory", "malformed"):
            must_fail.append("store.toml is %s" % c["store"])
        what = "%s in %r (env entries %r, store %s)" % (c["phase"], c["dirname"], [(n, k) for n, k, _ in c["env"]], c["store"])
        dumped = os.path.exists(lay.dump)
        if must_fail:
            if status == 0 or dumped:
                got = json.load(open(lay.dump)) if dumped else None
                sh.violation("unrepresentable-accepted:%s" % must_fail[0].split(" ")[0], "%s: %s, yet the phase ran (exit %d, marker %r); the context had env %r, target %r, store %r"
                             % (what, "; ".join(must_fail), status, marker, (got or {}).get("platform_env"), (got or {}).get("target"), (got or {}).get("store")), case)
                return
            if len([m for m in marker if m.startswith("on_error")]) != 1:
                sh.violation("error-not-reported", "%s: %s; exit %d but on_error ran %r" % (what, must_fail[0], status, marker), case)
                return
            sh.nontrivial.add(("error", must_fail[0].split(" ")[0], c["phase"]))
            return
        if status != 0 or not dumped:
            sh.violation("valid-input-rejected", "%s: all inputs are representable, yet exit %d, marker %r, stderr %s" % (what, status, marker, p.stderr.decode(errors="replace")[-300:]), case)
            return
        got = json.load(open(lay.dump))
        want_env = {}
        for n, k, v in c["env"]:
            if k in ("file", "link-file", "link-rel"):
                want_env[n] = v
            elif k == "link-proc":
                want_env[n] = open("/proc/sys/kernel/ostype", "rb").read()
        got_env = {bytes.fromhex(k): bytes.fromhex(v) for k, v in got["platform_env"]}
        if got_env != want_env:
            keys = sorted(k for k in set(got_env) | set(want_env) if got_env.get(k) != want_env.get(k))
            sh.violation("platform-env:%s" % ("missing" if any(k not in got_env for k in keys) else "extra" if any(k not in want_env for k in keys) else "altered"),
                         "%s: platform env in the context differs for %r: context %r, files %r"
                         % (what, keys[:3], {k: got_env.get(k, "<absent>") for k in keys[:3]}, {k: want_env.get(k, "<absent>") for k in keys[:3]}), case)
            return
        t = c["targets"]
        want_t = {"os": t["CNB_TARGET_OS"], "arch": t["CNB_TARGET_ARCH"], "arch_variant": t.get("CNB_TARGET_ARCH_VARIANT"),
                  "distro_name": t["CNB_TARGET_DISTRO_NAME"], "distro_version": t["CNB_TARGET_DISTRO_VERSION"]}
        if got["target"] != want_t:
            sh.violation("target", "%s: target in the context %r, environment says %r" % (what, got["target"], want_t), case)
            return
        if nonutf:
            got["app_dir"], got["buildpack_dir"] = os.fsdecode(bytes.fromhex(got["app_dir_hex"])), os.fsdecode(bytes.fromhex(got["buildpack_dir_hex"]))
            if "layers_dir_hex" in got:
                got["layers_dir"] = os.fsdecode(bytes.fromhex(got["layers_dir_hex"]))
        if got["app_dir"] != lay.app or got["buildpack_dir"] != bp_given or (c["phase"] == "build" and got["layers_dir"] != lay.layers):
            sh.violation("dirs", "%s: directories in the context: app %r, buildpack %r (CNB_BUILDPACK_DIR was %r), layers %r" % (what, got["app_dir"], got["buildpack_dir"], bp_given, got.get("layers_dir")), case)
            return
        d = got["descriptor"]
        want_md = None if c["bp_metadata"] is None else tomlw.to_py(c["bp_metadata"])
        got_md = None if d["metadata"] is None else tomlw.untagged(d["metadata"])
        if d["id"] != c.get("bp_id", "vp/ctx") or d["version"] != "3.2.1" or d["api"] != [0, 10] or d["name"] != c["bp_name"] or d["targets"] != c["bp_targets"] or \
                (got_md is None) != (want_md is None) or (want_md is not None and not tomlw.same(got_md, want_md)):
            sh.violation("descriptor", "%s: descriptor in the context %r, buildpack.toml has name %r metadata %r" % (what, d, c["bp_name"], want_md), case)
            return
        if c["phase"] == "build":
            want_plan = [{"name": n, "metadata": tomlw.to_py(md or {})} for n, md in c["plan"]]
            got_plan = [{"name": e["name"], "metadata": tomlw.untagged(e["metadata"])} for e in got["plan"]]
            if not tomlw.same(got_plan, want_plan):
                sh.violation("plan", "%s: buildpack plan in the context %r, file has %r" % (what, got_plan, want_plan), case)
                return
            typed = [{"name": e["name"], "metadata": tomlw.untagged(e["metadata"]) if "metadata" in e else "<error: %s>" % e.get("error")} for e in got.get("plan_typed", [])]
            if not tomlw.same(typed, want_plan):
                sh.violation("plan:typed-accessor", "%s: Entry::metadata::<map>() gives %r, the plan file has %r" % (what, typed, want_plan), case)
                return
            want_store = {"absent": None, "valid": tomlw.to_py(c["store_md"]), "valid-empty": {}}[c["store"]]
            got_store = None if got["store"] is None else tomlw.untagged(got["store"])
            if (got_store is None) != (want_store is None) or (want_store is not None and not tomlw.same(got_store, want_store)):
                sh.violation("store", "%s: store in the context %r, store.toml has %r" % (what, got_store, want_store), case)
                return
        shape = (c["phase"], frozenset(k for _, k, _ in c["env"]), c["env_dir"], len(c["plan"]), c["store"] if c["phase"] == "build" else "-", "CNB_TARGET_ARCH_VARIANT" in t)
        sh.nontrivial.add(shape)
        sh.sample({"phase": c["phase"], "dir": c["dirname"], "env_entries": [(repr(n), k) for n, k, _ in c["env"]], "store": c["store"],
                   "observed": "context dump equals the generated inputs field by field"}, cap=1)
    finally:
        vp.rmtree(os.path.join(base, c["dirname"], "c%d" % c["idx"]))
        vp.rmtree(os.path.join(base, "ctl-%d" % c["idx"]))


# --------------------------------------------------------------------------
# several programmatic invocations in ONE process (libcnb_runtime_detect / libcnb_runtime_build are exposed for that):
# every invocation gets the context of ITS inputs, nothing carried over from an earlier one

def run_inproc(base, seq_idx, seed, sh):
    import subprocess
    r = vp.rng(seed, "c06-inproc", seq_idx)
    root = os.path.join(base, "seq%d" % seq_idx)
    invs, wants = [], []
    try:
        for k in range(r.randint(2, 4)):
            lay = phase.Layout(os.path.join(root, "inv%d" % k))
            lay.create()
            ident = {"id": "vp/inproc-%d-%d" % (seq_idx, k), "version": "%d.%d.%d" % (k, r.randrange(9), r.randrange(9)), "name": r.choice(["N%d" % k, "日本 %d" % k]),
                     "metadata": {"which": "invocation %d" % k, "n": k}}
            with open(os.path.join(lay.bp, "buildpack.toml"), "w") as f:
                f.write(tomlw.selfcheck({"api": "0.10", "buildpack": {"id": ident["id"], "version": ident["version"], "name": ident["name"]}, "metadata": ident["metadata"]}))
            env_files = {("VAR_%d" % k).encode(): ("value of invocation %d" % k).encode(), b"SHARED": ("shared-%d" % k).encode()}
            if r.random() < 0.3:
                env_files = {}
            os.makedirs(os.path.join(lay.platform, "env"))
            for n, v in env_files.items():
                with open(os.path.join(os.fsencode(lay.platform), b"env", n), "wb") as f:
                    f.write(v)
            ph = r.choice(["detect", "build"])
            plan = [("dep-%d" % k, {"inv": k})] if ph == "build" else []
            with open(lay.plan, "w") as f:
                f.write(tomlw.selfcheck({"entries": [{"name": n, "metadata": m} for n, m in plan]}) if plan else "")
            store = None
            if ph == "build" and r.random() < 0.6:
                store = {"from": "invocation %d" % k}
                with open(os.path.join(lay.layers, "store.toml"), "w") as f:
                    f.write(tomlw.selfcheck({"metadata": store}))
            targets = {"CNB_TARGET_OS": r.choice(["linux", "windows"]), "CNB_TARGET_ARCH": r.choice(["amd64", "arm64"]), "CNB_TARGET_DISTRO_NAME": "distro%d" % k, "CNB_TARGET_DISTRO_VERSION": "%d.04" % k}
            unset = []
            if r.random() < 0.5:
                targets["CNB_TARGET_ARCH_VARIANT"] = "v%d" % k
            else:
                unset.append("CNB_TARGET_ARCH_VARIANT")
            result = os.path.join(lay.root, "result.json")
            invs.append({"phase": ph, "env": [["CNB_BUILDPACK_DIR", lay.bp]] + [[a, b] for a, b in targets.items()], "unset": unset, "cwd": lay.app,
                         "args": lay.detect_args() if ph == "detect" else lay.build_args(), "script": {"marker": lay.marker, "dump": lay.dump}, "result": result})
            wants.append({"lay": lay, "ident": ident, "env": env_files, "phase": ph, "plan": plan, "store": store, "targets": targets, "result": result})
        planfile = os.path.join(root, "inproc.json")
        with open(planfile, "w") as f:
            json.dump({"invocations": invs}, f)
        p = subprocess.run([os.path.join(vp.BIN, "vpbp")], env=dict(vp.hostile_env(), PATH="/usr/bin:/bin", VPBP_INPROC=planfile), stdout=subprocess.PIPE, stderr=subprocess.PIPE, timeout=60)
        case = {"kind": "inproc", "seq": seq_idx, "phases": [w["phase"] for w in wants]}
        for k, w in enumerate(wants):
            sh.evaluations += 1
            what = "invocation #%d (%s) of %d in one process" % (k, w["phase"], len(wants))
            if not os.path.exists(w["result"]) or not os.path.exists(w["lay"].dump):
                sh.violation("inproc:not-run", "%s did not run to the buildpack code: process exit %d, stderr %s" % (what, p.returncode, p.stderr.decode(errors="replace")[-300:]), case)
                return
            res = json.load(open(w["result"]))
            got = json.load(open(w["lay"].dump))
            if res != {"code": 0}:
                sh.violation("inproc:result", "%s returned %r" % (what, res), case)
                return
            d = got["descriptor"]
            bad = []
            if (d["id"], d["version"], d["name"]) != (w["ident"]["id"], w["ident"]["version"], w["ident"]["name"]) or not tomlw.same(tomlw.untagged(d["metadata"]), w["ident"]["metadata"]):
                bad.append("descriptor %r (its buildpack.toml: %r)" % ({k2: d[k2] for k2 in ("id", "version", "name")}, w["ident"]))
            if got["buildpack_dir"] != w["lay"].bp or got["app_dir"] != w["lay"].app or (w["phase"] == "build" and got["layers_dir"] != w["lay"].layers):
                bad.append("directories %r / %r" % (got["buildpack_dir"], got["app_dir"]))
            if {bytes.fromhex(a): bytes.fromhex(b) for a, b in got["platform_env"]} != w["env"]:
                bad.append("platform env %r (its files: %r)" % (got["platform_env"], w["env"]))
            t = w["targets"]
            if got["target"] != {"os": t["CNB_TARGET_OS"], "arch": t["CNB_TARGET_ARCH"], "arch_variant": t.get("CNB_TARGET_ARCH_VARIANT"), "distro_name": t["CNB_TARGET_DISTRO_NAME"], "distro_version": t["CNB_TARGET_DISTRO_VERSION"]}:
                bad.append("target %r (its environment: %r)" % (got["target"], t))
            if w["phase"] == "build":
                if [(e["name"], tomlw.untagged(e["metadata"])) for e in got["plan"]] != [(n, m) for n, m in w["plan"]]:
                    bad.append("plan %r" % (got["plan"],))
                gs = None if got["store"] is None else tomlw.untagged(got["store"])
                if gs != w["store"]:
                    bad.append("store %r (its store.toml: %r)" % (gs, w["store"]))
            if bad:
                sh.violation("inproc:carried-over", "%s: the context does not reflect this invocation's inputs: %s" % (what, "; ".join(bad)), case)
                return
        sh.nontrivial.add(("inproc", tuple(w["phase"] for w in wants)))
    finally:
        vp.rmtree(root)


def shard_run(arg):
    seed, idxs, work = arg[:3]
    sh = vp.Shard()
    base = os.path.join(work, "w%d" % os.getpid())
    os.makedirs(base, exist_ok=True)
    phase.EXTRA_ENV.clear()
    phase.EXTRA_ENV.update(arg[3] if len(arg) > 3 else {})
    try:
        for idx in idxs:
            run_case(base, gen_case(vp.rng(seed, "c06", idx), idx), sh)
            if idx % 10 == 3:
                run_inproc(base, idx, seed, sh)
    finally:
        phase.EXTRA_ENV.clear()
        vp.rmtree(base)
    return sh.dict()


def run(tier, seed, work):
    res = vp.Result("C06", tier, seed, "exploration")
    n = 5000 if tier == "quick" else 160000
    for d in vp.pmap(shard_run, [(seed, s, work) for s in vp.split(range(n), vp.NCPU)]):
        res.merge(d)
    # ambient-read monitor: which environment variables do the phases ask for besides their documented inputs? Each such name is set to a
    # hostile value and a part of the workload runs again (the oracle knows only the documented inputs)
    lay = phase.Layout(os.path.join(work, "envprobe"))
    lay.create()
    with open(os.path.join(lay.bp, "buildpack.toml"), "w") as f:
        f.write(phase.BP_TOML_OK)
    os.makedirs(os.path.join(lay.platform, "env"))
    with open(lay.plan, "w") as f:
        f.write("")
    asked = phase.env_reads(lay, [("detect", lay.detect_args(), lay.env(), {"detect": {"result": "pass"}}), ("build", lay.build_args(), lay.env(), {"build": {"result": "ok", "launch": None, "store": None, "build_sboms": [], "launch_sboms": []}})])
    vp.rmtree(lay.root)
    res.extra["environment_variables_asked_for"] = asked
    if asked:
        hostile = {name: os.path.join(vp.ambient_dir(), "decoy") for name in asked}
        for d in vp.pmap(shard_run, [(seed, s, work, hostile) for s in vp.split(range(min(n, 600)), vp.NCPU)]):
            res.merge(d)
    res.rule = ("evaluations = phase executions whose context dump was compared with the generated inputs. distinct_nontrivial = distinct (phase, set of entry kinds in <platform>/env "
                "[file, dir, link-file, link-dir, dangling, bad-utf8], env dir present, plan size, store.toml kind, arch variant present) combinations, plus (error, cause, phase) classes")
    res.assumptions = ["directories, symlinks to directories and dangling links inside <platform>/env are expected to be skipped silently; a missing env dir / store.toml is tolerated",
                       "non-UTF-8 file content, a non-UTF-8 CNB_TARGET_* value, or an unreadable / malformed / metadata-less store.toml must end in the error path (on_error once, non-zero exit, no context)"]
    return res


def replay(case, work):
    res = vp.Result("C06", "quick", 0, "exploration")
    seed = int(os.environ.get("VERIF_SEED", "0"))
    sh = vp.Shard()
    if case.get("kind") == "inproc":
        run_inproc(work, case["seq"], seed, sh)
    else:
        run_case(work, gen_case(vp.rng(seed, "c06", case["idx"]), case["idx"]), sh)
    sh.nontrivial.update({"replay-a", "replay-b"})
    res.merge(sh.dict())
    res.rule = "replay of one recorded case (regenerated from VERIF_SEED and its index)"
    res.sample({"idx": case.get("idx", case.get("seq"))})
    return res
