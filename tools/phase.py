"""Runs the scripted test buildpack (harness vpbp = the real libcnb_runtime) as a detect/build
executable inside a prepared directory layout. Plumbing shared by C05, C06, C12, C20."""
import json
import os
import subprocess

import vp

TARGET_VARS = ["CNB_TARGET_OS", "CNB_TARGET_ARCH", "CNB_TARGET_ARCH_VARIANT", "CNB_TARGET_DISTRO_NAME", "CNB_TARGET_DISTRO_VERSION"]
TARGET_DEFAULT = {"CNB_TARGET_OS": "linux", "CNB_TARGET_ARCH": "amd64", "CNB_TARGET_ARCH_VARIANT": "v8", "CNB_TARGET_DISTRO_NAME": "ubuntu", "CNB_TARGET_DISTRO_VERSION": "24.04"}
BP_TOML_OK = 'api = "0.10"\n\n[buildpack]\nid = "vp/scripted"\nversion = "1.2.3"\n'


def _strip_intents(x):
    """Keys ending in _intent hold the generator's own expectation (python objects); the executable never sees them."""
    if isinstance(x, dict):
        return {k: _strip_intents(v) for k, v in x.items() if not k.endswith("_intent")}
    if isinstance(x, list):
        return [_strip_intents(v) for v in x]
    return x


EXTRA_ENV = {}      # set (per worker, for the duration of a shard) by checks that re-run a part of their workload under a hostile value of every
                    # environment variable the ambient-read monitor saw the phases ask for


def env_reads(lay, runs):
    """ambient-read monitor for the phase executables: runs = [(name, args, env, script)]; -> names asked for that are neither runtime /
    locale variables nor documented inputs"""
    log = os.path.join(lay.root, "envreads.log")
    for name, args, env, script in runs:
        lay.run(name, args, env, script, extra_env={"LD_PRELOAD": vp.build_envshim(), "VP_ENVSHIM_LOG": log})
    names = [l.strip() for l in open(log, errors="replace")] if os.path.exists(log) else []
    return vp.filter_env_reads(names)


class Layout:
    def __init__(self, root, exe="vpbp"):
        self.root = root
        self.exe = exe          # "vpbp": main calls libcnb_runtime itself; "vpbpm": main is the one buildpack_main! writes
        self.bp = os.path.join(root, "bp")
        self.app = os.path.join(root, "app")
        self.layers = os.path.join(root, "layers")
        self.platform = os.path.join(root, "platform")
        self.plan = os.path.join(root, "plan.toml")
        self.marker = os.path.join(root, "marker")
        self.dump = os.path.join(root, "dump.json")
        self.script = os.path.join(root, "script.json")

    def create(self, names=("detect", "build")):
        for d in (self.bp, self.app, self.layers, self.platform, os.path.join(self.bp, "bin")):
            os.makedirs(d, exist_ok=True)
        for n in names:
            p = os.path.join(self.bp, "bin", n)
            if not os.path.lexists(p):
                os.symlink(os.path.join(vp.BIN, self.exe), p)

    def reset_outputs(self):
        for p in (self.marker, self.dump):
            if os.path.exists(p):
                os.unlink(p)

    def run(self, name, args, env, script, timeout=60, preload=None, cwd=None, extra_env=None, preexec=None, stdout_full=False):
        """stdout_full: the executable's stdout is /dev/full (a log pipe whose reader went away); script["print"] makes the buildpack code
        leave an unterminated line in the stdout buffer"""
        with open(self.script, "w") as f:
            json.dump(_strip_intents(script), f, allow_nan=False)
        e = dict(vp.hostile_env())      # (CI variables, a stale $PWD, stale CNB_* path variables of an outer run, ...: none of them is an input)
        e.update({"PATH": "/usr/bin:/bin", "VPBP_SCRIPT": self.script})
        e.update(EXTRA_ENV)
        e.update(env)
        if extra_env:
            e.update(extra_env)
        exe = os.path.join(self.bp, "bin", name)
        p = subprocess.run([exe] + list(args), cwd=cwd or self.app, env=e, stdout=open("/dev/full", "wb") if stdout_full else subprocess.PIPE, stderr=subprocess.PIPE, timeout=timeout, preexec_fn=preexec)
        marker = open(self.marker).read().split("\n")[:-1] if os.path.exists(self.marker) else []
        return p.returncode, marker, p.stderr.decode(errors="replace")

    def detect_args(self):
        return [self.platform, self.plan]

    def build_args(self):
        return [self.layers, self.platform, self.plan]

    def env(self, bpdir=True, targets=None):
        e = {}
        if bpdir:
            e["CNB_BUILDPACK_DIR"] = self.bp
        t = dict(TARGET_DEFAULT) if targets is None else targets
        e.update(t)
        return e
