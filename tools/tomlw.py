"""A small TOML 1.0 writer (independent of any Rust code) used to generate input
documents, plus helpers to compare values with what CPython's tomllib reads.

Python-side TOML values: str, bool, int, float, Dt (date/time literal), list, dict.
"""
import math
import tomllib


class Dt:
    """A TOML date/time literal, kept as its source text."""

    def __init__(self, lit):
        self.lit = lit

    def py(self):
        return tomllib.loads("x = " + self.lit)["x"]

    def __repr__(self):
        return "Dt(%s)" % self.lit

    def __eq__(self, o):
        return isinstance(o, Dt) and o.py() == self.py()

    def __hash__(self):
        return hash(self.lit)


def qstr(s):
    out = ['"']
    for ch in s:
        o = ord(ch)
        if ch == '"':
            out.append('\\"')
        elif ch == "\\":
            out.append("\\\\")
        elif o < 0x20 or o == 0x7F:
            out.append({"\n": "\\n", "\t": "\\t", "\r": "\\r"}.get(ch, "\\u%04X" % o))
        else:
            out.append(ch)
    out.append('"')
    return "".join(out)


def key(k):
    if k and all(c.isascii() and (c.isalnum() or c in "_-") for c in k):
        return k
    return qstr(k)


def val(v):
    if isinstance(v, bool):
        return "true" if v else "false"
    if isinstance(v, int):
        return str(v)
    if isinstance(v, float):
        if math.isnan(v):
            return "nan"
        if math.isinf(v):
            return "inf" if v > 0 else "-inf"
        r = repr(v)
        if "e" not in r and "." not in r:
            r += ".0"
        return r
    if isinstance(v, str):
        return qstr(v)
    if isinstance(v, Dt):
        return v.lit
    if isinstance(v, list):
        return "[" + ", ".join(val(x) for x in v) + "]"
    if isinstance(v, dict):
        return "{" + ", ".join("%s = %s" % (key(k), val(x)) for k, x in v.items()) + "}"
    raise TypeError(type(v))


def doc(d, inline_depth=2):
    """Render dict d as a document; tables / arrays of tables get headers down to
    inline_depth levels, deeper values are written inline."""
    lines = []

    def emit(table, path, depth):
        scalars = []
        subs = []
        for k, v in table.items():
            if depth < inline_depth and isinstance(v, dict):
                subs.append((k, v, "t"))
            elif depth < inline_depth and isinstance(v, list) and v and all(isinstance(x, dict) for x in v):
                subs.append((k, v, "a"))
            else:
                scalars.append((k, v))
        for k, v in scalars:
            lines.append("%s = %s" % (key(k), val(v)))
        for k, v, kind in subs:
            p = path + [key(k)]
            if kind == "t":
                lines.append("")
                lines.append("[%s]" % ".".join(p))
                emit(v, p, depth + 1)
            else:
                for item in v:
                    lines.append("")
                    lines.append("[[%s]]" % ".".join(p))
                    emit(item, p, depth + 1)

    emit(d, [], 0)
    text = "\n".join(lines) + "\n"
    return text


def to_py(v):
    """Intent value -> what tomllib would return for it."""
    if isinstance(v, Dt):
        return v.py()
    if isinstance(v, list):
        return [to_py(x) for x in v]
    if isinstance(v, dict):
        return {k: to_py(x) for k, x in v.items()}
    return v


def same(a, b):
    """Equality of tomllib-style values: NaN equals NaN, int != float, bool != int."""
    if isinstance(a, float) and isinstance(b, float):
        if math.isnan(a) or math.isnan(b):
            return math.isnan(a) and math.isnan(b)
        return a == b and math.copysign(1, a) == math.copysign(1, b)
    if type(a) is not type(b):
        return False
    if isinstance(a, list):
        return len(a) == len(b) and all(same(x, y) for x, y in zip(a, b))
    if isinstance(a, dict):
        return a.keys() == b.keys() and all(same(a[k], b[k]) for k in a)
    return a == b


def tagged(v):
    """Intent value -> the tagged JSON encoding understood by the Rust executors."""
    if isinstance(v, bool):
        return {"b": v}
    if isinstance(v, int):
        return {"i": v}
    if isinstance(v, float):
        if math.isnan(v):
            return {"f": "nan"}
        if math.isinf(v):
            return {"f": "inf" if v > 0 else "-inf"}
        return {"f": repr(v)}
    if isinstance(v, str):
        return {"s": v}
    if isinstance(v, Dt):
        return {"dt": v.lit}
    if isinstance(v, list):
        return {"a": [tagged(x) for x in v]}
    if isinstance(v, dict):
        return {"t": [[k, tagged(x)] for k, x in v.items()]}
    raise TypeError(type(v))


def untagged(j):
    """Tagged JSON (dump from the Rust side) -> tomllib-style python value."""
    (k, x), = j.items()
    if k == "s":
        return x
    if k == "i":
        return x
    if k == "b":
        return x
    if k == "f":
        return float(x)
    if k == "dt":
        return tomllib.loads("x = " + x)["x"]
    if k == "a":
        return [untagged(y) for y in x]
    if k == "t":
        return {kk: untagged(v) for kk, v in x}
    raise ValueError(k)


def selfcheck(d, text=None):
    """The writer's own output must read back (through tomllib) as the intent."""
    text = text if text is not None else doc(d)
    got = tomllib.loads(text)
    assert same(got, to_py(d)), (text, got, d)
    return text


RND_STRINGS = ["", "plain", 'q"uote', "back\\slash", "nl\nline", "cr\r\nlf", "tab\there", "\x00nul", "\x1b[0m", "\x7fdel",
               "café", "日本語", "\U0001F600", "  spaces  ", "#hash", "=eq", "a.b", "[br]", "'sq'", "${VAR}",
               "x" * 300, " ls", "﻿bom"]
RND_STRINGS += ["trail\n", "\n", "\nlead", "two\n\n", "cr\r", "sp "]      # values whose last or first character is the line terminator


def rnd_value(r, depth=0):
    k = r.random()
    if depth >= 3:
        k *= 0.7
    if k < 0.22:
        return r.choice(RND_STRINGS)
    if k < 0.34:
        return r.choice([0, 1, -1, 42, 2 ** 63 - 1, -2 ** 63, 1234567890123])
    if k < 0.44:
        return r.choice([0.0, -0.0, 1.5, -2.25, 1e300, 1e-300, float("inf"), float("-inf"), float("nan"), 3.141592653589793])
    if k < 0.52:
        return r.random() < 0.5
    if k < 0.60:
        return Dt(r.choice(["1979-05-27T07:32:00Z", "1979-05-27T00:32:00-07:00", "1979-05-27T07:32:00", "1979-05-27", "07:32:00",
                            "1979-05-27T07:32:00.999999Z", "07:32:00.5"]))
    if k < 0.80:
        n = r.choice([0, 1, 2, 3])
        kind = r.random()
        if kind < 0.4:
            return [rnd_value(r, depth + 1) for _ in range(n)]          # mixed array
        if kind < 0.7:
            return [r.choice(RND_STRINGS) for _ in range(n)]
        return [rnd_table(r, depth + 1) for _ in range(n)]              # array of tables
    return rnd_table(r, depth + 1)


RND_KEYS = ["a", "b", "key", "with space", "dotted.key", "", "café", "q\"k", "UPPER", "k-1", "k_2", "0", "true"]


def rnd_big_table(r):
    """beyond the usual sizes: hundreds of keys, a very long string, a long array, a deep chain of tables"""
    t = {"k%03d" % i: r.choice(RND_STRINGS + [i, i % 2 == 0, 0.5 * i]) for i in range(r.randint(80, 300))}
    # (runs of one quote character stay below 256 here: longer ones are C07's listed finding and are exercised there, deterministically)
    t["long"] = r.choice(["x", "é", "\n", "\"" * 255 + "'" * 255 + "x"]) * r.choice([4095, 4096, 65536, 70001])
    t["long"] = t["long"][:70001]
    t["many"] = [r.choice(RND_STRINGS) for _ in range(r.randint(100, 600))]
    deep = {"leaf": r.choice(RND_STRINGS)}
    for i in range(r.randint(8, 20)):
        deep = {r.choice(["d", "with space", "é"]): deep}
    t["deep"] = deep
    return t


def rnd_table(r, depth=0, minkeys=0):
    if depth == 0 and r.random() < 0.004:
        return rnd_big_table(r)
    n = r.choice([0, 1, 2, 3, 5]) if depth else r.choice([1, 2, 3, 5, 8])
    n = max(n, minkeys)
    keys = r.sample(RND_KEYS, min(n, len(RND_KEYS)))
    return {k: rnd_value(r, depth) for k in keys}
