"""C16 — libcnb-test removes every Docker resource and temp dir however the test ends.
Scenario trees are interpreted by the real TestRunner; exactly one fault per run (a panic at a node or
the j-th external command failing); the stand-ins' argv log and TMPDIR are judged afterwards."""
import copy
import itertools
import os
import platform
import zlib

import testrun
import vp

COMPOSITE = 'api = "0.10"\n\n[buildpack]\nid = "%s"\nversion = "0.1.0"\n\n[[order]]\n\n[[order.group]]\nid = "%s"\nversion = "1.0.0"\n'
FIXTURE = {"fixtures/app/index.txt": "hello", "fixtures/app/sub/file": "x", "Cargo.toml": "[package]\nname = \"fixturecrate\"\nversion = \"0.0.0\"\nedition = \"2021\"\n\n[workspace]\n", "src/lib.rs": "",
           # the crate under test is itself a (composite) buildpack, and its workspace holds a second one that depends on it: both can be
           # packaged by libcnb-test without compiling anything
           # (the crate's own buildpack depends on the other one: packaging it means packaging both, dependency first)
           "buildpack.toml": COMPOSITE % ("vp/meta2", "vp/meta"), "package.toml": '[buildpack]\nuri = "."\n\n[[dependencies]]\nuri = "libcnb:vp/meta"\n\n[[dependencies]]\nuri = "docker://docker.io/heroku/procfile-cnb:2.0.1"\n',
           "meta/buildpack.toml": COMPOSITE % ("vp/meta", "heroku/procfile"), "meta/package.toml": '[buildpack]\nuri = "."\n\n[[dependencies]]\nuri = "docker://docker.io/heroku/procfile-cnb:2.0.1"\n'}
FIXTURE.update({"../canary/precious.txt": "outside the app, outside every temporary directory", "../canary/sub/deep.txt": "deep", "../canary/sub/ro/file": "read-only dir"})
CANARY_WANT = {"precious.txt": "outside the app, outside every temporary directory", "sub/deep.txt": "deep", "sub/ro/file": "read-only dir"}


def canary_damage(env):
    """what is wrong with the directory next to the crate that the runs only ever link to"""
    bad = []
    for rel, content in CANARY_WANT.items():
        p = os.path.join(env.root, "canary", rel)
        try:
            if open(p).read() != content:
                bad.append("%s changed" % rel)
        except OSError as e:
            bad.append("%s: %s" % (rel, e.strerror))
    return bad


LOCAL_REFS = [["@crate"], ["@ws:vp/meta", "heroku/procfile"], ["@ws:vp/meta2", "@crate"]]
CONTAINER_OPS = [{"op": "logs_now"}, {"op": "address_for_port", "port": 8080}, {"op": "shell_exec", "command": "ps"}, {"op": "logs_wait"}]
CCONF = {"entrypoint": "web", "command": ["--serve"], "env": [["PORT", "8080"]], "ports": [8080, 9090], "mounts": []}


def bconf(pre=False, expected="success", builder="heroku/builder:24"):
    return {"builder": builder, "app_dir": "fixtures/app", "buildpacks": ["heroku/procfile"], "env": [["A", "1"], ["B", "2"]],
            # (the preprocessor also links a directory from outside into its copy of the app: cleaning up the copy removes the link, not what it points to)
            "preprocessor": {"add": [["added.txt", "new"]], "remove": ["index.txt"], "symlink": [["vendor-link", "@crate/../canary"], ["file-link", "@crate/../canary/precious.txt"]]} if pre else None, "expected": expected}


def leaf_nodes():
    return [{"op": "run_shell_command", "command": "env"}, {"op": "download_sbom_files"}]


def container_nodes(depth):
    out = [{"op": "start_container", "config": CCONF, "body": []}]
    for ops in itertools.chain(itertools.combinations(CONTAINER_OPS, 1), itertools.combinations(CONTAINER_OPS, 2) if depth >= 2 else []):
        out.append({"op": "start_container", "config": CCONF, "body": list(ops)})
    return out


def bodies(depth, rebuilds_left):
    """all build-closure bodies up to the bounds"""
    atoms = leaf_nodes() + container_nodes(depth)
    out = [[]]
    for a in atoms:
        out.append([a])
    if depth >= 2:
        for a, b in itertools.product(atoms[:4], atoms):
            out.append([a, b])
    if rebuilds_left > 0:
        for pre in ([], [atoms[0]], [atoms[2]]):
            for inner in bodies(depth - 1, rebuilds_left - 1)[: 6 if depth < 3 else 14]:
                for prep in (False, True):
                    out.append(pre + [{"op": "rebuild", "config": bconf(prep, builder="other/builder:22" if prep else "heroku/builder:24"), "body": inner}])
    return out


def random_body(r, rebuilds_left):
    """a random build-closure body beyond the enumerated bounds: up to 4 nodes, containers with up to 4 operations in any
    order (repeats allowed), rebuilds nested up to three deep"""
    nodes = []
    for _ in range(r.randint(0, 4)):
        if r.random() < 0.3:
            nodes.append(r.choice(leaf_nodes()))
        else:
            nodes.append({"op": "start_container", "config": CCONF, "body": [copy.deepcopy(r.choice(CONTAINER_OPS)) for _ in range(r.randint(0, 4))]})
    if rebuilds_left > 0 and r.random() < 0.6:
        nodes.append({"op": "rebuild", "config": bconf(r.random() < 0.5, builder=r.choice(["heroku/builder:24", "other/builder:22"])), "body": random_body(r, rebuilds_left - 1)})
    return nodes


def count_panic_points(body):
    """positions where a panic node can be inserted: (path, index)"""
    pts = []

    def walk(nodes, path):
        limit = len(nodes) + 1
        if nodes and nodes[-1]["op"] == "rebuild":
            limit = len(nodes)          # nothing may follow a rebuild
        for i in range(limit):
            pts.append((path, i))
        for j, n in enumerate(nodes):
            if "body" in n:
                walk(n["body"], path + [j])
    walk(body, [])
    return pts


def insert_panic(body, point):
    b = copy.deepcopy(body)
    path, idx = point
    nodes = b
    for j in path:
        nodes = nodes[j]["body"]
    nodes.insert(idx, {"op": "panic"})
    return b


def judge(log, leftovers, rc, what, fault, sh, case):
    """the cleanup rules over the argv log"""
    if rc is None:
        sh.inconclusive.append("%s: scenario timed out" % what)
        return False
    if rc < 0:
        sh.violation("aborted", "%s: the test process died from signal %d (a panic while panicking aborts and skips all remaining cleanup)" % (what, -rc), case)
        return False
    try:
        cmds = [testrun.decode(e) for e in log]
    except testrun.ParseError as e:
        sh.violation("unparsable-command", "%s: %s" % (what, e), case)
        return False
    for e in log:
        if e.get("endpoint_env") != testrun.ENDPOINT_ENV:
            sh.violation("other-daemon:%s" % e["kind"], "%s: command #%d (%s) addresses another docker endpoint than the test process (%r instead of %r): what it creates or removes is "
                         "created or removed elsewhere" % (what, e["seq"], e["kind"], e.get("endpoint_env"), testrun.ENDPOINT_ENV), case)
            return False
    images, containers, volumes = {}, {}, set()
    for c in cmds:
        if c["kind"] == "pack build":
            images.setdefault(c["image"], []).append(c["seq"])
            for t in ("build", "launch"):
                volumes.add(c["caches"].get(t, {}).get("name"))
            if set(c["caches"]) != {"build", "launch"} or c["caches"]["build"].get("name") != c["image"] + ".build-cache" or c["caches"]["launch"].get("name") != c["image"] + ".launch-cache":
                sh.violation("cache-names", "%s: pack build uses cache volumes %r for image %s" % (what, c["caches"], c["image"]), case)
                return False
        if c["kind"] == "docker run":
            if c["detach"]:
                containers[c["name"]] = c["seq"]
            elif not c["rm"]:
                sh.violation("run-without-rm", "%s: non-detached docker run without --rm: %r" % (what, log[c["seq"]]["argv"]), case)
                return False
    for name, started in containers.items():
        rms = [c for c in cmds if c["kind"] == "docker rm" and name in c["names"] and c["seq"] > started]
        if not rms:
            sh.violation("container-leaked:%s" % fault["kind"], "%s: container %s was started detached (command #%d%s) but never removed; commands: %s"
                         % (what, name, started, ", the start failed" if log[started]["failed"] else "", [e["kind"] for e in log]), case)
            return False
        if not all(c["force"] for c in rms):
            sh.violation("rm-without-force", "%s: docker rm without --force" % what, case)
            return False
    for image, builds in images.items():
        uses = [c["seq"] for c in cmds if c["kind"] in ("pack build", "docker run", "pack sbom download") and (c.get("image") == image or image in c.get("names", []))]
        last_use = max(uses)
        rmis = [c for c in cmds if c["kind"] == "docker rmi" and image in c["names"]]
        vols = [c for c in cmds if c["kind"] == "docker volume remove" and set(c["names"]) == {image + ".build-cache", image + ".launch-cache"}]
        for label, lst in (("image", rmis), ("cache volumes", vols)):
            if len(lst) != 1:
                sh.violation("%s-removed-%d-times:%s" % (label.split()[0], len(lst), fault["kind"]), "%s: the %s of %s were removed %d times (expected exactly once); commands: %s"
                             % (what, label, image, len(lst), [e["kind"] + (" [failed]" if e["failed"] else "") for e in log]), case)
                return False
            if lst[0]["seq"] < last_use:
                sh.violation("removed-before-last-use", "%s: the %s of %s were removed by command #%d, but the image is still used by command #%d" % (what, label, image, lst[0]["seq"], last_use), case)
                return False
            if not lst[0]["force"]:
                sh.violation("remove-without-force", "%s: %s removed without --force" % (what, label), case)
                return False
        # ... and counted per volume NAME (a removal of one of the two volumes on its own is a removal too)
        for vol in (image + ".build-cache", image + ".launch-cache"):
            hits = [c for c in cmds if c["kind"] == "docker volume remove" and vol in c["names"]]
            if len(hits) != 1 or hits[0]["seq"] < last_use:
                sh.violation("volume-removed-%d-times:%s" % (len(hits), fault["kind"]) if len(hits) != 1 else "removed-before-last-use",
                             "%s: the volume %s is named by %d volume-remove commands (%r); the image is last used by command #%d; commands: %s"
                             % (what, vol, len(hits), [c["seq"] for c in hits], last_use, [e["kind"] + (" [failed]" if e["failed"] else "") for e in log]), case)
                return False
    import re
    own = re.compile(r"^libcnbtest_[a-z]{12}$")
    # identifiers the runner allocated for a build whose pack build never ran (the fault hit earlier): the runner may still remove
    # them - its own random names - once each, and nothing else
    pre = [c for c in cmds if c["kind"] in ("docker rmi", "docker volume remove")]
    for i in sorted({n.split(".")[0] for c in pre for n in c["names"]} - set(images)):
        n_rmi = len([c for c in pre if c["kind"] == "docker rmi" and i in c["names"]])
        n_vol = len([c for c in pre if c["kind"] == "docker volume remove" and any(n.split(".")[0] == i for n in c["names"])])
        if not own.match(i) or n_rmi > 1 or n_vol > 1:
            sh.violation("foreign-removed", "%s: removal of %r, which this run never built (rmi x%d, volume remove x%d); images built: %r" % (what, i, n_rmi, n_vol, sorted(images)), case)
            return False
        images[i] = []
        volumes.update({i + ".build-cache", i + ".launch-cache"})
    for c in cmds:
        if c["kind"] == "docker rm" and any(n not in containers for n in c["names"]):
            sh.violation("foreign-container-removed", "%s: docker rm %r, containers started by this run: %r" % (what, c["names"], sorted(containers)), case)
            return False
        if c["kind"] == "docker rmi" and any(n not in images for n in c["names"]):
            sh.violation("foreign-image-removed", "%s: docker rmi %r, images built by this run: %r" % (what, c["names"], sorted(images)), case)
            return False
        if c["kind"] == "docker volume remove" and any(n not in volumes for n in c["names"]):
            sh.violation("foreign-volume-removed", "%s: docker volume remove %r, volumes of this run: %r" % (what, c["names"], sorted(volumes)), case)
            return False
    # (identifiers are random: over the thousands of runs of one check no name may come up twice - see run())
    for n in set(images) | set(containers):
        sh.add("names_seen", n)
    sh.count("names_allocated", len(set(images) | set(containers)))
    if leftovers:
        sh.violation("tempdir-leaked:%s" % fault["kind"], "%s: temporary directories left behind in TMPDIR: %r" % (what, leftovers), case)
        return False
    return True


def shape_of(body):
    def s(nodes):
        return tuple((n["op"], s(n["body"])) if "body" in n else n["op"] for n in nodes)
    return s(body)


def position_class(body, fault, log):
    if fault["kind"] == "none":
        return "none"
    if fault["kind"] == "command":
        return "cmd:" + fault.get("command_kind", "?") + (":big-output" if fault.get("output") else "") + (":signal" if fault.get("signal") else "") + (":" + fault["stderr"] if fault.get("stderr") else "")
    if fault["kind"] == "docker-gone":
        return "docker-gone-then-second-build"
    if fault["kind"] == "spawn":
        return "spawn-failure"
    if fault["kind"] == "preprocessor-panic":
        return "panic-in-preprocessor"
    path, idx = fault["point"]
    nodes = body
    inside = "build"
    for j in path:
        inside = nodes[j]["op"]
        nodes = nodes[j]["body"]
    return "panic-in-%s-%s" % (inside, "start" if idx == 0 else "end" if idx >= len(nodes) else "middle")


def run_tree(env, tidx, tree, sh):
    """tree = (first build config, body). Runs the baseline, then one run per fault position."""
    cfg, body = tree
    if tidx % 3 == 1 and not env.as_nobody and platform.machine() == "x86_64":
        # buildpacks of the crate under test and its workspace: packaged into a temporary directory that has to go away like everything else
        # (composite buildpacks: nothing is compiled; the default musl target, whose C compiler libcnb-test merely looks up on PATH - a stand-in)
        local = {"buildpacks": LOCAL_REFS[tidx // 3 % 3]}
        cfg = dict(cfg, **local)
        body = copy.deepcopy(body)

        def localise(nodes):
            for n in nodes:
                if n["op"] == "rebuild" and zlib.crc32(b"%d" % tidx) % 3 != 0:
                    n["config"].update(local)
                    sh.count("rebuilds_with_locally_packaged_buildpacks")
                localise(n.get("body", []))
        localise(body)
        sh.count("trees_with_locally_packaged_buildpacks")
    scenario = {"builds": [{"config": cfg, "body": body}]}
    if tidx % 5 == 4:
        # a second, independent build in the same test: its resources must not be mixed up with the first one's
        scenario["builds"].append({"config": bconf(pre=tidx % 2 == 0), "body": [{"op": "run_shell_command", "command": "true"}]})
    case0 = {"tree": tidx, "scenario": scenario, "as_nobody": env.as_nobody}
    rc, err, log, left = env.run(scenario)
    sh.evaluations += 1
    def expects_failure(nodes):
        return any((n["op"] == "rebuild" and n["config"]["expected"] == "failure") or expects_failure(n.get("body", [])) for n in nodes)
    expected_fail = cfg["expected"] == "failure" or expects_failure(body)
    if expects_failure(body):
        sh.count("trees_with_a_rebuild_that_expects_failure")
    base_fault = {"kind": "none"}
    what = "scenario %r without injected fault" % (shape_of(body),)
    if expected_fail:
        # pack succeeds although a failure is expected: the runner panics by itself
        pass
    elif rc != 0:
        sh.violation("baseline-failed", "%s: exit %r, stderr %s" % (what, rc, err[-300:]), case0)
        return
    if not judge(log, left, rc, what, base_fault, sh, dict(case0, fault=base_fault)):
        return
    if canary_damage(env):
        sh.violation("outside-removed:none", "%s: files outside the app and outside every temporary directory were removed or changed: %r" % (what, canary_damage(env)), dict(case0, fault=base_fault))
        return
    ncmds = len(log)
    faults = [{"kind": "command", "seq": j, "command_kind": log[j]["kind"]} for j in range(ncmds)]
    faults += [{"kind": "command", "seq": j, "command_kind": log[j]["kind"], "output": "big-unicode"} for j in range(ncmds) if (j + tidx) % 2 == 0]
    # pack disappears (cannot be spawned) right before a later pack build, i.e. before a rebuild
    faults += [{"kind": "spawn", "seq": j, "command_kind": "pack build (spawn fails)"} for j in range(1, ncmds) if log[j]["kind"] == "pack build"]
    # a command that is killed by a signal instead of exiting with a code (every third position)
    faults += [{"kind": "command", "seq": j, "command_kind": log[j]["kind"], "signal": 9} for j in range(ncmds) if (j + tidx) % 3 == 0]
    # `docker run` fails the way it does when the host port is taken (exit 125, "port is already allocated"; the container has been created)
    faults += [{"kind": "command", "seq": j, "command_kind": log[j]["kind"], "stderr": "port-allocated"} for j in range(ncmds) if log[j]["kind"] == "docker run"]
    # docker cannot be spawned while the first build cleans up; it is back for the second, independent build of the same process,
    # whose own resources must be cleaned up as always (the first build's cannot be - they are not judged)
    if len(scenario["builds"]) > 1:
        first_build = next((e for e in log if e["kind"] == "pack build"), None)
        first_img = testrun.decode(first_build)["image"] if first_build else None
        b2 = next((e["seq"] for e in log if first_build and e["kind"] == "pack build" and testrun.decode(e)["image"] != first_img), None)
        if b2 is not None and b2 >= 3:
            faults.append({"kind": "docker-gone", "after_seq": b2 - 3})
    faults += [{"kind": "panic", "point": p} for p in count_panic_points(body)]
    if cfg.get("preprocessor"):
        faults.append({"kind": "preprocessor-panic"})
    for fault in faults:
        sc = copy.deepcopy(scenario)
        plan = {}
        if fault["kind"] == "command":
            plan = {"fail_seq": fault["seq"], "exit": [1, 125, 2, 127, 126, 255][(fault["seq"] + tidx) % 6]}
            if fault.get("output"):
                plan["fail_output"] = fault["output"]
            if fault.get("signal"):
                plan["signal"] = fault["signal"]
            if fault.get("stderr"):
                plan["fail_stderr"] = fault["stderr"]
                plan["exit"] = 125
        elif fault["kind"] == "docker-gone":
            plan = {"remove_prog_after_seq": {"seq": fault["after_seq"], "prog": "docker"}}
            sc["restore_standins"] = True
        elif fault["kind"] == "spawn":
            plan = {"remove_prog_after_seq": {"seq": fault["seq"] - 1, "prog": "pack"}}
        elif fault["kind"] == "panic":
            sc["builds"][0]["body"] = insert_panic(body, fault["point"])
        else:
            sc["builds"][0]["config"]["preprocessor"]["panic"] = True
        rc, err, log2, left = env.run(sc, plan)
        sh.evaluations += 1
        what = "scenario %r with %s" % (shape_of(body), ("command #%d (%s) %s%s" % (fault["seq"], fault["command_kind"], "killed by a signal" if fault.get("signal") else "failing with 'port is already allocated'" if fault.get("stderr") else "failing", " with >64 KiB of non-ASCII output" if fault.get("output") else "")) if fault["kind"] == "command" else
                                        ("docker missing from PATH after command #%d until the second build starts" % fault["after_seq"]) if fault["kind"] == "docker-gone" else
                                        ("pack disappearing from PATH before command #%d" % fault["seq"]) if fault["kind"] == "spawn" else
                                        ("a panic at %r" % (fault["point"],)) if fault["kind"] == "panic" else "a panic in the app-dir preprocessor")
        case = dict(case0, fault=fault, scenario=sc, plan=plan)
        if fault["kind"] == "spawn" and (os.path.lexists(os.path.join(env.bin, "pack")) or rc == 0):
            sh.inconclusive.append("%s: the scripted disappearance of pack did not take effect" % what)
            continue
        if fault["kind"] == "docker-gone":
            # only the second build is judged: everything from its pack build on
            packs = [(e["seq"], testrun.decode(e)["image"]) for e in log2 if e["kind"] == "pack build"]
            second = next((sq for sq, img in packs if img != packs[0][1]), None) if packs else None
            if rc is None or rc < 0 or second is None:
                sh.inconclusive.append("%s: the second build did not start (exit %r)" % (what, rc))
                continue
            log2 = [e for e in log2 if e["seq"] >= second]
        if fault["kind"] == "command" and not any(e["failed"] for e in log2):
            sh.inconclusive.append("%s: the scripted command failure never fired" % what)
            continue
        if not judge(log2, left, rc, what, fault, sh, case):
            return
        if canary_damage(env):
            sh.violation("outside-removed:%s" % fault["kind"], "%s: files outside the app and outside every temporary directory were removed or changed: %r" % (what, canary_damage(env)), case)
            return
        sh.nontrivial.add((shape_of(body), cfg["expected"], bool(cfg.get("preprocessor")), position_class(body, fault, log)))
        sh.count("faults_injected")
        if fault["kind"] == "command" and fault.get("command_kind") == "pack build" and fault["seq"] > 0 and expects_failure(body) and rc == 0:
            sh.count("expected_failure_rebuilds_whose_closure_ran")
        if fault.get("stderr"):
            sh.count("docker_run_failures_with_port_already_allocated")
    sh.sample({"scenario": shape_of(body), "commands_in_baseline": [e["kind"] for e in log], "fault_positions": len(faults),
               "observed": "every detached container removed, image and both volumes removed exactly once after last use, TMPDIR empty - in the baseline and under every single fault"}, cap=1)


def shard_run(arg):
    items, work = arg
    sh = vp.Shard()
    # every second shard runs the test process as an unprivileged user, with a read-only directory in the app fixture: temporary
    # copies must be removable by the user who made them (as root nothing is ever undeletable)
    nobody = bool(items) and items[0][0] % 2 == 1 and vp.nobody_works()
    env = testrun.Env(os.path.join(work, "w%d" % os.getpid()), as_nobody=nobody)
    env.create(FIXTURE)
    if nobody:
        os.chmod(os.path.join(env.crate, "fixtures", "app", "sub"), 0o555)
        sh.count("shards_as_uid_65534")
    try:
        for tidx, tree in items:
            run_tree(env, tidx, tree, sh)
    finally:
        vp.rmtree(env.root)
    return sh.dict()


def trees(tier, seed):
    depth = 2 if tier == "quick" else 3
    bs = bodies(depth, 1 if tier == "quick" else 2)
    out = []
    for i, b in enumerate(bs):
        variant = i % 4
        out.append((bconf(pre=variant in (1, 3), expected="failure" if variant == 2 and i % 8 == 2 else "success"), b))
    # rebuilds that expect pack to fail: without a fault pack succeeds and the runner panics by itself; with the rebuild's pack build failing
    # (one of the enumerated faults) the closure runs - and goes on to use the image, to rebuild again, to start containers
    leaf, cont = leaf_nodes()[0], container_nodes(1)[1]
    inner = [[], [leaf], [cont], [{"op": "rebuild", "config": bconf(), "body": [leaf]}], [leaf, {"op": "rebuild", "config": bconf(True), "body": [cont]}]]
    xf = [(bconf(pre=k % 2 == 1), ([leaf] if k % 3 == 0 else []) + [{"op": "rebuild", "config": bconf(pre=k % 2 == 0, expected="failure"), "body": b}]) for k, b in enumerate(inner)]
    out = out[:35] + xf + out[35:]
    r = vp.rng(seed, "c16")
    if tier == "quick" and len(out) > 160:
        keep = out[:40] + r.sample(out[40:], 120)
        out = keep
    if tier == "thorough":
        for _ in range(500):
            out.append((bconf(pre=r.random() < 0.4, expected="failure" if r.random() < 0.05 else "success"), random_body(r, 3)))
    return list(enumerate(out))


def run(tier, seed, work):
    res = vp.Result("C16", tier, seed, "fault_enumeration")
    res.after_error_routes = ['expected_failure_rebuilds_whose_closure_ran', 'docker_run_failures_with_port_already_allocated']      # routes added in round 12 (a handled failure followed by ordinary work): must have observed something
    ts = trees(tier, seed)
    for d in vp.pmap(shard_run, [(s, work) for s in vp.split(ts, vp.NCPU * 2)]):
        res.merge(d)
    res.extra["scenario_trees"] = len(ts)
    # the runner tells its resources apart by random names: two builds (of one test, of two tests running side by side) that draw the same
    # name remove each other's image and volumes. 12 random letters never repeat within a run of this check (p < 1e-9).
    seen, allocated = res.extra.get("_sets", {}).get("names_seen", set()), res.extra.get("names_allocated", 0)
    if allocated >= 50 and len(seen) < allocated:
        res.violation("identifier-reuse", "%d image / container names were allocated in %d scenario executions, only %d of them distinct (for example %r): resources of different builds cannot be told apart"
                      % (allocated, res.evaluations, len(seen), sorted(seen)[:3]), {"note": "statistics over the whole run: re-run the check"})
    if platform.machine() == "x86_64":
        res.required = ["trees_with_locally_packaged_buildpacks", "rebuilds_with_locally_packaged_buildpacks", "faults_injected"]
    res.rule = ("evaluations = scenario executions (baseline + one per fault). distinct_nontrivial = distinct (tree shape, expected pack result, preprocessor used, fault position class "
                "[failing command kind, or panic before/inside/after a container or rebuild scope]) combinations")
    res.assumptions = ["exactly one fault per run: two simultaneous faults (which can abort via panic-in-drop) are outside the quantifier",
                       "docker and pack are stand-ins that log argv and exit as scripted; a removal command that was issued counts as removal even if that very command was the injected failure",
                       "every third scenario tree references buildpacks of the crate under test (CurrentCrate / WorkspaceBuildpack: composite buildpacks packaged into a temporary "
                       "directory, nothing compiled); the others use BuildpackReference::Other only"]
    res.required = list(getattr(res, "required", [])) + res.after_error_routes
    return res


def replay(case, work):
    res = vp.Result("C16", "quick", 0, "fault_enumeration")
    sh = vp.Shard()
    if "scenario" not in case:
        res.inconclusive.append("this witness is a statistic over a whole run (%s): re-run ./check C16 at the recorded seed" % case.get("note"))
        return res
    env = testrun.Env(os.path.join(work, "replay"), as_nobody=bool(case.get("as_nobody")) and vp.nobody_works())
    env.create(FIXTURE)
    if env.as_nobody:
        os.chmod(os.path.join(env.crate, "fixtures", "app", "sub"), 0o555)
    rc, err, log, left = env.run(case["scenario"], case.get("plan"))
    sh.evaluations += 1
    print("commands: %s\nTMPDIR leftovers: %r\nexit: %r" % ([" ".join(e["argv"][:3]) + (" [failed]" if e["failed"] else "") for e in log], left, rc))
    judge(log, left, rc, "replayed scenario", case.get("fault", {"kind": "none"}), sh, case)
    sh.nontrivial.update({"replay-a", "replay-b"})
    res.merge(sh.dict())
    res.rule = "replay of one recorded scenario + fault"
    res.sample({"fault": case.get("fault")})
    return res
