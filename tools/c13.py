"""C13 — packaging order: exactly the transitive closure, each once, dependencies first."""
import json
import os
import subprocess

import vp


def shard(arg):
    maxn, sh, nsh, work, nrandom, seed = arg
    d = os.path.join(work, "s%d" % sh)
    os.makedirs(d, exist_ok=True)
    p = subprocess.run([os.path.join(vp.BIN, "vpmon"), "depgraph", str(maxn), str(sh), str(nsh), d, str(nrandom), str(seed)],
                       stdout=subprocess.PIPE, stderr=subprocess.PIPE, text=True, env=dict(os.environ, **vp.hostile_env()))
    vp.rmtree(d)
    if p.returncode != 0:
        return {"error": p.stderr[-1500:]}
    return json.loads(p.stdout)


def collect(res, reps, maxn):
    shapes = set()
    for rep in reps:
        if "error" in rep:
            raise vp.Broken("depgraph executor failed: " + rep["error"])
        res.evaluations += rep["orderings"]
        for k in ("dags", "exhaustive_dags", "dangling_checked", "dangling_with_unseen_namesake"):
            res.extra[k] = res.extra.get(k, 0) + rep[k]
        for s in rep["shapes"]:
            shapes.add(json.dumps(s))
        for v in rep["violations"]:
            res.violation("order:" + v["sig"], v["what"] + "  [graph: %s]" % json.dumps(v["case"])[:600], {"maxn": maxn, "detail": v["case"]})
        for s in rep["samples"][:1]:
            res.sample(s, cap=3)
    res.nontrivial.update(shapes)


def run(tier, seed, work):
    res = vp.Result("C13", tier, seed, "exploration")
    maxn = 4 if tier == "quick" else 5
    nrandom = 1600 if tier == "quick" else 8000
    nsh = 16 if tier == "quick" else 32
    collect(res, vp.pmap(shard, [(maxn, i, nsh, work, nrandom, seed) for i in range(nsh)]), maxn)
    res.exhaustive = True
    res.extra["exhaustive_bound"] = ("every labelled DAG on 1..%d nodes, materialised as a buildpack workspace on disk, x every non-empty ordered root selection; "
                                     "plus %d random DAGs on 6-12 nodes x 40 random selections and workspaces with one dangling libcnb: dependency" % (maxn, nrandom))
    res.rule = ("evaluations = get_dependencies calls judged. distinct_nontrivial = distinct (sorted (in,out)-degree sequence of the DAG, size of the root selection) pairs "
                "among cases with at least as many edges as nodes and >=2 roots")
    res.assumptions = ["the judge (closure, uniqueness, dependency-before-dependent) is brute force on the generator's own adjacency matrix, inside the Rust executor",
                       "directory names and dependency-list order vary with the DAG index and VERIF_SEED (8 layout variants)"]
    return res


def replay(case, work):
    res = vp.Result("C13", "quick", 0, "exploration")
    collect(res, [shard((case["maxn"], 0, 1, work, 40, 0))], case["maxn"])
    res.nontrivial.update({"replay-a", "replay-b"})
    res.rule = "replay: re-runs the exhaustive enumeration up to the recorded node count"
    res.sample(case)
    return res
