"""C09 — identifier and version grammars: run-time parsing, TOML deserialisation and the
compile-time literal macros, judged by hand-written recognisers of the CNB spec rules."""
import itertools
import json
import os
import zlib
import shutil
import subprocess
import threading

import tomlw
import vp
from vp import hx

U64MAX = 2 ** 64 - 1


def _alnum(c):
    return ("0" <= c <= "9") or ("a" <= c <= "z") or ("A" <= c <= "Z")


def _charset_rule(s, punct, reserved):
    """True / False / None(unspecified)."""
    if s == "":
        return False
    if s in reserved:
        return False
    unspecified = False
    for c in s:
        if _alnum(c) or c in punct:
            continue
        if ord(c) > 127 and c.isalpha():
            unspecified = True          # "letters": the spec does not say ASCII only
            continue
        return False
    return None if unspecified else True


def rec_layer_name(s):
    if s == "":
        return False
    if s in ("build", "launch", "store"):
        return False
    if any(c in "\n/\x00" for c in s) or s in (".", ".."):
        return None                     # the spec has no character rule for layer names
    return True


def rec_process_type(s):
    return _charset_rule(s, "._-", ())


def rec_buildpack_id(s):
    return _charset_rule(s, "./-", ("app", "config", "sbom"))


def rec_exec_key(s):
    return _charset_rule(s, "_-", ())


def _digits(p):
    return p != "" and all("0" <= c <= "9" for c in p)


def rec_version(s):
    parts = s.split(".")
    if len(parts) != 3:
        return False
    for p in parts:
        if not _digits(p):
            return False
        if len(p) > 1 and p[0] == "0":
            return False
    if any(int(p) > U64MAX for p in parts):
        return None
    return True


def rec_api(s):
    parts = s.split(".")
    if len(parts) not in (1, 2):
        return False
    for p in parts:
        if not _digits(p):
            return False
    # "N or N.M of plain digits": unlike buildpack versions, API versions may be written with leading zeros ("01", "0.010")
    if any(int(p) > U64MAX for p in parts):
        return None
    return True


RECS = {"layer_name": rec_layer_name, "process_type": rec_process_type, "buildpack_id": rec_buildpack_id,
        "exec_key": rec_exec_key, "version": rec_version, "api": rec_api}
NEWTYPES = ["layer_name", "process_type", "buildpack_id", "exec_key"]
MACROS = {"layer_name": "layer_name", "process_type": "process_type", "buildpack_id": "buildpack_id",
          "exec_key": "exec_d_program_output_key"}
RESERVED = ["build", "launch", "store", "app", "config", "sbom"]
ALPHA = ["a", "Z", "0", ".", "_", "-", "/", "+", " ", "\n", "é", "\x00"]
VALPHA = ["0", "1", "9", ".", "+", "-", " ", "a", "\n"]


def char_class(c):
    if "0" <= c <= "9":
        return "d"
    if "a" <= c <= "z":
        return "l"
    if "A" <= c <= "Z":
        return "U"
    if ord(c) > 127:
        return "u"
    if ord(c) < 32 or ord(c) == 127:
        return "c"
    return c


def class_sig(s):
    return "".join(sorted({char_class(c) for c in s}))


def strings_upto(alpha, n):
    for k in range(0, n + 1):
        for t in itertools.product(alpha, repeat=k):
            yield "".join(t)


def reserved_edits():
    out = set()
    edit_chars = ["a", "s", "-", ".", "/", "_", " ", "\n", "X", "0"]
    for w in RESERVED:
        out.add(w)
        out.add(w.upper())
        out.add(w.capitalize())
        for c in edit_chars:
            out.add(w + c)
            out.add(c + w)
            for i in range(1, len(w)):
                out.add(w[:i] + c + w[i:])
        for i in range(len(w)):
            out.add(w[:i] + w[i + 1:])
        for suffix in (".toml", ".sbom", ".toml.bak", ".sbom.cdx.json", "s.toml", "/toml", "-toml", ".TOML"):
            out.add(w + suffix)
        for w2 in RESERVED:
            out.add(w + w2)
            out.add(w + "/" + w2)
            out.add(w + "|" + w2)
    return sorted(out)


def ascii_probes(pairs):
    chars = [chr(i) for i in range(128)]
    out = list(chars)
    out += ["a" + c for c in chars] + [c + "a" for c in chars] + ["a" + c + "b" for c in chars]
    if pairs:
        out += [a + b for a in chars for b in chars]
    return out


def random_strings(seed, n):
    r = vp.rng(seed, "c09-rand")
    pool = [chr(i) for i in range(32, 127)] * 2 + list("abcxyzABC0123456789") * 6 + ["é", "ß", "日", "\U0001F600", "\n", "\t", "\x00", " ", "١"]
    out = []
    for _ in range(n):
        ln = r.randint(1, 40) if r.random() > 0.02 else r.choice([255, 256, 257, 1000, 4096, 65537])
        if r.random() < 0.5:
            base = list("abcdefXYZ0189._-/")
            s = "".join(r.choice(base) for _ in range(ln))
            if r.random() < 0.5:
                i = r.randrange(len(s))
                s = s[:i] + r.choice(pool) + s[i + 1:]
        else:
            s = "".join(r.choice(pool) for _ in range(ln))
        out.append(s)
    return out


def version_structured():
    big = [str(U64MAX), str(U64MAX + 1), "10000000000000000000", "9999999999999999999", "9223372036854775808",
           "4294967296", "99999999999999999999", "18446744073709551616"]
    comps = ["0", "1", "10", "00", "01", "007", "", " 1", "1 ", "+1", "-1", "-0", "1e3", "0x1", "１", "١", "1_0", "1\n"] + big
    out = set()
    for a in comps:
        for b in ["0", "1", "10", "01", "", "+2", str(U64MAX), "10000000000000000000"]:
            out.add(a)
            out.add(a + "." + b)
            out.add(b + "." + a)
            out.add(a + "." + b + ".3")
            out.add("3." + a + "." + b)
            out.add(a + "." + b + "." + a)
            out.add(a + "." + b + ".3.4")
    for tail in comps + ["rc1", "04", "+4", "x", " "]:
        out.add("1.2.3." + tail)
        out.add("0.0.0." + tail)
        out.add("1.2." + tail + ".3")
    out.update(["1.2.3\n", "\n1.2.3", " 1.2.3", "1.2.3 ", "1..3", ".1.2", "1.2.", "...", "..", ".", "1.2.3-rc1", "1.2.3+build", "v1.2.3",
                "0.10", "0.9", "1.0", "0.10.0", "2", "2.", ".2"])
    return sorted(out)


def doc_for(s):
    return "v = " + tomlw.qstr(s) + "\n"


def judge(ty, s, rep, sh):
    rec = RECS[ty](s)
    p, t = rep["parse"], rep["toml"]
    case = {"type": ty, "input": hx(s.encode()), "input_repr": repr(s)}
    sh.evaluations += 1
    bucket = (ty, "accept" if p["ok"] else "reject", class_sig(s) if ty in NEWTYPES else ("v", len(s.split(".")), class_sig(s)))
    sh.nontrivial.add(bucket)
    if p["ok"] != t["ok"]:
        sh.violation("%s:route-disagreement" % ty, "%s %r: str parse %s but TOML deserialisation %s"
                     % (ty, s, "accepts" if p["ok"] else "rejects", "accepts" if t["ok"] else "rejects"), case)
        return
    if rec is True and not p["ok"]:
        sh.violation("%s:rejects-valid:%s" % (ty, class_sig(s)), "%s rejects %r, which the spec grammar admits" % (ty, s), case)
        return
    if rec is False and p["ok"]:
        sh.violation("%s:accepts-invalid:%s" % (ty, class_sig(s)), "%s accepts %r, which the spec grammar forbids" % (ty, s), case)
        return
    if rec is None:
        sh.count("unspecified_inputs")
    if p["ok"]:
        shown = bytes.fromhex(p["display"]).decode()
        if ty in NEWTYPES:
            if p.get("clone_eq") is not True:
                sh.violation("%s:render:clone-eq" % ty, "%s accepted %r but its clone compares unequal" % (ty, s), case)
                return
            for k in ("display", "deref", "ser", "borrow_str", "borrow_string", "as_ref", "clone", "toml_ser"):
                if p[k] is None or bytes.fromhex(p[k]).decode() != s:
                    sh.violation("%s:render:%s" % (ty, k), "%s accepted %r but its %s is %r" % (ty, s, k, None if p[k] is None else bytes.fromhex(p[k]).decode()), case)
                    return
            if bytes.fromhex(t["display"]).decode() != s:
                sh.violation("%s:render:toml" % ty, "%s deserialised from %r displays as %r" % (ty, s, bytes.fromhex(t["display"]).decode()), case)
        else:
            if rec is True:
                want = s if (ty == "version" or "." in s) else s + ".0"
                if ty == "api":
                    want = ".".join(str(int(x)) for x in want.split("."))      # the value is the numbers, shown without leading zeros
                if shown != want:
                    sh.violation("%s:display" % ty, "%s parsed from %r displays as %r" % (ty, s, shown), case)
                    return
                nums = [int(x) for x in want.split(".")]
                if p["fields"] != nums:
                    sh.violation("%s:fields" % ty, "%s parsed from %r has components %r" % (ty, s, p["fields"]), case)
                    return
            import re as _re
            if rec is not True and _re.fullmatch(r"[0-9]+(\.[0-9]+)*", s):
                # whether numbers beyond u64 have to be accepted is left open - but a value that is accepted is the number that was written
                nums = [int(x) for x in s.split(".")]
                if ty == "api" and len(nums) == 1:
                    nums.append(0)
                if p["fields"] != nums:
                    sh.violation("%s:fields" % ty, "%s accepts %r as the different number %r" % (ty, s, p["fields"]), case)
                    return
            if p.get("reparse_eq") is not True:
                sh.violation("%s:display-parse-not-inverse" % ty, "%s: parse(display(parse(%r))) != parse(%r) (display %r)" % (ty, s, s, shown), case)
                return
            if bytes.fromhex(t["display"]).decode() != shown:
                sh.violation("%s:route-value" % ty, "%s %r: the two routes give different values %r / %r"
                             % (ty, s, shown, bytes.fromhex(t["display"]).decode()), case)


def shard_run(arg):
    """arg = list of (type, items): one executor process handles several types in turn, in small alternating batches
    (a process that only ever parses one type would hide state shared between the types)."""
    work = arg
    sh = vp.Shard()
    # (every second executor has a stderr that cannot be written to: parsing has nothing to say there)
    mon = vp.Mon("parse", stderr_full=zlib.crc32(repr([(ty, len(items)) for ty, items in work]).encode()) % 2 == 0)
    try:
        pos = {ty: 0 for ty, _ in work}
        live = True
        while live:
            live = False
            for ty, items in work:
                i = pos[ty]
                if i >= len(items):
                    continue
                live = True
                chunk = items[i:i + 400]
                pos[ty] = i + 400
                try:
                    rep = mon.call({"op": "batch", "type": ty, "items": [[hx(s.encode()), hx(doc_for(s).encode())] for s in chunk]})
                except vp.ExecutorDied as e:
                    # parsing never takes the process down, whatever the string and whatever the state of stderr: find the string
                    culprit = None
                    for s1 in chunk:
                        m1 = vp.Mon("parse", stderr_full=True)
                        try:
                            m1.call({"op": "batch", "type": ty, "items": [[hx(s1.encode()), hx(doc_for(s1).encode())]]})
                        except vp.ExecutorDied:
                            culprit = s1
                        finally:
                            m1.close()
                        if culprit is not None:
                            break
                    sh.evaluations += 1
                    sh.violation("%s:process-died" % ty, "parsing %r as %s took the process down (status %s; its stderr cannot be written to)" % (culprit if culprit is not None else "one of %d strings" % len(chunk), ty, e.status),
                                 {"type": ty, "input": hx((culprit or chunk[0]).encode()), "input_repr": repr(culprit), "route": "run-time parse, stderr = /dev/full"})
                    return sh.dict()
                for s, r in zip(chunk, rep["results"]):
                    judge(ty, s, r, sh)
        for ty, items in work[:1]:
            if items:
                s = items[len(items) // 2]
                sh.sample({"type": ty, "input": repr(s), "spec_verdict": RECS[ty](s)}, cap=1)
    finally:
        mon.close()
    return sh.dict()


def threaded_checks(res, seed):
    """the run-time parsers used from several threads of one process at once: every thread gets the verdict a single thread gets
    (fresh process per type: the very first parses of a type happen concurrently)"""
    sh = vp.Shard()
    r = vp.rng(seed, "c09-mt")
    for ty in NEWTYPES + ["version", "api"]:
        pool = list(strings_upto(ALPHA if ty in NEWTYPES else VALPHA, 2)) + (RESERVED if ty in NEWTYPES else ["1.2.3", "0.10", "10.20.30", "1"])
        items = [r.choice(pool) for _ in range(300)] + ["valid-%d" % i if ty in NEWTYPES else "%d.%d.%d" % (i, i, i) for i in range(100)]
        mon = vp.Mon("parse")
        try:
            rep = mon.call({"op": "batch_mt", "type": ty, "items": [hx(x.encode()) for x in items], "threads": 8, "rounds": 3})
        finally:
            mon.close()
        sh.evaluations += rep["parses"]
        for d in rep["diffs"][:3]:
            s_ = bytes.fromhex(d["input"]).decode()
            sh.violation("%s:thread-dependent" % ty, "%s %r is %s by a single thread but %s when 8 threads parse at once (thread %d)"
                         % (ty, s_, "accepted" if d["single_threaded"] else "rejected", "rejected" if d["single_threaded"] else "accepted", d["thread"]), {"type": ty, "input": s_, "threads": 8})
        if not rep["diffs"]:
            sh.nontrivial.add(("threads", ty, sum(rep["single"]) > 0, sum(rep["single"]) < len(items)))
    res.merge(sh.dict())


def display_checks(res):
    mon = vp.Mon("parse")
    sh = vp.Shard()
    bounds = [0, 1, 9, 10, 2 ** 32, 2 ** 63 - 1, 2 ** 63, 10 ** 19, U64MAX - 1, U64MAX]
    triples = [list(t) for t in itertools.product(bounds, repeat=3)]
    rep = mon.call({"op": "version_display", "triples": triples})
    for t, r in zip(triples, rep["results"]):
        sh.evaluations += 1
        want = "%d.%d.%d" % tuple(t)
        case = {"type": "version_display", "triple": t}
        if r["display"] != want:
            sh.violation("version:display-of-constructed", "BuildpackVersion::new%r displays as %r" % (tuple(t), r["display"]), case)
        elif r["back"] != t:
            sh.violation("version:parse-display-not-inverse", "parsing the display %r of BuildpackVersion%r gives %r" % (want, tuple(t), r["back"]), case)
        sh.nontrivial.add(("vdisp", tuple(len(str(x)) for x in t)))
    pairs = [list(t) for t in itertools.product(bounds, repeat=2)]
    rep = mon.call({"op": "api_display", "pairs": pairs})
    for t, r in zip(pairs, rep["results"]):
        sh.evaluations += 1
        want = "%d.%d" % tuple(t)
        case = {"type": "api_display", "pair": t}
        if r["display"] != want:
            sh.violation("api:display-of-constructed", "BuildpackApi%r displays as %r" % (tuple(t), r["display"]), case)
        elif r["back"] != t:
            sh.violation("api:parse-display-not-inverse", "parsing the display %r of BuildpackApi%r gives %r" % (want, tuple(t), r["back"]), case)
    mon.close()
    res.merge(sh.dict())


# --------------------------------------------------------------------------
# literal-macro route

def rust_lit(s):
    out = ['"']
    for c in s:
        o = ord(c)
        if c == '"':
            out.append('\\"')
        elif c == "\\":
            out.append("\\\\")
        elif 32 <= o < 127:
            out.append(c)
        else:
            out.append("\\u{%x}" % o)
    out.append('"')
    return "".join(out)


def macro_route(work, lits, out):
    """lits: list of (type, string). Fills out['rejected'] = set of indices the macros reject,
    out['printed'] = {index: string printed by the accepted literal}."""
    try:
        crate = os.path.join(work, "litcrate")
        os.makedirs(os.path.join(crate, "src"), exist_ok=True)
        with open(os.path.join(crate, "Cargo.toml"), "w") as f:
            f.write('[package]\nname = "litcrate"\nversion = "0.0.0"\nedition = "2024"\n[workspace]\n'
                    '[dependencies]\nlibcnb-data = { path = "%s/libcnb-data" }\n' % vp.REPO)
        lock = os.path.join(vp.REPO, "Cargo.lock")          # untracked in the repository: a bare checkout has none, the harness' own lock file covers libcnb-data too
        shutil.copy(lock if os.path.exists(lock) else os.path.join(vp.HARNESS, "Cargo.lock"), os.path.join(crate, "Cargo.lock"))
        env = dict(os.environ)
        env.update(vp.CARGO_ENV)
        env["CARGO_TARGET_DIR"] = os.path.join(vp.HARNESS, "target", "lit")

        def write_main(indices):
            with open(os.path.join(crate, "src", "main.rs"), "w") as f:
                f.write("fn main() {\n")
                for i in indices:
                    ty, s = lits[i]
                    f.write("    println!(\"%d {}\", hexs(&libcnb_data::%s!(%s).to_string()));\n" % (i, MACROS[ty], rust_lit(s)))
                f.write("}\nfn hexs(s: &str) -> String { s.bytes().map(|b| format!(\"{b:02x}\")).collect() }\n")

        write_main(range(len(lits)))
        p = subprocess.run(["cargo", "check", "--offline", "--message-format=json", "-q"], cwd=crate, env=env,
                           stdout=subprocess.PIPE, stderr=subprocess.PIPE, text=True)
        rejected = set()
        other_errors = []
        for line in p.stdout.splitlines():
            try:
                m = json.loads(line)
            except ValueError:
                continue
            if m.get("reason") != "compiler-message":
                continue
            msg = m["message"]
            if msg.get("level") != "error":
                continue
            text = msg.get("message", "")
            spans = []
            for sp in msg.get("spans", []):
                while sp is not None:                        # walk the macro expansion chain back to the call site
                    if sp.get("file_name", "").endswith("main.rs"):
                        spans.append(sp)
                        break
                    sp = (sp.get("expansion") or {}).get("span")
            if spans:
                # whatever the wording: a literal whose macro invocation does not compile is a literal rejected at compile time
                for sp in spans:
                    rejected.add(sp["line_start"] - 2)      # line 1 is "fn main() {"
            elif "aborting due to" in text or "could not compile" in text:
                continue
            else:
                other_errors.append(text[:300])
        if other_errors:
            out["error"] = "unexpected compiler errors in the literal crate: %r" % other_errors[:3]
            return
        if p.returncode != 0 and not rejected:
            out["error"] = "cargo check of the literal crate failed without macro diagnostics: %s" % p.stderr[-500:]
            return
        accepted = [i for i in range(len(lits)) if i not in rejected]
        write_main(accepted)
        p = subprocess.run(["cargo", "run", "--offline", "-q"], cwd=crate, env=env, stdout=subprocess.PIPE, stderr=subprocess.PIPE, text=True)
        if p.returncode != 0:
            out["error"] = "crate with only the accepted literals does not build/run: %s" % p.stderr[-800:]
            return
        printed = {}
        for line in p.stdout.splitlines():
            a, b = line.split(" ", 1) if " " in line else (line, "")
            printed[int(a)] = bytes.fromhex(b.strip()).decode()
        out["rejected"] = rejected
        out["printed"] = printed
        # the same macros used in a crate that is compiled as a DEPENDENCY of the package being built (not the primary package of the cargo
        # invocation): a literal that is rejected in the primary package is rejected there too
        sample = sorted(rejected)[:: max(1, len(rejected) // 60)][:60]
        dep = os.path.join(crate, "litdep")
        os.makedirs(os.path.join(dep, "src"), exist_ok=True)
        with open(os.path.join(dep, "Cargo.toml"), "w") as f:
            f.write('[package]\nname = "litdep"\nversion = "0.0.0"\nedition = "2024"\n[dependencies]\nlibcnb-data = { path = "%s/libcnb-data" }\n' % vp.REPO)
        with open(os.path.join(dep, "src", "lib.rs"), "w") as f:
            f.write("pub fn all() -> Vec<String> {\n    vec![\n")
            for i in sample:
                ty, s_ = lits[i]
                f.write("        libcnb_data::%s!(%s).to_string(),\n" % (MACROS[ty], rust_lit(s_)))
            f.write("    ]\n}\n")
        with open(os.path.join(crate, "Cargo.toml"), "a") as f:
            f.write('litdep = { path = "litdep" }\n')
        with open(os.path.join(crate, "src", "main.rs"), "w") as f:
            f.write("fn main() { println!(\"{}\", litdep::all().len()); }\n")
        p = subprocess.run(["cargo", "check", "--offline", "--message-format=json", "-q"], cwd=crate, env=env, stdout=subprocess.PIPE, stderr=subprocess.PIPE, text=True)
        dep_rejected = set()
        for line in p.stdout.splitlines():
            try:
                m = json.loads(line)
            except ValueError:
                continue
            if m.get("reason") != "compiler-message" or m["message"].get("level") != "error":
                continue
            for sp in m["message"].get("spans", []):
                while sp is not None:
                    if sp.get("file_name", "").endswith("lib.rs") and "litdep" in sp.get("file_name", ""):
                        dep_rejected.add(sp["line_start"] - 3)      # lines 1-2 are the function head
                        break
                    sp = (sp.get("expansion") or {}).get("span")
        out["dep_sample"] = sample
        out["dep_not_rejected"] = [sample[k] for k in range(len(sample)) if k not in dep_rejected]
    except Exception as e:  # noqa: BLE001
        out["error"] = "literal route failed: %r" % (e,)


def macro_literals(tier, seed):
    r = vp.rng(seed, "c09-lit")
    base = [chr(i) for i in range(1, 128)] + ["a" + chr(i) for i in (0, 10, 32, 43, 45, 46, 47, 91, 92, 94, 95, 96, 127)]
    base += list(strings_upto(["a", "0", ".", "_", "-", "/", "+", "\n", "é"], 2 if tier == "quick" else 3))
    base += reserved_edits() if tier == "thorough" else RESERVED + [w + "s" for w in RESERVED] + ["s" + w for w in RESERVED] + [w + "\n" for w in RESERVED]
    base += random_strings(seed, 40 if tier == "quick" else 400)
    base = [s for s in dict.fromkeys(base) if s != ""]      # the empty literal is covered by the runtime routes
    lits = []
    for ty in NEWTYPES:
        sel = base if tier == "thorough" else r.sample(base, min(len(base), 130))
        must = [s for s in RESERVED + ["a", "a/b", "a.b", "a_b", "a-b", "A[", "a^", "é", "a\n"] if s in base or True]
        for s in dict.fromkeys(list(sel) + must):
            lits.append((ty, s))
    return lits


def run(tier, seed, work):
    res = vp.Result("C09", tier, seed, "exploration")
    n = 3 if tier == "quick" else 4
    # no grammar has a length limit: long members of every class (around 255 / 256, the common buffer and file-name bounds, and far beyond)
    long_ones = [unit * k for k in (250, 251, 255, 256, 257, 1000, 4096, 65537) for unit in ("a", "Z9", "a-b", "a.b_c")]
    ident = list(dict.fromkeys(list(strings_upto(ALPHA, n)) + reserved_edits() + long_ones + ascii_probes(tier == "thorough")
                               + random_strings(seed, 2000 if tier == "quick" else 30000)))
    vers = list(dict.fromkeys(list(strings_upto(VALPHA, 5 if tier == "quick" else 6)) + version_structured()))
    lits = macro_literals(tier, seed)
    mout = {}
    th = threading.Thread(target=macro_route, args=(work, lits, mout))
    th.start()
    nsh = vp.NCPU
    isplit = {ty: vp.split(ident, nsh) for ty in NEWTYPES}
    vsplit = {ty: vp.split(vers, nsh) for ty in ("version", "api")}
    shards = []
    for k in range(nsh):
        order = NEWTYPES[k % 4:] + NEWTYPES[:k % 4]          # every type is the first one parsed in some process
        shards.append([(ty, isplit[ty][k] if k < len(isplit[ty]) else []) for ty in order] + [(ty, vsplit[ty][k] if k < len(vsplit[ty]) else []) for ty in ("version", "api")])
    for d in vp.pmap(shard_run, shards):
        res.merge(d)
    display_checks(res)
    threaded_checks(res, seed)
    th.join()
    # literal route vs. run-time route
    if "error" in mout:
        # the compile-time route is a third of the statement and works on every tree that builds: not being able to observe it is a
        # broken check, never a quiet pass
        raise vp.Broken(mout["error"])
    else:
        mon = vp.Mon("parse")
        sh = vp.Shard()
        for ty in NEWTYPES:
            idx = [i for i, (t, _) in enumerate(lits) if t == ty]
            rep = mon.call({"op": "batch", "type": ty, "items": [[hx(lits[i][1].encode()), hx(doc_for(lits[i][1]).encode())] for i in idx]})
            for i, r in zip(idx, rep["results"]):
                s = lits[i][1]
                sh.evaluations += 1
                case = {"type": ty, "input": hx(s.encode()), "input_repr": repr(s), "route": "literal macro"}
                macro_ok = i not in mout["rejected"]
                rec = RECS[ty](s)
                if macro_ok != r["parse"]["ok"]:
                    sh.violation("%s:macro-disagreement" % ty, "%s!(%r) %s at compile time but str::parse %s it"
                                 % (MACROS[ty], s, "is accepted" if macro_ok else "is rejected", "accepts" if r["parse"]["ok"] else "rejects"), case)
                elif rec is not None and macro_ok != rec:
                    sh.violation("%s:macro-%s" % (ty, "accepts-invalid" if macro_ok else "rejects-valid"),
                                 "%s!(%r) is %s at compile time, contrary to the spec grammar" % (MACROS[ty], s, "accepted" if macro_ok else "rejected"), case)
                elif macro_ok and mout["printed"].get(i) != s:
                    sh.violation("%s:macro-render" % ty, "%s!(%r) renders as %r" % (MACROS[ty], s, mout["printed"].get(i)), case)
                sh.nontrivial.add((ty, "macro", "accept" if macro_ok else "reject", class_sig(s)))
        mon.close()
        for i in mout.get("dep_not_rejected", []):
            ty, s = lits[i]
            sh.violation("%s:macro-accepts-in-dependency" % ty, "%s!(%r) is rejected when the crate that uses it is the package being built, but compiles when that crate is built as a dependency"
                         % (MACROS[ty], s), {"type": ty, "input": hx(s.encode()), "input_repr": repr(s), "route": "literal macro in a dependency crate"})
        sh.count("macro_literals_in_a_dependency_crate", len(mout.get("dep_sample", [])))
        sh.count("macro_literals", len(lits))
        sh.count("macro_rejected_at_compile_time", len(mout["rejected"]))
        res.merge(sh.dict())
    res.exhaustive = True
    res.extra["exhaustive_bound"] = ("identifiers: all strings of length <=%d over %r for each of the 4 newtypes (run-time + TOML routes); "
                                     "versions/API: all strings of length <=%d over %r" % (n, ALPHA, 5 if tier == "quick" else 6, VALPHA))
    res.extra["identifier_inputs_per_type"] = len(ident)
    res.extra["version_inputs_per_type"] = len(vers)
    res.rule = ("evaluations = (type, input) pairs judged. distinct_nontrivial = distinct (type, accept/reject, set of character classes in the input "
                "[digit, lower, upper, non-ASCII, control, each punctuation char]) buckets, separately for the run-time and literal-macro routes")
    res.assumptions = ["unspecified by the spec and only checked for route agreement / identity rendering: newline, '/', NUL, '.', '..' as layer names; "
                       "non-ASCII letters in the other identifiers; leading zeros in API versions; components > u64::MAX",
                       "literal macros are observed through cargo check diagnostics of a generated crate that path-depends on /repo/libcnb-data"]
    return res


def replay(case, work):
    res = vp.Result("C09", "quick", 0, "exploration")
    sh = vp.Shard()
    if "input" in case:
        s = bytes.fromhex(case["input"]).decode()
        ty = case["type"]
        mon = vp.Mon("parse")
        rep = mon.call({"op": "batch", "type": ty, "items": [[hx(s.encode()), hx(doc_for(s).encode())]]})
        judge(ty, s, rep["results"][0], sh)
        mon.close()
        if case.get("route") == "literal macro":
            out = {}
            macro_route(work, [(ty, s)], out)
            if "error" in out:
                res.inconclusive.append(out["error"])
            else:
                ok = 0 not in out["rejected"]
                if ok != rep["results"][0]["parse"]["ok"]:
                    sh.violation("%s:macro-disagreement" % ty, "literal macro and str::parse disagree on %r" % s, case)
    else:
        display_checks(res)
    sh.nontrivial.update({"replay-a", "replay-b"})
    res.merge(sh.dict())
    res.rule = "replay of one recorded case"
    res.sample(case)
    return res
