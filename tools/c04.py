"""C04 — LayerEnv::apply follows the CNB modification rules (in-memory)."""
import itertools

import envmodel
import vp
from vp import hx

NAMES = [b"A", b"B"]
SCOPES = ["all", "build", "launch", "process:web"]
VALUES = [b"", b"x", b"y:z"]
QSCOPES = ["all", "build", "launch", "process:web", "process:other"]
STARTS = [{}, {b"A": b""}, {b"A": b"s"}, {b"A": b"s", b"B": b"t", b"C": b"u"}]
KEYS = [(s, b, n) for s in SCOPES for b in envmodel.BEHAVIOURS for n in NAMES]


def enc_entries(entries):
    return [[s, b, hx(n), hx(v)] for (s, b, n, v) in entries]


def enc_queries(queries):
    return [{"scope": s, "start": sorted([hx(k), hx(v)] for k, v in st.items())} for s, st in queries]


def dec_env(pairs):
    return {bytes.fromhex(k): bytes.fromhex(v) for k, v in pairs}


QUERIES = [(s, st) for s in QSCOPES for st in STARTS]


def signature(entries):
    """class of an env: per variable with >=2 entries, the sorted (scope, behaviour) multiset"""
    per = {}
    for s, b, n, _ in entries:
        per.setdefault(n, []).append((s, b))
    sig = tuple(sorted(tuple(sorted(v)) for v in per.values() if len(v) >= 2))
    return sig


def check_case(mon, entries, perm, sh, queries=QUERIES):
    """entries: list of (scope, beh, name, value) with distinct keys unless perm is None."""
    req = {"op": "apply", "entries": enc_entries(entries), "queries": enc_queries(queries)}
    if perm is not None:
        req["entries2"] = enc_entries(perm)
    rep = mon.call(req)
    case = {"entries": enc_entries(entries), "perm": enc_entries(perm) if perm is not None else None}
    for i, (scope, start) in enumerate(queries):
        sh.evaluations += 1
        want = envmodel.apply(entries, scope, start)
        got = dec_env(rep["results"][i]["result"])
        if got != want:
            sh.violation("apply:%s" % scope,
                         "apply(%s) on start %r with entries %r gave %r, CNB rules give %r"
                         % (scope, start, entries, got, want), case)
            return False
        if dec_env(rep["results"][i]["start_after"]) != start:
            sh.violation("input-modified", "apply modified its input env: %r -> %r"
                         % (start, rep["results"][i]["start_after"]), case)
            return False
        if "to_empty" in rep["results"][i] and dec_env(rep["results"][i]["to_empty"]) != want:
            sh.violation("apply_to_empty", "apply_to_empty(%s) differs from apply on empty env for %r" % (scope, entries), case)
            return False
        if perm is not None:
            got2 = dec_env(rep["results2"][i]["result"])
            if got2 != want:
                sh.violation("order-dependence",
                             "same entries inserted in another order give %r instead of %r (scope %s, start %r, entries %r)"
                             % (got2, want, scope, start, perm), case)
                return False
    if perm is not None and rep.get("eq2") is not True:
        sh.violation("order-dependence-eq", "LayerEnv built from the same entries in another order compares unequal: %r" % (entries,), case)
        return False
    return True


def enum_envs(maxk):
    for k in range(0, maxk + 1):
        for keys in itertools.combinations(KEYS, k):
            for vals in itertools.product(VALUES, repeat=k):
                yield [(s, b, n, v) for (s, b, n), v in zip(keys, vals)]


def shard_run(arg):
    kind, items, seed = arg
    sh = vp.Shard()
    mon = vp.Mon("env")
    try:
        if kind == "enum":
            for entries in items:
                perm = list(reversed(entries)) if len(entries) >= 2 else None
                ok = check_case(mon, entries, perm, sh)
                if ok and entries:
                    # inserting an existing key again replaces the value (also with the empty string)
                    for v in VALUES:
                        s0, b0, n0, v0 = entries[0]
                        if v != v0:
                            ok = check_case(mon, entries + [(s0, b0, n0, v)], None, sh) and ok
                sig = signature(entries)
                if sig:
                    sh.nontrivial.add(sig)
                if ok and sig and len(sh.samples) < 1:
                    sh.sample({"entries": [(s, b, n.decode(), v.decode()) for s, b, n, v in entries],
                               "observed": "20 apply() results equal to the reference model, both insertion orders"})
        else:
            for idx in items:
                r = vp.rng(seed, "c04", idx)
                n = r.randint(1, 12)
                names = [b"A", b"B", b"PATH", b"\xff\xfe", b"X Y", b"a.b"]
                vals = [b"", b"x", b"y:z", b"\x00\xff", b" sp ", b"v" * 50, b"\n"]
                if idx % 200 == 199:
                    # large: hundreds of entries over many variables, long names and values
                    n = r.randint(150, 400)
                    names = names + [b"N%d" % i for i in range(r.randint(5, 120))] + [b"L" * r.choice([255, 256, 4096])]
                    vals = vals + [bytes([r.randrange(1, 256)]) * r.choice([4095, 4096, 4097, 65536])]
                    sh.count("large_envs")
                d = {}
                for _ in range(n):
                    # (in memory a process scope is just a string: also the empty one, one with odd characters, one that spells another scope)
                    scope = r.choice(SCOPES + ["process:worker", "process:", "process:launch", "process:a b/c"])
                    d[(scope, r.choice(envmodel.BEHAVIOURS), r.choice(names))] = r.choice(vals)
                entries = [(s, b, nm, v) for (s, b, nm), v in d.items()]
                perm = entries[:]
                r.shuffle(perm)
                starts = [{}, {r.choice(names): r.choice(vals)}, {nm: r.choice(vals) for nm in names[:40]}]
                queries = [(s, st) for s in QSCOPES + ["process:worker", "process:", "process:launch", "process:a b/c"] for st in starts]
                check_case(mon, entries, perm, sh, queries)
                # duplicate keys: last insert wins, on a copy with one key re-inserted
                k = r.choice(list(d))
                dup = entries + [(k[0], k[1], k[2], b"LAST")]
                check_case(mon, dup, None, sh, queries)
                sig = signature(entries)
                if sig:
                    sh.nontrivial.add(("rand",) + sig)
                sh.count("random_envs")
    finally:
        mon.close()
    return sh.dict()


def enum_single_variable():
    """every subset of the five behaviours on ONE variable in ONE scope (plus the same variable in scope "all"), every value
    combination: the interplay of append / default / delim / override / prepend on one name"""
    for scope in SCOPES:
        for k in range(3, 6):
            for behs in itertools.combinations(envmodel.BEHAVIOURS, k):
                for vals in itertools.product(VALUES, repeat=k):
                    e = [(scope, b, b"A", v) for b, v in zip(behs, vals)]
                    yield e
                    if scope != "all" and k == 3:
                        yield e + [("all", "prepend", b"A", b"x"), ("all", "delim", b"A", b"y:z")]


def run(tier, seed, work):
    res = vp.Result("C04", tier, seed, "exploration")
    maxk = 2 if tier == "quick" else 3
    envs = list(enum_envs(maxk)) + list(enum_single_variable())
    nrand = 3000 if tier == "quick" else 100000
    shards = [("enum", s, seed) for s in vp.split(envs, vp.NCPU * 4)]
    shards += [("rand", s, seed) for s in vp.split(range(nrand), vp.NCPU)]
    for d in vp.pmap(shard_run, shards):
        res.merge(d)
    res.exhaustive = True
    res.extra["enumerated_envs"] = len(envs)
    res.extra["exhaustive_bound"] = ("every LayerEnv with <=%d entries over 2 names x 5 behaviours x 4 scopes x values {'', 'x', 'y:z'}, "
                                     "x 5 query scopes x 4 starting envs; both insertion orders" % maxk)
    res.rule = ("evaluations = apply() calls compared with the reference model. distinct_nontrivial = distinct classes "
                "(per variable carrying >=2 entries: the multiset of (scope, behaviour)) among the generated environments; "
                "single-entry and empty environments are counted as trivial")
    res.assumptions = ["order of application inside one scope is the lifecycle's sorted file order (append, default, override, prepend)",
                       "random part seeded by VERIF_SEED"]
    return res


def replay(case, work):
    res = vp.Result("C04", "quick", 0, "exploration")
    sh = vp.Shard()
    mon = vp.Mon("env")
    dec = lambda es: [(s, b, bytes.fromhex(n), bytes.fromhex(v)) for s, b, n, v in es]
    check_case(mon, dec(case["entries"]), dec(case["perm"]) if case.get("perm") else None, sh)
    mon.close()
    sh.nontrivial.update({"replay-a", "replay-b"})
    res.merge(sh.dict())
    res.rule = "replay of one recorded case"
    res.sample(case)
    return res
