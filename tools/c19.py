"""C19 — child output streaming (no loss, no reordering, no deadlock) and chunking-independent writers."""
import json
import os
import shutil
import subprocess
from concurrent.futures import ThreadPoolExecutor

import vp

PIPE = 65536


def fbyte(stream, i):
    return (i * 7 + i // 251 + (13 if stream == "e" else 0)) % 256


_CACHE = {}


def expected_bytes(stream, n):
    key = (stream, n)
    if key not in _CACHE:
        _CACHE[key] = bytes(fbyte(stream, i) for i in range(n))
    return _CACHE[key]


def parse_script(script):
    """-> (bytes expected on o, on e, exit code)"""
    tot = {"o": 0, "e": 0}
    closed = set()
    code = 0
    for part in script.split("|"):
        for step in part.split(","):
            if not step:
                continue
            k, rest = step[0], step[1:]
            if k in "oe":
                assert k not in closed
                tot[k] += int(rest)
            elif k == "c":
                closed.add(rest)
            elif k == "x":
                code = int(rest)
    return tot["o"], tot["e"], code


def gen_scripts(tier, seed):
    r = vp.rng(seed, "c19")
    sizes = [0, 1, 100, 4096, PIPE - 1, PIPE, PIPE + 1, 2 * PIPE + 17, 200000, 4 * PIPE]
    scripts = []
    # one stream first, then the other: the classic deadlock shape when streams are drained one after the other
    for a in sizes:
        for b in sizes:
            scripts.append(("seq-e-first", "e%d,o%d" % (a, b)))
            scripts.append(("seq-o-first", "o%d,e%d" % (a, b)))
    for a in [PIPE + 1, 200000, 4 * PIPE]:
        for b in [1, PIPE + 1, 4 * PIPE]:
            scripts.append(("simultaneous", "o%d|e%d" % (a, b)))
            scripts.append(("simultaneous-chunked", "w%d,o%d|w%d,e%d" % (r.choice([1000, 4096, 70000]), a, r.choice([777, 4096, 65536]), b)))
            scripts.append(("alternating", "o10,e%d,o%d,e10,o1,e%d" % (a, b, a)))
            scripts.append(("delays", "o%d,d%d,e%d,d%d,o%d" % (b, r.choice([1, 5, 20]), a, r.choice([1, 10]), a)))
            scripts.append(("early-close-o", "co,e%d,d5,e%d" % (a, b)))
            scripts.append(("early-close-e", "ce,o%d,d5,o%d" % (a, b)))
            scripts.append(("exit-code", "e%d,o%d,x%d" % (a, b, r.choice([1, 3, 100, 255]))))
            scripts.append(("par-delays", "o%d,d10,o%d|d3,e%d,d10,e%d" % (a, b, b, a)))
    # streams whose LAST burst is exactly a power-of-two buffer size (the reader sees "buffer full" and then EOF), alone and after other data
    for b in (4096, 8192, 16384, 32768, 65536, 131072):
        scripts.append(("exact-buffer-last-burst", "o%d" % b))
        scripts.append(("exact-buffer-last-burst", "e7,d30,e%d" % b))
        scripts.append(("exact-buffer-last-burst", "o%d,d30,o%d|e%d,d40,e%d" % (b, b, 3, b)))
        scripts.append(("exact-buffer-last-burst", "w%d,o%d,d20,o%d" % (b, 3 * b, b)))
    n_rand = 300 if tier == "quick" else 4000
    for _ in range(n_rand):
        left, right = [], []
        for _ in range(r.randint(1, 5)):
            left.append(r.choice(["o%d" % r.choice(sizes), "d%d" % r.randint(1, 8), "w%d" % r.choice([1, 100, 5000, 70000])]))
        for _ in range(r.randint(1, 5)):
            right.append(r.choice(["e%d" % r.choice(sizes), "d%d" % r.randint(1, 8), "w%d" % r.choice([1, 100, 5000, 70000])]))
        s = ",".join(left) + "|" + ",".join(right)
        if r.random() < 0.2:
            s += ",x%d" % r.choice([0, 2, 42])
        scripts.append(("random-parallel", s))
    if tier == "quick":
        keep = [s for s in scripts if s[0] != "seq-e-first" and s[0] != "seq-o-first"]
        seqs = [s for s in scripts if s[0] in ("seq-e-first", "seq-o-first")]
        scripts = keep + r.sample(seqs, 140) + [("seq-e-first", "e%d,o%d" % (4 * PIPE, 4 * PIPE)), ("seq-o-first", "o%d,e%d" % (4 * PIPE, 4 * PIPE)),
                                                ("seq-e-first", "e200000,o1"), ("seq-o-first", "o200000,e1")]
    cases = []
    # the child closes both streams and lives on until it learns that the parent's call has returned (spawn API only):
    # "returns once both streams close", not "once the child has exited"
    for s in ["co,ce,g,x7", "o100,e50,co,ce,g,x7", "o%d,co,d5,e%d,ce,g,x7" % (2 * PIPE + 17, PIPE + 1), "e10,ce|o%d,co,g,x7" % (PIPE + 1)]:      # (each stream is closed by the thread that writes it: closing it from the other thread would race with the write)
        for w in ("plain", "mapped"):
            cases.append({"class": "streams-closed-child-lives-on", "script": s, "writer": w, "api": "spawn"})
    # a child that stops in the middle of a line for longer than any plausible "flush what is pending" timer: a line is a line however long it takes
    for s in ["o7,d2300,o9", "e5,d2300,e70|o3,d1200,o3,d1200,o3"]:
        for api in ("output", "spawn"):
            cases.append({"class": "pause-mid-line", "script": s, "writer": "mapped", "api": api})
    for i, (cls, s) in enumerate(scripts):
        writer = ["plain", "slow", "trickle", "mapped"][i % 4] if sum(parse_script(s)[:2]) < 3 * PIPE else ["plain", "mapped", "slow"][i % 3]
        api = ["output", "spawn"][(i // 3) % 2]
        cases.append({"class": cls, "script": s, "writer": writer, "api": api})
    return cases


def run_stream_case(arg):
    case, work, idx = arg
    pidfile = os.path.join(work, "pid.%d" % idx)
    req = {"script": case["script"], "child": os.path.join(vp.BIN, "vpchild"), "writer": case["writer"], "api": case["api"],
           "pidfile": pidfile, "watchdog_ms": case.get("watchdog_ms", 10000)}
    try:
        # (every fourth case on a single CPU: `taskset -c 0` - the number of CPUs a process may use is no reason to read one stream after the other)
        one_cpu = ["taskset", "-c", "0"] if idx % 4 == 0 and shutil.which("taskset") else []
        p = subprocess.run(one_cpu + [os.path.join(vp.BIN, "vpmon"), "streams", json.dumps(req)], stdout=subprocess.PIPE, stderr=subprocess.PIPE, timeout=120, env=dict(os.environ, **vp.hostile_env()))
    except subprocess.TimeoutExpired:
        return case, {"harness_timeout": True}
    finally:
        for p_ in (pidfile, pidfile + ".go"):
            try:
                os.unlink(p_)
            except OSError:
                pass
    if p.returncode in (-6, -11, -7) or (p.returncode != 0 and b"overflowed its stack" in p.stderr):
        # the process that called into the library died from SIGABRT / SIGSEGV / SIGBUS: no result, no error - nothing was delivered
        return case, {"died": p.returncode, "stderr": p.stderr.decode(errors="replace")[-300:]}
    if p.returncode != 0 or not p.stdout.strip():
        return case, {"harness_error": p.stderr.decode(errors="replace")[-500:]}
    return case, json.loads(p.stdout)


def judge_stream(case, rep, res):
    res.evaluations += 1
    no, ne, code = parse_script(case["script"])
    if "died" in rep:
        res.violation("streams:process-died", "%s(%r) with %s writers: the calling process died (status %d) inside the call: %s" % (case["api"], case["script"], case["writer"], rep["died"], rep["stderr"]), {"kind": "stream", "case": case})
        return
    if "harness_timeout" in rep or "harness_error" in rep:
        res.inconclusive.append("stream case %r: executor failed (%s)" % (case["script"], rep))
        return
    if not rep["returned"]:
        if rep.get("deadlock_witness"):
            res.violation("streams:deadlock", "%s(%r) with %s writers did not return: the child is blocked writing a pipe that no parent thread reads, and no byte arrived over 3 samples 1 s apart: %r"
                          % (case["api"], case["script"], case["writer"], rep["samples"][-1]), {"kind": "stream", "case": case})
        else:
            res.inconclusive.append("stream case %r did not return within the watchdog but no deadlock could be diagnosed: %r" % (case["script"], rep))
        return
    if "io_error" in rep:
        res.violation("streams:io-error", "%s(%r) returned an error: %s" % (case["api"], case["script"], rep["io_error"]), {"kind": "stream", "case": case})
        return
    want = {"stdout": expected_bytes("o", no), "stderr": expected_bytes("e", ne)}
    for stream in ("stdout", "stderr"):
        got = bytes.fromhex(rep["writer_" + stream])
        if case["writer"] == "mapped":
            # the writer is line_mapped(prefix): every newline-terminated segment and the non-empty remainder carry the prefix once
            pre = b"O> " if stream == "stdout" else b"E> "
            raw = want[stream]
            segs = raw.split(b"\n")
            exp = b"".join(pre + x + b"\n" for x in segs[:-1]) + (pre + segs[-1] if segs[-1] else b"")
            if got != exp:
                first = next((i for i in range(min(len(got), len(exp))) if got[i] != exp[i]), min(len(got), len(exp)))
                sh_sig = "streams:mapped-writer"
                res.violation(sh_sig, "%s(%r) with line-mapped writers: the %s writer's output differs from prefixing every line once (first difference at offset %d: got %r, expected %r)"
                              % (case["api"], case["script"], stream, first, got[max(0, first - 20):first + 20], exp[max(0, first - 20):first + 20]), {"kind": "stream", "case": case})
                return
            continue
        if got != want[stream]:
            first = next((i for i in range(min(len(got), len(want[stream]))) if got[i] != want[stream][i]), min(len(got), len(want[stream])))
            res.violation("streams:writer-%s" % ("short" if len(got) < len(want[stream]) else "differs"),
                          "%s(%r): the %s writer received %d bytes, the child wrote %d (first difference at offset %d)"
                          % (case["api"], case["script"], stream, len(got), len(want[stream]), first), {"kind": "stream", "case": case})
            return
        if case["api"] == "output":
            got = bytes.fromhex(rep["output_" + stream])
            if got != want[stream]:
                res.violation("streams:output-%s" % stream, "output_and_write_streams(%r): Output.%s has %d bytes, the child wrote %d"
                              % (case["script"], stream, len(got), len(want[stream])), {"kind": "stream", "case": case})
                return
    if case["class"] == "streams-closed-child-lives-on" and rep["code"] == 9:
        res.violation("streams:returns-only-at-exit", "spawn_and_write_streams(%r) did not return when both streams were closed: the child, which waits for that return before it exits, gave up after 6 s" % case["script"],
                      {"kind": "stream", "case": case})
        return
    if rep["code"] != code:
        res.violation("streams:status", "%s(%r): exit status %r, child exited with %d" % (case["api"], case["script"], rep["code"], code), {"kind": "stream", "case": case})
        return
    if no > PIPE and ne > PIPE or case["class"].startswith("seq") and max(no, ne) > PIPE:
        res.nontrivial.add((case["class"], case["writer"], case["api"], rep["interleaving"][:40]))
    res.extra.setdefault("_sets", {}).setdefault("interleaving_signatures_seen", set()).add(rep["interleaving"][:60])
    res.extra["chunks_observed"] = res.extra.get("chunks_observed", 0) + rep["chunks"]
    if len(rep["interleaving"]) > 3:
        res.sample({"script": case["script"], "writer": case["writer"], "api": case["api"], "interleaving": rep["interleaving"][:60],
                    "bytes": [no, ne], "elapsed_ms": rep["elapsed_ms"]}, cap=3)


def writers_shard(arg):
    n, shard, nshards = arg
    p = subprocess.run([os.path.join(vp.BIN, "vpmon"), "writers", str(n), str(shard), str(nshards)], stdout=subprocess.PIPE, stderr=subprocess.PIPE, text=True)
    if p.returncode != 0:
        return {"error": p.stderr[-1500:]}
    return json.loads(p.stdout)


def run(tier, seed, work):
    res = vp.Result("C19", tier, seed, "exploration")
    n = 11 if tier == "quick" else 13
    nsh = 16 if tier == "quick" else 32
    # writers (CPU bound) first, then the stream runs with 24 concurrent instances to perturb scheduling
    for rep in vp.pmap(writers_shard, [(n, i, nsh) for i in range(nsh)]):
        if "error" in rep:
            raise vp.Broken("writer brute force failed: " + rep["error"])
        res.evaluations += rep["runs"]
        res.nontrivial_counted += rep["nontrivial"]
        res.extra["writer_failures_handled_and_carried_on"] = res.extra.get("writer_failures_handled_and_carried_on", 0) + rep.get("handled_failures", 0)
        res.extra["writer_cases"] = res.extra.get("writer_cases", 0) + rep["cases"]
        for v in rep["violations"]:
            res.violation("writers:%s" % v["variant"], "%s: input %r written as %r emitted %r, expected %r" % (v["variant"], v["input"], v["chunks"], v["got"], v["want"]),
                          {"kind": "writers", "n": n, "detail": v})
        for s in rep["samples"][:1]:
            res.sample(s, cap=2)
    cases = gen_scripts(tier, seed)
    with ThreadPoolExecutor(max_workers=24) as ex:
        for case, rep in ex.map(run_stream_case, [(c, work, i) for i, c in enumerate(cases)]):
            judge_stream(case, rep, res)
    res.extra["stream_runs"] = len(cases)
    res.exhaustive = True
    res.extra["exhaustive_bound"] = ("writers: every byte string over {marker, other} up to length %d x every way of splitting it into write calls, "
                                     "x {line_mapped+drop, mapped+unwrap, tee with a partial-write target, mapped(tee), tee(mapped, mapped)}" % n)
    res.rule = ("evaluations = writer runs + stream runs. distinct_nontrivial = writer cases with >=1 marker and >=2 write calls (each (string, chunking) is distinct by "
                "enumeration; counted by the enumerator) + distinct (script class, writer kind, api, observed interleaving signature) among stream runs in which a stream "
                "exceeds one pipe buffer. Interleaving signature = run-length-compressed sequence of stream ids of the chunks in global arrival order.")
    res.assumptions = ["'returns once both streams close' is restated as bounded progress: 10 s watchdog for work that takes milliseconds; a watchdog hit is a violation only with a "
                       "positive /proc diagnosis (child thread blocked in write() on pipe P per /proc/<pid>/task/*/syscall, no parent thread blocked in read() on P, no bytes arriving, on 3 samples 1 s apart), else inconclusive",
                       "the expected writer output is computed by an independent segment model inside the Rust enumerator"]
    return res


def replay(case, work):
    res = vp.Result("C19", "quick", 0, "exploration")
    if case["kind"] == "stream":
        c, rep = run_stream_case((case["case"], work, 0))
        judge_stream(c, rep, res)
    else:
        rep = writers_shard((case["n"], 0, 1))
        res.evaluations += rep["runs"]
        for v in rep["violations"]:
            res.violation("writers:%s" % v["variant"], "%s: input %r chunks %r emitted %r expected %r" % (v["variant"], v["input"], v["chunks"], v["got"], v["want"]), case)
    res.nontrivial.update({"replay-a", "replay-b"})
    res.rule = "replay of one recorded case"
    res.sample(case)
    return res
