#!/bin/bash
# usage: TAG=r5 tools/confirm_round.sh ID...  - confirm both mutants an agent delivered for each ID (/tmp/seed/ID.out), then run the property's quick check against each (applied to /repo transiently)
cd /verif
for ID in "$@"; do
  for n in 1 2; do
    echo "=== $ID-${TAG:-r4}-$n"
    tools/confirm_seed2.sh $ID $n ${TAG:-r4} 2>&1 | tail -n 2
    if [ -f seeded/$ID-${TAG:-r4}-$n/patch.diff ]; then
      tools/try_seed.sh seeded/$ID-${TAG:-r4}-$n/patch.diff $ID 2>&1 | grep -E "^(VIOLATION|HELD|BROKEN|  what|patch|/repo)" | cut -c1-400
    fi
  done
done
