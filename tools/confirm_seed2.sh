#!/bin/bash
# usage: tools/confirm_seed2.sh <ID> <N> [tag]  — round-2 deliveries: the first fenced block of demoN/README.md holds the copy line and the run line
set -u
ID=$1; N=$2; TAG=${3:-r2}
WT=/tmp/seed/$ID; OUT=/tmp/seed/$ID.out
cd $WT || exit 3
git checkout -q -- . ; git clean -qfd -e target
mapfile -t L < <(awk '/^```/{c++; next} c==1{print}' $OUT/demo$N/README.md | sed "s|<WT>|$WT|g; s|<OUT>|$OUT|g" | grep -v '^\s*$')
CP="${L[0]}"; RUN="${L[1]}"
echo "copy: $CP"; echo "run : $RUN"
git apply $OUT/patch$N.diff || { echo "CONFIRM-FAIL patch does not apply"; exit 1; }
suite=$(cargo nextest run --workspace --no-fail-fast --test-threads 8 --offline 2>&1 | grep -E "Summary" | tail -1)
echo "suite with change: $suite"
echo "$suite" | grep -q "189 passed" || { echo "CONFIRM-FAIL suite does not pass with the change"; git checkout -q -- .; exit 1; }
mkdir -p $(echo "$CP" | awk '{print $NF}' | xargs dirname) 2>/dev/null
bash -c "$CP" || { echo "CONFIRM-FAIL copy line failed"; exit 1; }
bash -c "$RUN" > /tmp/seed/$ID.demo.with.log 2>&1; with=$?
git apply -R $OUT/patch$N.diff
bash -c "$RUN" > /tmp/seed/$ID.demo.without.log 2>&1; without=$?
echo "demo exit with change: $with   without change: $without"
git checkout -q -- . ; git clean -qfd -e target
if [ $with -ne 0 ] && [ $without -eq 0 ]; then
  D=/verif/seeded/$ID-$TAG-$N; rm -rf $D; mkdir -p $D
  cp $OUT/patch$N.diff $D/patch.diff; cp -r $OUT/demo$N $D/demo
  python3 - "$OUT/meta$N.json" "$D/meta.json" "$suite" "$CP && $RUN" <<'PY'
import json,sys
m=json.load(open(sys.argv[1]))
m["confirmed_by_framework_author"]={"suite_with_change":sys.argv[3].strip(),"demo_command":sys.argv[4],"demo_fails_with_change":True,"demo_passes_without_change":True}
json.dump(m,open(sys.argv[2],"w"),indent=1)
PY
  echo "CONFIRMED $ID-$TAG-$N"
else
  echo "CONFIRM-FAIL demo did not behave as claimed (see /tmp/seed/$ID.demo.*.log)"; exit 1
fi
