#!/usr/bin/env python3
"""Rewrites the seed-matrix table in DESIGN.md (between the matrix:begin / matrix:end markers) from seeded/MATRIX.tsv."""
import collections
import os
import re

HERE = os.path.dirname(os.path.dirname(os.path.abspath(__file__)))


def key(s):
    if s.startswith("unfix"):
        return ("Z", 0, s)
    p = s.split("-")
    return (p[0], 0 if len(p) == 2 else int(p[1][1:]), p[-1])


def main():
    rows = [l.rstrip("\n").split("\t") for l in open(os.path.join(HERE, "seeded", "MATRIX.tsv")) if l.strip()]
    by = collections.OrderedDict()
    for r in rows:
        by.setdefault(r[0], []).append((r[1], r[2], r[3] if len(r) > 3 else ""))
    out = ["| seeded change | check | result | first signature reported |", "|---|---|---|---|"]
    for s in sorted(by, key=key):
        for prop, res, sig in by[s]:
            out.append("| %s | %s | %s | `%s` |" % (s, prop, "caught" if res == "VIOLATION" else "**not caught**" if res == "HELD" else res, sig))
    caught = sum(1 for s in by if any(r == "VIOLATION" for _, r, _ in by[s]))
    missed = sorted(s for s in by if not any(r == "VIOLATION" for _, r, _ in by[s]))
    txt = ("Result of the last full run (%d changes, quick tier, one row per (change, check) pair; %d of %d changes are caught by at least one check%s):\n\n"
           % (len(by), caught, len(by), "" if not missed else "; not caught: " + ", ".join("`%s`" % m for m in missed) + " - see the notes above")) + "\n".join(out) + "\n"
    p = os.path.join(HERE, "DESIGN.md")
    s = open(p).read()
    s = re.sub(r"<!-- matrix:begin -->\n.*<!-- matrix:end -->\n", lambda m: "<!-- matrix:begin -->\n" + txt + "<!-- matrix:end -->\n", s, flags=re.S)
    open(p, "w").write(s)
    print("%d/%d caught; missed: %s" % (caught, len(by), missed))


if __name__ == "__main__":
    main()
