#!/bin/bash
# usage: tools/all.sh <quick|thorough> <seed>  — runs every check once, prints one line each
tier=${1:-quick}; seed=${2:-0}
cd /verif
for i in 01 02 03 04 05 06 07 08 09 10 11 12 13 14 15 16 17 18 19 20; do
  s=$(date +%s)
  out=$(VERIF_SEED=$seed ./check C$i --tier $tier 2>&1); rc=$?
  e=$(( $(date +%s) - s ))
  echo "C$i rc=$rc ${e}s $(echo "$out" | grep -E '^(HELD|VIOLATION|BROKEN|KNOWN-FINDING|INCONCLUSIVE)' | head -3 | cut -c1-160 | tr '\n' '|')"
done
