"""C18 — inventory resolution (maximal matching artifact) and checksum / TOML round trips."""
import itertools
import json
import os
import subprocess
import tomllib

import vp

HEX = "0123456789abcdefABCDEF"
DIGESTS = {"t2": ("t2", 2), "sha256": ("sha256", 32), "sha512": ("sha512", 64)}


def rec_checksum(digest, s):
    if digest == "unit":
        # the digest type `()` expects nothing in particular: any algorithm name, any digest length (an even number of hex digits, zero
        # included). Whether the empty string is an algorithm name is left open (None).
        if ":" not in s:
            return False
        pre, rest = s.split(":", 1)
        if len(rest) % 2 or not all(c in HEX for c in rest):
            return False
        return True if pre else None
    name, nbytes = DIGESTS[digest]
    if ":" not in s:
        return False
    pre, rest = s.split(":", 1)
    if pre != name:
        return False
    if len(rest) != 2 * nbytes:
        return False
    return all(c in HEX for c in rest)


def resolve_shard(arg):
    maxn, shard, nshards = arg
    # (odd shards: stderr is /dev/full - resolving has nothing to say there)
    p = subprocess.run([os.path.join(vp.BIN, "vpmon"), "resolve", str(maxn), str(shard), str(nshards)],
                       stdout=subprocess.PIPE, stderr=open("/dev/full", "w") if shard % 2 else subprocess.PIPE, text=True, env=dict(os.environ, **vp.hostile_env()))
    if p.returncode == 101 or p.returncode < 0:
        # a panic / a signal inside the executor, whose only job is to call resolve and partial_resolve on the enumerated inventories
        return {"died": p.returncode, "stderr": (p.stderr or "(stderr was /dev/full)")[-600:], "shard": shard}
    if p.returncode != 0:
        return {"error": (p.stderr or "(stderr was /dev/full) exit status %d" % p.returncode)[-2000:]}
    return json.loads(p.stdout)


def checksum_strings(tier):
    alpha = ["a", "F", "0", "g", ":", " "]
    n = 5 if tier == "quick" else 6
    rest = ["".join(t) for k in range(n + 1) for t in itertools.product(alpha, repeat=k)]
    prefixes = ["t2:", "t2", "T2:", "t2::", ":", "", " t2:", "t2 :", "sha256:", "t:", "t22:", "t2:0"]
    out = {"t2": list(dict.fromkeys(p + r for p in prefixes for r in rest))}
    out["unit"] = list(out["t2"])
    for d, (name, nb) in DIGESTS.items():
        if d == "t2":
            continue
        lst = []
        for ln in range(2 * nb - 3, 2 * nb + 4):
            for fill in ("a", "0", "F", "aF09"):
                body = (fill * (ln // len(fill) + 1))[:ln]
                for pre in (name + ":", name, name.upper() + ":", name + "::", ":" + name + ":", " " + name + ":", name + " :", "sha1:", "md5:",
                            ("sha512:" if name == "sha256" else "sha256:")):
                    lst.append(pre + body)
                    if ln > 0:
                        lst.append(pre + body[:-1] + "g")
                        lst.append(pre + body[:-1] + " ")
                        lst.append(pre + body[: ln // 2] + ":" + body[ln // 2 + 1:])
        out[d] = list(dict.fromkeys(lst))
    return out


def checksum_shard(arg):
    """arg: list of (digest, items) - one executor process checks all of them in alternating chunks (state shared between the
    digest types inside one process would stay hidden if every process saw a single type); the first list decides who goes first."""
    parts = arg if isinstance(arg, list) else [arg]
    sh = vp.Shard()
    mon = vp.Mon("inventory")
    try:
        chunks = []
        for digest, items in parts:
            chunks.append([(digest, items[i:i + 500]) for i in range(0, len(items), 500)])
        order = []
        while any(chunks):
            for c in chunks:
                if c:
                    order.append(c.pop(0))
        for digest, chunk in order:
            rep = mon.call({"op": "checksums", "digest": digest, "items": chunk})
            if True:
                for s, r in zip(chunk, rep["results"]):
                    sh.evaluations += 1
                    want = rec_checksum(digest, s)
                    case = {"kind": "checksum", "digest": digest, "input": s}
                    if want is not None and r["ok"] != want:
                        sh.violation("checksum:%s:%s" % (digest, "accepts-invalid" if r["ok"] else "rejects-valid"),
                                     "Checksum<%s> %s %r" % (digest, "accepts" if r["ok"] else "rejects", s), case)
                        continue
                    if r["ok"]:
                        pre, rest = s.split(":", 1)
                        if r["name"] != pre or r["value"] != rest.lower() or r["rendered"] != pre + ":" + rest.lower() or r["reparse_eq"] is not True:
                            sh.violation("checksum:%s:roundtrip" % digest, "Checksum<%s> parsed from %r renders as %r (name %r, value %r, reparse_eq %r)"
                                         % (digest, s, r["rendered"], r["name"], r["value"], r["reparse_eq"]), case)
                    sh.nontrivial.add(("cs", digest, r["ok"], s.count(":"), len(s.split(":", 1)[-1]) if ":" in s else -1,
                                       any(c not in HEX + ":" for c in s)))
    finally:
        mon.close()
    return sh.dict()


# --------------------------------------------------------------------------
# independent reading of semver versions and of the requirement forms used below (Cargo's semantics, as the semver crate implements them)

def sv_parse(v):
    core, _, build = v.partition("+")
    core, _, pre = core.partition("-")
    ma, mi, pa = (int(x) for x in core.split("."))
    return (ma, mi, pa, tuple(pre.split(".")) if pre else None, build)


def sv_key(v):
    ma, mi, pa, pre, build = sv_parse(v)
    key = [ma, mi, pa]
    if pre is None:
        return (ma, mi, pa, 1, ())
    ids = tuple((0, int(x), "") if x.isdigit() else (1, 0, x) for x in pre)
    return (ma, mi, pa, 0, ids)


def sv_matches(req, v):
    ma, mi, pa, pre, _ = sv_parse(v)
    if req == "*":
        return pre is None
    op = "".join(ch for ch in req if ch in "<>=^~")
    rest = req[len(op):]
    rcore, _, rpre = rest.partition("-")
    parts = [int(x) for x in rcore.split(".")]
    full = parts + [0] * (3 - len(parts))
    if pre is not None and not (rpre and full == [ma, mi, pa] and len(parts) == 3):
        return False            # a pre-release only matches a comparator that names the same triple with a pre-release tag
    cmp_v = sv_key(v)
    low = sv_key("%d.%d.%d%s" % (full[0], full[1], full[2], "-" + rpre if rpre else ""))
    if op == ">=":
        return cmp_v >= low
    if op == "<":
        return cmp_v < low
    if op == "=":
        return cmp_v == low if len(parts) == 3 else (ma, mi)[:len(parts)] == tuple(parts)
    if op == "~":
        hi = (full[0], full[1] + 1, 0, 0, ()) if len(parts) >= 2 else (full[0] + 1, 0, 0, 0, ())
        return low <= cmp_v < hi
    if op == "^":
        if full[0] > 0 or len(parts) == 1:
            hi = (full[0] + 1, 0, 0, 0, ())
        elif full[1] > 0 or len(parts) == 2:
            hi = (0, full[1] + 1, 0, 0, ())
        else:
            hi = (0, 0, full[2] + 1, 0, ())
        return low <= cmp_v < hi
    raise ValueError(req)


def roundtrip_shard(arg):
    seed, idxs = arg[:2]
    extra_env = arg[2] if len(arg) > 2 else None
    sh = vp.Shard()
    mon = vp.Mon("inventory", env=extra_env)
    versions = ["0.0.1", "1.2.3", "1.10.0", "2.0.0-rc.1", "2.0.0", "10.20.30+build.5", "1.2.3-alpha.1", "0.0.2", "0.1.0", "0.1.7"]
    urls = ["https://example.com/a.tgz", "", "u \"q\" \\ \n", "日本", "x" * 200]
    tags = ["", "plain", 'q"', "nl\n", "é"]
    reqs = ["*", ">=1.0.0", "^1.2", "<2.0.0", "=1.2.3", ">=2.0.0-rc.1", "~1.10", "^0.0.1", "^0.0", "^0.1", "^0", "~1", "=1.2", "=0"]
    try:
        for idx in idxs:
            r = vp.rng(seed, "c18-rt", idx)
            arts = []
            for _ in range(r.randint(0, 6)):
                arts.append({"version": r.choice(versions), "os": r.choice(["linux", "darwin"]), "arch": r.choice(["amd64", "arm64"]),
                             "url": r.choice(urls), "checksum": "sha256:" + "".join(r.choice("0123456789abcdef") for _ in range(64)),
                             "metadata": None if r.random() < 0.0 else {"tag": r.choice(tags), "n": r.choice([0, -1, 2 ** 62])}})
            if arts and r.random() < 0.5:
                # the same download listed again - right after the original or elsewhere - under another version, with other metadata, or
                # exactly as it is: every artifact of the document is an artifact of the inventory
                k = r.randrange(len(arts))
                twin = dict(arts[k], metadata=dict(arts[k]["metadata"]))
                how = r.choice(["version", "metadata", "exact", "version"])
                if how == "version":
                    twin["version"] = r.choice([v for v in versions if v != twin["version"]])
                elif how == "metadata":
                    twin["metadata"]["n"] = twin["metadata"]["n"] + 1 if twin["metadata"]["n"] < 2 ** 62 else 5
                arts.insert(r.choice([k + 1, k + 1, k, r.randrange(len(arts) + 1)]), twin)
            queries = [{"os": o, "arch": a, "req": q} for o in ("linux", "darwin") for a in ("amd64", "arm64") for q in r.sample(reqs, 3)]
            rep = mon.call({"op": "roundtrip", "artifacts": arts, "queries": queries})
            sh.evaluations += 1
            case = {"kind": "roundtrip", "artifacts": arts}
            if "parse_err" in rep:
                sh.violation("toml:reparse-fails", "inventory rendered to TOML does not parse back: %s\n%s" % (rep["parse_err"], rep["text"][:400]), case)
                continue
            if rep["eq"] is not True or rep["back"] != arts:
                sh.violation("toml:roundtrip", "artifacts after to_string -> parse differ: %r vs %r" % (rep["back"][:2], arts[:2]), case)
                continue
            try:
                doc = tomllib.loads(rep["text"])
            except tomllib.TOMLDecodeError as e:
                sh.violation("toml:invalid", "rendered inventory is not valid TOML: %s" % e, case)
                continue
            got = doc.get("artifacts", [])
            if got != arts:
                sh.violation("toml:independent-read", "independent TOML reader sees different artifacts: %r vs %r" % (got[:2], arts[:2]), case)
                continue
            # resolution with the real semver::VersionReq: result must match os/arch and be a maximum among same os/arch that it "beats"
            for q, pos in zip(queries, rep["resolved"]):
                sh.evaluations += 1
                same = [i for i, a in enumerate(arts) if a["os"] == q["os"] and a["arch"] == q["arch"]]
                if pos is not None and pos not in same:
                    sh.violation("resolve:semver:wrong-platform", "resolve(%r) returned artifact %r of another os/arch" % (q, arts[pos]), case)
                    continue
                matching = [i for i in same if sv_matches(q["req"], arts[i]["version"])]
                if (pos is None) != (not matching):
                    sh.violation("resolve:semver:%s" % ("missed" if pos is None else "no-match"), "resolve(%r) returned %s although the artifacts matching os, arch and requirement are %r"
                                 % (q, "nothing" if pos is None else arts[pos]["version"], [arts[i]["version"] for i in matching]), case)
                elif pos is not None and (pos not in matching or any(sv_key(arts[i]["version"]) > sv_key(arts[pos]["version"]) for i in matching)):
                    sh.violation("resolve:semver:%s" % ("not-matching" if pos not in matching else "not-maximal"), "resolve(%r) returned %s; matching artifacts: %r"
                                 % (q, arts[pos]["version"], [arts[i]["version"] for i in matching]), case)
            if len(arts) >= 3:
                sh.nontrivial.add(("rt", len(arts), len({a["version"] for a in arts}), any(not a["url"].isascii() for a in arts)))
                sh.sample({"kind": "toml round trip", "artifacts": len(arts), "text_head": rep["text"][:200]}, cap=1)
    finally:
        mon.close()
    return sh.dict()


def run(tier, seed, work):
    res = vp.Result("C18", tier, seed, "exploration")
    maxn = 4 if tier == "quick" else 5
    nsh = 16 if tier == "quick" else 48
    reps = vp.pmap(resolve_shard, [(maxn, i, nsh) for i in range(nsh)])
    classes = set()
    for rep in reps:
        if "died" in rep:
            res.evaluations += 1
            res.violation("resolve:process-died", "the process that resolves the enumerated inventories died (status %d, shard %d) inside a call: %s" % (rep["died"], rep["shard"], rep["stderr"]), {"kind": "resolve-died", "shard": rep["shard"]})
            continue
        if "error" in rep:
            raise vp.Broken("resolve brute force failed: " + rep["error"])
        for vt, t in rep.items():
            res.evaluations += t["resolutions"]
            res.extra["resolutions_" + vt] = res.extra.get("resolutions_" + vt, 0) + t["resolutions"]
            for c in t["classes"]:
                classes.add((vt,) + tuple(c))
            for v in t["violations"]:
                res.violation("resolve:%s:%s" % (vt, v["route"]), "%s on %s: %s; inventory %r query %r"
                              % (v["route"], v["version_type"], v["what"], v["inventory"], v["query"]), {"kind": "resolve", "maxn": maxn, "detail": v})
            for s in t["samples"]:
                res.sample(s, cap=3)
    res.nontrivial.update(c for c in classes if c[1] >= 2)
    res.extra["resolution_classes_seen"] = len(classes)
    cs = checksum_strings(tier)
    # every process gets a slice of every digest's strings; which digest a process meets first rotates
    nsh = vp.NCPU
    split = {d: vp.split(items, nsh) for d, items in cs.items()}
    shards = []
    for k in range(nsh):
        ds = list(cs)
        ds = ds[k % len(ds):] + ds[:k % len(ds)]
        shards.append([(d, split[d][k]) for d in ds if k < len(split[d]) and split[d][k]])
    for d in vp.pmap(checksum_shard, [s_ for s_ in shards if s_]):
        res.merge(d)
    nrt = 600 if tier == "quick" else 8000
    for d in vp.pmap(roundtrip_shard, [(seed, s) for s in vp.split(range(nrt), vp.NCPU)]):
        res.merge(d)
    # ambient-read monitor: which environment variables does rendering / parsing / resolving an inventory ask for at all? None is an input: every
    # name that is asked for is set to something hostile and a part of the round-trip workload runs again under that environment
    probe = [{"op": "roundtrip", "artifacts": [{"version": "1.2.3", "os": "linux", "arch": "amd64", "url": "https://example.com/a.tgz", "checksum": "sha256:" + "0" * 64, "metadata": {"tag": "t", "n": 1}}],
              "queries": [{"os": "linux", "arch": "amd64", "req": "*"}]}, {"op": "checksums", "digest": "sha256", "items": ["sha256:" + "a" * 64]}]
    asked = vp.env_reads("inventory", probe, work)
    res.extra["environment_variables_asked_for"] = asked
    res.extra["ambient_read_probe"] = 1
    if asked:
        hostile = {n: "https://mirror.hostile.example/%s/" % n.lower() for n in asked}
        for d in vp.pmap(roundtrip_shard, [(seed, s, hostile) for s in vp.split(range(min(nrt, 400)), vp.NCPU)]):
            res.merge(d)
    res.exhaustive = True
    res.extra["exhaustive_bound"] = ("resolution: every inventory (ordered, with duplicates) of <=%d artifacts over {3-4 versions x 2 OS x 2 arch x 2 metadata} "
                                     "for u8, semver::Version (total), product-order pairs and f32-with-NaN (partial), x every query (os x arch x 4-6 version sets x 3 metadata requirements), "
                                     "resolve and partial_resolve; checksums: all remainders of length <=%d over {a,F,0,g,:,space} behind 12 prefixes for a 2-byte digest" % (maxn, 5 if tier == "quick" else 6))
    res.extra["checksum_strings"] = sum(len(v) for v in cs.values())
    res.rule = ("evaluations = resolutions judged by brute force + checksum strings + TOML round trips. distinct_nontrivial = distinct "
                "(version type, |matching set|>=2, number of maximal elements, has incomparable pair, position of the result in the matching set) classes, "
                "plus distinct checksum-string shapes (digest, verdict, colon count, remainder length, has non-hex) and round-trip shapes")
    res.assumptions = ["the brute-force judge for resolution runs inside the Rust executor (10^8 cases) and uses only comparisons on the generated tuples",
                       "checksum rule: text before the first ':' equals the digest name and the remainder is hex of exactly the digest length"]
    return res


def replay(case, work):
    res = vp.Result("C18", "quick", 0, "exploration")
    if case["kind"] == "checksum":
        # (the other digest types are parsed first in the same process, as in the run that recorded the case)
        warm = [("sha256", ["sha256:" + "a" * 64]), ("sha512", ["sha512:" + "a" * 128]), ("t2", ["t2:00ff"])]
        res.merge(checksum_shard([w for w in warm if w[0] != case["digest"]] + [(case["digest"], [case["input"]])]))
    elif case["kind"] == "resolve-died":
        rep = resolve_shard((4, 1, 2))      # an odd shard again: stderr is /dev/full
        res.evaluations += 1
        if "died" in rep:
            res.violation("resolve:process-died", "the resolving process died again (status %d)" % rep["died"], case)
    elif case["kind"] == "resolve":
        rep = resolve_shard((case["maxn"], 0, 1))
        for vt, t in rep.items():
            res.evaluations += t["resolutions"]
            for v in t["violations"]:
                res.violation("resolve:%s:%s" % (vt, v["route"]), v["what"], case)
    else:
        mon = vp.Mon("inventory")
        rep = mon.call({"op": "roundtrip", "artifacts": case["artifacts"], "queries": []})
        mon.close()
        res.evaluations += 1
        if "parse_err" in rep or rep.get("back") != case["artifacts"]:
            res.violation("toml:roundtrip", "round trip differs", case)
    res.nontrivial.update({"replay-a", "replay-b"})
    res.rule = "replay of one recorded case"
    res.sample(case)
    return res
