"""Shared helpers for the layer-history monitors (C01, C02, C20): views of a <layers> snapshot per
layer, and the simulated lifecycle restore between builds. Uses tomllib / plain os calls only."""
import os
import tomllib

import tomlw
import vp

SBOM_SUFFIX = {"cdx": b".sbom.cdx.json", "spdx": b".sbom.spdx.json", "syft": b".sbom.syft.json"}


def view(snap, name):
    """What belongs to layer `name` in a snapshot of <layers> (keys are bytes paths)."""
    n = name.encode()
    v = {"dir_present": snap.get(n, (None,))[0] == "d", "dir_entry": snap.get(n), "dir": {}, "toml": None, "sboms": {}}
    pre = n + b"/"
    for k, e in snap.items():
        if k.startswith(pre):
            v["dir"][k[len(pre):]] = e
    t = snap.get(n + b".toml")
    if t is not None:
        v["toml"] = t[2] if t[0] == "f" else t
    for fmt, suf in SBOM_SUFFIX.items():
        e = snap.get(n + suf)
        if e is not None:
            v["sboms"][fmt] = e[2] if e[0] == "f" else e
    return v


def owned_keys(names):
    """top-level entries that belong to some known layer"""
    out = set()
    for nm in names:
        n = nm.encode()
        out.add(n)
        out.add(n + b".toml")
        for suf in SBOM_SUFFIX.values():
            out.add(n + suf)
    return out


def stray_entries(snap, names):
    owned = owned_keys(names)
    return sorted(k for k in snap if k.split(b"/", 1)[0] not in owned)


def parse_toml(raw):
    """-> (types dict or None, metadata (dict) or None if the key is absent); raises on malformed"""
    d = tomllib.loads(raw.decode("utf-8"))
    return d.get("types"), d.get("metadata")


def restore(layers_dir, names):
    """The platform's cache restore between two builds, from what is actually on disk:
    cache=true keeps dir + SBOM files + toml without [types]; launch=true (cache=false) keeps only the
    toml without [types]; everything else vanishes."""
    for nm in names:
        d = os.path.join(layers_dir, nm)
        t = d + ".toml"
        types, md = None, None
        if os.path.exists(t):
            try:
                types, md = parse_toml(open(t, "rb").read())
            except Exception:  # noqa: BLE001 - a malformed file is dropped like an unknown layer
                types, md = None, None
        types = types or {}
        keep_all = bool(types.get("cache")) and os.path.isdir(d)
        keep_toml = keep_all or (bool(types.get("launch")) and os.path.exists(t))
        if not keep_all:
            vp.rmtree(d)
            for suf in SBOM_SUFFIX.values():
                p = d + suf.decode()
                if os.path.lexists(p):
                    os.unlink(p)
        if keep_toml:
            with open(t, "w") as f:
                f.write(tomlw.doc({"metadata": md}) if md is not None else "")
        elif os.path.lexists(t):
            os.unlink(t)
