"""C07 — what libcnb writes is valid TOML 1.0 and an independent reader applying the CNB spec's
field names and defaults recovers exactly what was constructed through the builders."""
import json
import os
import subprocess
import tomllib

import tomlw
import vp

S = tomlw.RND_STRINGS
PTYPES = ["web", "worker", "a.b", "x_y-z", "W0", "9", "-", "_", "."]
EXEC_KEYS = ["PATH", "A", "a_b", "X-Y", "0", "_", "-", "lower", "MiXeD9"]


def str_class(s):
    c = set()
    for ch in s:
        o = ord(ch)
        if ch == '"':
            c.add("quote")
        elif ch == "\\":
            c.add("backslash")
        elif ch in "\n\r":
            c.add("newline")
        elif o < 32 or o == 127:
            c.add("control")
        elif o > 0xFFFF:
            c.add("astral")
        elif o > 127:
            c.add("unicode")
    if s == "":
        c.add("empty")
    if len(s) > 200:
        c.add("long")
    return c


def classes_in(obj):
    c = set()
    if isinstance(obj, str):
        c |= str_class(obj)
    elif isinstance(obj, dict):
        for k, v in obj.items():
            c |= str_class(k) | classes_in(v)
    elif isinstance(obj, (list, tuple)):
        for v in obj:
            c |= classes_in(v)
    elif isinstance(obj, bool):
        c.add("bool")
    elif isinstance(obj, int):
        c.add("int")
    elif isinstance(obj, float):
        c.add("float")
    elif isinstance(obj, tomlw.Dt):
        c.add("datetime")
    return c


# --------------------------------------------------------------------------
# generators: (request for the executor, intent)

def gen_process(r):
    p = {"type": r.choice(PTYPES), "command": [r.choice(S) for _ in range(r.choice([0, 1, 1, 2, 3]))]}
    intent = {"type": p["type"], "command": list(p["command"]), "args": [], "default": False, "wd": None}
    k = r.random()
    if k < 0.6:
        p["args"] = [r.choice(S) for _ in range(r.choice([0, 1, 2, 4]))]
        p["args_one_by_one"] = r.random() < 0.5
        intent["args"] = list(p["args"])
    if r.random() < 0.5:
        p["default"] = r.random() < 0.6
        intent["default"] = p["default"]
    k = r.random()
    if k < 0.35:
        p["wd"] = r.choice(["/abs/dir", "rel/dir", ".", "", "with space", "q\"uote", "日本", "back\\slash", "/"])
        intent["wd"] = p["wd"]
    elif k < 0.5:
        p["wd"] = None
        p["wd_explicit_app"] = True
    elif k < 0.56:
        p["wd_hex"] = r.choice([b"/srv/\xff\xfe", b"rel/\x80dir", b"\xc3"]).hex()
        intent["wd"] = "<non-utf8>"
    return p, intent


def gen_launch(r):
    calls = []
    intent = {"processes": [], "labels": [], "slices": []}
    for _ in range(r.choice([0, 1, 2, 3, 5, 8])):
        k = r.choice(["process", "processes", "label", "labels", "slice", "slices"])
        if k == "process":
            p, i = gen_process(r)
            calls.append(["process", p])
            intent["processes"].append(i)
        elif k == "processes":
            ps = [gen_process(r) for _ in range(r.choice([0, 1, 3]))]
            calls.append(["processes", [p for p, _ in ps]])
            intent["processes"] += [i for _, i in ps]
        elif k == "label":
            kv = [r.choice(S), r.choice(S)]
            calls.append(["label", kv])
            intent["labels"].append(kv)
        elif k == "labels":
            kvs = [[r.choice(S), r.choice(S)] for _ in range(r.choice([0, 1, 3]))]
            calls.append(["labels", kvs])
            intent["labels"] += kvs
        elif k == "slice":
            g = [r.choice(S) for _ in range(r.choice([0, 1, 3]))]
            calls.append(["slice", g])
            intent["slices"].append(g)
        else:
            gs = [[r.choice(S) for _ in range(r.choice([0, 1, 2]))] for _ in range(r.choice([0, 1, 2]))]
            calls.append(["slices", gs])
            intent["slices"] += gs
    return {"op": "launch", "calls": calls, "build_midway": r.random() < 0.4}, intent


def gen_plan(r):
    calls = []
    groups = [{"provides": [], "requires": []}]
    n = r.choice([0, 1, 2, 3, 5, 8, 12])
    for _ in range(n):
        k = r.choice(["provides", "requires", "requires", "or"])
        if k == "provides":
            name = r.choice(S)
            calls.append(["provides", name])
            groups[-1]["provides"].append(name)
        elif k == "requires":
            name = r.choice(S)
            style = r.random()
            if style < 0.35:
                md = tomlw.rnd_table(r, 1)
                calls.append(["requires", name, tomlw.tagged(md)])
                groups[-1]["requires"].append((name, md))
            elif style < 0.5:
                md0, md = tomlw.rnd_table(r, 1), tomlw.rnd_table(r, 1)        # metadata() twice: the second call replaces the first
                calls.append(["requires", name, tomlw.tagged(md0), tomlw.tagged(md)])
                groups[-1]["requires"].append((name, md))
            elif style < 0.75:
                calls.append(["requires", name, None, "Require::new"])
                groups[-1]["requires"].append((name, {}))
            else:
                calls.append(["requires", name])
                groups[-1]["requires"].append((name, {}))
        else:
            calls.append(["or"])
            groups.append({"provides": [], "requires": []})
    return {"op": "build_plan", "calls": calls}, groups


def gen_layer(r):
    types = None if r.random() < 0.3 else {"launch": r.random() < 0.5, "build": r.random() < 0.5, "cache": r.random() < 0.5}
    md = None if r.random() < 0.2 else tomlw.rnd_table(r, 0 if r.random() < 0.8 else 1)
    return {"op": "layer_toml", "types": types, "metadata": tomlw.tagged(md) if md is not None else None}, {"types": types, "metadata": md}


def gen_store(r):
    md = tomlw.rnd_table(r, 0 if r.random() < 0.8 else 1) if r.random() < 0.9 else {}      # (an empty store is a store)
    return {"op": "store", "metadata": tomlw.tagged(md)}, md


URIS = [".", "./", "../x", "a/b", "/abs", "docker://docker.io/heroku/procfile-cnb:2.0.1", "https://example.com/x?y=1#z", "urn:cnb:registry:heroku/nodejs@1.2.3",
        "libcnb:heroku/nodejs", "", "file:///p", "a%20b"]


def gen_package(r):
    bp = r.choice(URIS)
    deps = [r.choice(URIS) for _ in range(r.choice([0, 1, 2, 5]))]
    os_ = r.choice([None, "linux", "windows"])
    return {"op": "package", "buildpack": bp, "dependencies": deps, "os": os_}, {"buildpack": bp, "dependencies": deps, "os": os_ or "linux"}


# --------------------------------------------------------------------------
# spec readers (field names and defaults from the CNB buildpack/distribution spec)

class Bad(Exception):
    pass


def only_keys(t, allowed, where):
    extra = set(t) - set(allowed)
    if extra:
        raise Bad("%s has keys the spec does not define: %r" % (where, sorted(extra)[:6]))


def str_list(v, where):
    if not isinstance(v, list) or not all(isinstance(x, str) for x in v):
        raise Bad("%s is not an array of strings: %r" % (where, v))
    return v


def read_launch(d):
    only_keys(d, ["processes", "labels", "slices"], "launch.toml")
    out = {"processes": [], "labels": [], "slices": []}
    for p in d.get("processes", []):
        only_keys(p, ["type", "command", "args", "default", "working-dir"], "[[processes]]")
        if not isinstance(p.get("type"), str):
            raise Bad("process without string type: %r" % p)
        if "command" not in p:
            raise Bad("process without command: %r" % p)
        dflt = p.get("default", False)
        if not isinstance(dflt, bool):
            raise Bad("process default is not a boolean: %r" % dflt)
        wd = p.get("working-dir")
        if wd is not None and not isinstance(wd, str):
            raise Bad("working-dir is not a string")
        out["processes"].append({"type": p["type"], "command": str_list(p["command"], "command"), "args": str_list(p.get("args", []), "args"),
                                 "default": dflt, "wd": wd})
    for lab in d.get("labels", []):
        only_keys(lab, ["key", "value"], "[[labels]]")
        out["labels"].append([lab["key"], lab["value"]])
    for s in d.get("slices", []):
        only_keys(s, ["paths"], "[[slices]]")
        out["slices"].append(str_list(s["paths"], "paths"))
    return out


def read_group(g, where):
    only_keys(g, ["provides", "requires"] + (["or"] if where == "build plan" else []), where)
    prov, req = [], []
    for p in g.get("provides", []):
        only_keys(p, ["name"], "provides")
        prov.append(p["name"])
    for q in g.get("requires", []):
        only_keys(q, ["name", "metadata"], "requires")
        md = q.get("metadata", {})
        if not isinstance(md, dict):
            raise Bad("requires.metadata is not a table")
        req.append((q["name"], md))
    return {"provides": prov, "requires": req}


def read_plan(d):
    groups = [read_group(d, "build plan")]
    for g in d.get("or", []):
        groups.append(read_group(g, "[[or]]"))
    return groups


def groups_equal(a, b):
    if len(a) != len(b):
        return False
    for x, y in zip(a, b):
        if x["provides"] != y["provides"] or len(x["requires"]) != len(y["requires"]):
            return False
        for (n1, m1), (n2, m2) in zip(x["requires"], y["requires"]):
            if n1 != n2 or not tomlw.same(m1, m2):
                return False
    return True


def max_quote_run(obj):
    """longest run of consecutive ' or of consecutive " in any string of a request"""
    import re
    best = 0
    if isinstance(obj, str):
        for m in re.finditer(r"'+|\"+", obj):
            best = max(best, len(m.group(0)))
    elif isinstance(obj, dict):
        for k, v in obj.items():
            best = max(best, max_quote_run(k), max_quote_run(v))
    elif isinstance(obj, (list, tuple)):
        for v in obj:
            best = max(best, max_quote_run(v))
    return best


def quote_run_cases():
    """deterministic boundary cases: runs of 255 and 256 (and more) identical quote characters in a label value, a process
    argument and a metadata string"""
    out = []
    for q in ('"', "'"):
        for n in (255, 256, 300, 1000):
            v = "a" + q * n + "b"
            out.append(("launch", {"op": "launch", "calls": [["label", ["k", v]]]}, {"processes": [], "labels": [["k", v]], "slices": []}))
            out.append(("store", {"op": "store", "metadata": tomlw.tagged({"s": v})}, {"s": v}))
    return out


def run_doc(mon, base, idx, kind, req, intent, sh):
    path = os.path.join(base, "%s-%d.toml" % (kind, idx))
    req = dict(req)
    req["path"] = path
    case = {"kind": kind, "request": {k: v for k, v in req.items() if k != "path"}}
    if idx % 2 == 0:
        # the usual situation for store.toml / <layer>.toml / launch.toml: a longer file from an earlier build is overwritten
        with open(path, "w") as f:
            f.write("".join("stale_key_%d = \"left over from an earlier, longer document\"\n" % i for i in range(120)))
    rep = mon.call(req)
    sh.evaluations += 1
    sh.count("route_" + kind)
    if "input_rejected" in rep:
        sh.count("inputs_rejected_by_constructors")
        return
    if "panic" in rep:
        # no text was written at all. A run of >= 256 quote characters is the listed finding (arithmetic overflow in the serialiser's
        # quote-run counter when built with overflow checks, i.e. every dev-profile build); any other panic is reported under its own signature
        run = max_quote_run(case["request"])
        sh.violation("writer-panic:quote-run-256" if run >= 256 and "overflow" in rep["panic"] else "writer-panic",
                     "writing a %s panicked instead of producing TOML (%s); longest run of one quote character in the payload: %d" % (kind, rep["panic"][:120], run), case)
        if os.path.exists(path):
            os.unlink(path)
        return
    if kind == "launch" and any(p.get("wd") == "<non-utf8>" for p in intent["processes"]):
        # TOML text cannot hold such a path: the only acceptable outcome is a reported error (never a silently altered directory)
        if "write_err" not in rep:
            sh.violation("launch:non-utf8-working-dir", "a process working directory that is not valid UTF-8 was written without error: %r" % open(path, "rb").read()[:300], case)
        else:
            sh.nontrivial.add(("launch", "non-utf8-wd-refused"))
        if os.path.exists(path):
            os.unlink(path)
        return
    if "write_err" in rep:
        sh.violation("%s:write-error" % kind, "writing a %s built through the public API failed: %s" % (kind, rep["write_err"]), case)
        return
    raw = open(path, "rb").read()
    os.unlink(path)
    try:
        doc = tomllib.loads(raw.decode("utf-8"))
    except Exception as e:  # noqa: BLE001
        sh.violation("%s:invalid-toml" % kind, "%s written by libcnb is not valid TOML 1.0: %s\n%s" % (kind, e, raw[:300]), case)
        return
    try:
        if kind == "launch":
            got = read_launch(doc)
            ok = got == intent
            shape = (kind, bool(intent["processes"]), bool(intent["labels"]), bool(intent["slices"]),
                     any(p["wd"] is not None for p in intent["processes"]), any(p["default"] for p in intent["processes"]),
                     any(p["args"] for p in intent["processes"]), frozenset(classes_in(intent)))
            rr_ok = ("reread" in rep) and rep["reread"] == intent
        elif kind == "build_plan":
            got = read_plan(doc)
            ok = groups_equal(got, [{"provides": g["provides"], "requires": [(n, tomlw.to_py(m)) for n, m in g["requires"]]} for g in intent])
            shape = (kind, len(intent), tuple((bool(g["provides"]), bool(g["requires"])) for g in intent)[:6],
                     frozenset(classes_in([g["provides"] for g in intent]) | classes_in([m for g in intent for _, m in g["requires"]])))
            rr_ok = True
        elif kind == "layer_toml":
            only_keys(doc, ["types", "metadata"], "layer toml")
            t = doc.get("types", {})
            only_keys(t, ["launch", "build", "cache"], "[types]")
            flags = {k: t.get(k, False) for k in ("launch", "build", "cache")}
            want_flags = intent["types"] or {"launch": False, "build": False, "cache": False}
            md = doc.get("metadata", {})
            got = {"types": flags, "metadata": md}
            ok = flags == want_flags and tomlw.same(md, tomlw.to_py(intent["metadata"] or {}))
            shape = (kind, intent["types"] is None, intent["metadata"] is None, frozenset(classes_in(intent["metadata"])))
            rr = rep.get("reread")
            rr_ok = rr is not None and rr["types"] == intent["types"] and \
                ((rr["metadata"] is None) == (intent["metadata"] is None)) and \
                (rr["metadata"] is None or tomlw.same(tomlw.untagged(rr["metadata"]), tomlw.to_py(intent["metadata"])))
        elif kind == "store":
            only_keys(doc, ["metadata"], "store.toml")
            got = doc.get("metadata", {})
            ok = tomlw.same(got, tomlw.to_py(intent))
            shape = (kind, frozenset(classes_in(intent)))
            rr_ok = "reread" in rep and tomlw.same(tomlw.untagged(rep["reread"]["metadata"]), tomlw.to_py(intent))
        elif kind == "package":
            only_keys(doc, ["buildpack", "dependencies", "platform"], "package.toml")
            only_keys(doc.get("buildpack", {}), ["uri"], "[buildpack]")
            got = {"buildpack": doc.get("buildpack", {}).get("uri"), "dependencies": [x.get("uri") for x in doc.get("dependencies", [])],
                   "os": doc.get("platform", {}).get("os", "linux")}
            ok = got == intent
            shape = (kind, len(intent["dependencies"]), intent["os"])
            rr_ok = rep.get("reread") == intent
        else:
            raise AssertionError(kind)
    except Bad as e:
        sh.violation("%s:spec-shape" % kind, "%s written by libcnb does not have the spec's shape: %s\n%s" % (kind, e, raw[:300]), case)
        return
    if not ok:
        sh.violation("%s:content" % kind, "an independent spec reader recovers %r from the written %s, constructed was %r\n%s"
                     % (got, kind, intent, raw[:400].decode(errors="replace")), case)
        return
    if not rr_ok:
        sh.violation("%s:reread" % kind, "libcnb reads back %r (%s), written was %r" % (rep.get("reread"), rep.get("reread_err"), intent), case)
        return
    sh.nontrivial.add(shape)
    sh.sample({"kind": kind, "written": raw[:240].decode(errors="replace")}, cap=1)


def run_execd(base, idx, r, sh):
    pairs = {}
    for _ in range(r.choice([0, 1, 2, 5])):
        pairs[r.choice(EXEC_KEYS)] = r.choice(S)
    out = os.path.join(base, "execd-%d.toml" % idx)
    req = json.dumps({"pairs": [[k, v] for k, v in pairs.items()]})
    p = subprocess.run(["sh", "-c", 'exec "$0" execd "$1" 3>"$2"', os.path.join(vp.BIN, "vpmon"), req, out], stdout=subprocess.PIPE, stderr=subprocess.PIPE, env=dict(os.environ, **vp.hostile_env()))
    sh.evaluations += 1
    sh.count("route_execd")
    case = {"kind": "execd", "pairs": pairs}
    raw = open(out, "rb").read() if os.path.exists(out) else b""
    if os.path.exists(out):
        os.unlink(out)
    if p.returncode != 0:
        sh.violation("execd:failed", "exec.d helper failed: %s" % p.stderr[-300:], case)
        return
    try:
        doc = tomllib.loads(raw.decode())
    except Exception as e:  # noqa: BLE001
        sh.violation("execd:invalid-toml", "exec.d output is not valid TOML: %s\n%s" % (e, raw[:200]), case)
        return
    if doc != pairs:
        sh.violation("execd:content", "exec.d output reads as %r, constructed %r" % (doc, pairs), case)
        return
    sh.nontrivial.add(("execd", len(pairs), frozenset(classes_in(list(pairs.values())))))


def run_layer_api(lmon, base, idx, r, sh):
    """<layer>.toml as written by the layer API itself (two requests with different flags, metadata in between)."""
    root = os.path.join(base, "lapi-%d" % idx)
    os.makedirs(os.path.join(root, "layers"))
    try:
        lmon.call({"op": "init", "layers_dir": os.path.join(root, "layers"), "app_dir": root, "bp_dir": root})
        f1 = {"build": r.random() < 0.5, "launch": r.random() < 0.5}
        f2 = {"build": r.random() < 0.5, "launch": r.random() < 0.5}
        # (every third: the full value space of TOML - date-times, floats incl. non-finite ones, nested arrays of tables)
        md = rnd_plain_table(r) if idx % 3 else tomlw.rnd_table(r, 1)
        L = r.choice(["L", "ruby-3.2", "a.b.c", "it's", "with space", "é"])      # the file is <layers>/<name>.toml whatever the name looks like
        req = lambda fl: dict(op="cached", name=L, mtype="generic", restored={"action": "keep", "cause": "c"}, invalid={"action": "delete", "cause": "i"}, **fl)
        steps = [req(f1), {"op": "write_metadata", "name": L, "metadata": tomlw.tagged(md)}]
        # the content metadata of another layer whose name extends this one's ("<L>.more"): a file of its own
        sibling_doc = '[types]\ncache = true\n\n[metadata]\nowner = "the other layer"\n'
        with open(os.path.join(root, "layers", L + ".more.toml"), "w") as f:
            f.write(sibling_doc)
        os.makedirs(os.path.join(root, "layers", L + ".more"))
        second = r.choice(["cached", "uncached", "none", "older-handle"])
        if second == "cached":
            steps.append(req(f2))
        elif second == "uncached":
            steps.append(dict(op="uncached", name=L, **f2))
        elif second == "older-handle":
            # the layer is declared a second time (other flags), then the metadata is written through the handle of the FIRST declaration:
            # the file holds the flags of the latest declaration and the metadata just written
            steps = [req(f1), req(f2), {"op": "write_metadata", "name": L, "metadata": tomlw.tagged(md), "stale": True}]
        for st in steps:
            rep = lmon.call(st)
            if "err" in rep:
                sh.violation("layer-api:error", "layer request failed: %s" % rep["detail"][:200], {"kind": "layer-api", "steps": steps})
                return
        sh.evaluations += 1
        sh.count("route_layer_api")
        raw = open(os.path.join(root, "layers", L + ".toml"), "rb").read()
        sib = os.path.join(root, "layers", L + ".more.toml")
        if not os.path.exists(sib) or open(sib).read() != sibling_doc:
            sh.violation("layer-api:sibling-toml", "requests for layer %r %s the content metadata file of the layer %r" % (L, "removed" if not os.path.exists(sib) else "rewrote", L + ".more"), {"kind": "layer-api", "steps": steps})
            return
        others = sorted(x for x in os.listdir(os.path.join(root, "layers")) if x not in (L, L + ".toml", L + ".more", L + ".more.toml"))
        if others:
            sh.violation("layer-api:stray-file", "requests for layer %r left other entries in the layers directory: %r" % (L, others), {"kind": "layer-api", "steps": steps})
            return
        case = {"kind": "layer-api", "steps": steps}
        try:
            doc = tomllib.loads(raw.decode())
        except Exception as e:  # noqa: BLE001
            sh.violation("layer-api:invalid-toml", "<layer>.toml written by the layer API is not valid TOML: %s\n%s" % (e, raw[:300]), case)
            return
        want_t = dict(f2 if second != "none" else f1, cache=second != "uncached")
        if second == "older-handle":
            want_t = dict(f2, cache=True)
        want_md = {} if second == "uncached" else tomlw.to_py(md)
        only_keys(doc, ["types", "metadata"], "<layer>.toml")
        t = doc.get("types", {})
        got_t = {k: t.get(k, False) for k in ("build", "launch", "cache")}
        if got_t != want_t or set(t) - set(want_t) or not tomlw.same(doc.get("metadata", {}), want_md):
            sh.violation("layer-api:content", "<layer>.toml reads types %r metadata %r, the requests constructed types %r metadata %r\n%s"
                         % (got_t, doc.get("metadata"), want_t, want_md, raw[:300].decode(errors="replace")), case)
            return
        sh.nontrivial.add(("layer-api", second, tuple(sorted(f1.items())) != tuple(sorted(f2.items())), frozenset(classes_in(md))))
    except Bad as e:
        sh.violation("layer-api:spec-shape", "<layer>.toml does not have the spec's shape: %s" % e, {"kind": "layer-api"})
    finally:
        vp.rmtree(root)


def rnd_plain_table(r):
    """metadata without datetimes/floats (kept simple: it also travels through JSON)"""
    return {k: r.choice([r.choice(S), r.randrange(-5, 5), r.random() < 0.5, [r.choice(S)], {"n": r.choice(S)}]) for k in r.sample(tomlw.RND_KEYS, r.randint(0, 5))}


def run_runtime_store(base, idx, r, sh):
    """store.toml / launch.toml as written by the real runtime at the end of build, also over longer stale files."""
    import phase
    lay = phase.Layout(os.path.join(base, "rt-%d" % idx))
    try:
        lay.create()
        with open(os.path.join(lay.bp, "buildpack.toml"), "w") as f:
            f.write(phase.BP_TOML_OK)
        with open(lay.plan, "w") as f:
            f.write("")
        store = rnd_plain_table(r) if r.random() < 0.6 else {}
        k = r.random()
        if k < 0.45:
            with open(os.path.join(lay.layers, "store.toml"), "w") as f:
                f.write("[metadata]\n" + "".join('old_%d = "%s"\n' % (i, "x" * 30) for i in range(40)))
        elif k < 0.75:
            # the store of the previous build is *almost* what this build returns: equal under ==, different as a document
            # (0.0 vs -0.0). What is on disk afterwards is what was returned.
            store["zero"] = r.choice([0.0, -0.0])
            store["zeros"] = [0.0, -0.0, r.choice([0.0, -0.0])]
            old = dict(store)
            old["zero"] = -store["zero"]
            old["zeros"] = [-x for x in store["zeros"]]
            with open(os.path.join(lay.layers, "store.toml"), "w") as f:
                f.write(tomlw.selfcheck({"metadata": old}))
        script = {"build": {"result": "ok", "launch": None, "store": tomlw.tagged(store), "build_sboms": [], "launch_sboms": []}}
        st, marker, err = lay.run("build", lay.build_args(), lay.env(), script)
        sh.evaluations += 1
        sh.count("route_runtime_store")
        case = {"kind": "runtime-store", "store": store}
        p = os.path.join(lay.layers, "store.toml")
        if st != 0 or not os.path.exists(p):
            sh.violation("runtime-store:missing", "build returned a store (%r) and exited %d, but store.toml %s" % (store, st, "is missing" if st == 0 else "was not written"), case)
            return
        raw = open(p, "rb").read()
        try:
            doc = tomllib.loads(raw.decode())
        except Exception as e:  # noqa: BLE001
            sh.violation("runtime-store:invalid-toml", "store.toml is not valid TOML: %s\n%s" % (e, raw[:200]), case)
            return
        if set(doc) - {"metadata"} or not tomlw.same(doc.get("metadata", {}), tomlw.to_py(store)):
            sh.violation("runtime-store:content", "store.toml reads %r, the build returned %r" % (doc, store), case)
            return
        sh.nontrivial.add(("runtime-store", len(store), frozenset(classes_in(store))))
    finally:
        vp.rmtree(lay.root)


GENS = {"launch": gen_launch, "build_plan": gen_plan, "layer_toml": gen_layer, "store": gen_store, "package": gen_package}


def shard_run(arg):
    seed, idxs, work = arg
    sh = vp.Shard()
    mon = vp.Mon("emit")
    lmon = vp.Mon("layers")
    base = os.path.join(work, "w%d" % os.getpid())
    os.makedirs(base, exist_ok=True)
    kinds = ["launch", "launch", "build_plan", "build_plan", "layer_toml", "store", "package", "execd"]
    try:
        if idxs and idxs[0] == 0:
            for j, (kind, req, intent) in enumerate(quote_run_cases()):
                run_doc(mon, base, 10 ** 9 + j, kind, req, intent, sh)
        for idx in idxs:
            r = vp.rng(seed, "c07", idx)
            kind = kinds[idx % len(kinds)]
            if idx % 16 == 7:
                run_layer_api(lmon, base, idx, r, sh)
                continue
            if idx % 80 == 15:
                run_runtime_store(base, idx, r, sh)
                continue
            if kind == "execd":
                run_execd(base, idx, r, sh)
                continue
            req, intent = GENS[kind](r)
            run_doc(mon, base, idx, kind, req, intent, sh)
    finally:
        mon.close()
        lmon.close()
        vp.rmtree(base)
    return sh.dict()


def run(tier, seed, work):
    res = vp.Result("C07", tier, seed, "exploration")
    n = 16000 if tier == "quick" else 480000
    for d in vp.pmap(shard_run, [(seed, s, work) for s in vp.split(range(n), vp.NCPU)]):
        res.merge(d)
    res.required = ["route_launch", "route_build_plan", "route_layer_toml", "route_store", "route_package", "route_execd", "route_layer_api", "route_runtime_store"]
    res.rule = ("evaluations = documents written by libcnb and read by tomllib + a spec reader. distinct_nontrivial = distinct (document type, optional parts present, "
                "or-group shape, string/value classes used [quote, backslash, control, newline, unicode, astral, empty, long, int, float, bool, datetime]) combinations")
    res.assumptions = ["the spec readers in tools/c07.py encode field names and defaults from the CNB buildpack spec (API 0.10: command is an array)",
                       "NaN compared by kind; key order never compared; URI strings rejected by the public constructors are skipped"]
    return res


def replay(case, work):
    res = vp.Result("C07", "quick", 0, "exploration")
    sh = vp.Shard()
    if case["kind"] in ("layer-api", "runtime-store"):
        sh.inconclusive.append("replay of %s cases re-runs the check at the recorded seed instead (VERIF_SEED=<seed> ./check C07)" % case["kind"])
        sh.evaluations += 1
    elif case["kind"] == "execd":
        class R:  # replays the recorded pairs
            pass
        pairs = case["pairs"]
        out = os.path.join(work, "execd.toml")
        req = json.dumps({"pairs": [[k, v] for k, v in pairs.items()]})
        subprocess.run(["sh", "-c", 'exec "$0" execd "$1" 3>"$2"', os.path.join(vp.BIN, "vpmon"), req, out])
        sh.evaluations += 1
        if tomllib.loads(open(out, "rb").read().decode()) != pairs:
            sh.violation("execd:content", "exec.d output differs", case)
    else:
        # intent is recomputed by re-running the generator is not possible from the request alone; compare against the libcnb-independent reading only
        mon = vp.Mon("emit")
        req = dict(case["request"])
        req["path"] = os.path.join(work, "replay.toml")
        rep = mon.call(req)
        mon.close()
        sh.evaluations += 1
        raw = open(req["path"], "rb").read() if os.path.exists(req["path"]) else b""
        print("written document:\n" + raw.decode(errors="replace"))
        print("executor reply: %r" % (rep,))
        try:
            tomllib.loads(raw.decode())
        except Exception as e:  # noqa: BLE001
            sh.violation("%s:invalid-toml" % case["kind"], "not valid TOML: %s" % e, case)
    sh.nontrivial.update({"replay-a", "replay-b"})
    res.merge(sh.dict())
    res.rule = "replay of one recorded case (prints the written document)"
    res.sample(case)
    return res
