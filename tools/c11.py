"""C11 — deleting / recreating a layer never touches anything outside that layer.
Hostile layer trees (modes, every kind of symlink, symlinked layer dir) are deleted through the six
public routes by an unprivileged uid while fsshim traces every mutating libc call."""
import os

import vp

MUTATING = {"open_w", "mkdir", "unlink", "rmdir", "rename", "chmod", "symlink", "link", "truncate", "write"}
DIR_MODES = [0o755, 0o555, 0o666, 0o000, 0o311, 0o700,
             0o575, 0o655, 0o355, 0o477, 0o077, 0o070]      # owner has fewer rights than group / others
FILE_MODES = [0o644, 0o600, 0o444, 0o000, 0o755]
OPS = ["uncached", "cached-delete", "trait-recreate", "trait-migrate-recreate", "cached-invalid-delete", "trait-recreate-create-fails", "trait-recreate-write-fails-then-uncached"]
LINK_KINDS = ["in-file", "in-dir", "sib-file", "sib-dir", "canary-file", "canary-dir", "abs-canary-file", "abs-canary-dir", "dangling", "self", "mutual", "up", "layers-root",
              "hard-canary-file", "hard-sib-file"]      # hard links: a second name of an inode that lives outside the layer (mode/content changes would show there)
TOP_KINDS = ["dir", "dir", "dir", "link-sibling-dir", "link-canary-dir", "link-canary-file", "link-dangling", "link-abs-canary-dir", "link-canary-empty-dir", "link-sibling-empty-dir"]


def build_tree(r, d, depth, links, stats):
    """populate directory d (exists); record symlinks to create later (targets must exist first)"""
    for i in range(r.randint(0, 4 if depth < 3 else 2)):
        k = r.random()
        name = "%s%d" % (r.choice(["f", "d", "l", "x y", ".h", "é"]), i)
        p = os.path.join(d, name)
        if k < 0.35:
            with open(p, "wb") as f:
                f.write(b"layer-file-%d" % r.randrange(1000))
            stats.append(("chmod", p, r.choice(FILE_MODES)))
        elif k < 0.65 and depth < 4:
            os.mkdir(p)
            build_tree(r, p, depth + 1, links, stats)
            stats.append(("chmod", p, r.choice(DIR_MODES)))
        else:
            links.append((p, r.choice(LINK_KINDS)))


def make_case(r, root, op):
    """-> dict describing the case; creates root/{layers,canary,app,bp}"""
    layers = os.path.join(root, "layers")
    canary = os.path.join(root, "canary")
    for d in (layers, canary, os.path.join(root, "app"), os.path.join(root, "bp")):
        os.makedirs(d)
    chmods = []
    # canary tree (beside <layers>) and a sibling layer, with their own odd modes
    for base, tag in ((canary, b"canary"), (os.path.join(layers, "sib"), b"sibling")):
        os.makedirs(os.path.join(base, "d", "inner"), exist_ok=True)
        os.makedirs(os.path.join(base, "empty"), exist_ok=True)
        for rel, mode in (("precious", 0o600), ("d/file", 0o444), ("d/inner/deep", 0o640), ("ro", 0o400)):
            with open(os.path.join(base, rel), "wb") as f:
                f.write(tag + b":" + rel.encode())
            chmods.append(("chmod", os.path.join(base, rel), mode))
        chmods.append(("chmod", os.path.join(base, "d", "inner"), 0o750))
        chmods.append(("chmod", os.path.join(base, "d"), 0o555 if tag == b"canary" else 0o700))
    with open(os.path.join(layers, "sib.toml"), "w") as f:
        f.write('[types]\ncache = true\n\n[metadata]\nv = "sib"\n')
    with open(os.path.join(layers, "sib.sbom.cdx.json"), "w") as f:
        f.write("{}")
    # dotted names whose stem is the sibling layer's name; names with characters that are special elsewhere (quote, tab, trailing space)
    name = r.choice(["victim", "victim", "sib.x", "sib.2", "v.i.c", "vic'tim", "vic\ttim", "victim ", 'v"q'])
    # siblings whose names extend the victim's name (ruby / ruby-gems): their toml, SBOM files and content are not the victim's
    for suffix in r.sample(["-gems", "_cache", "2", ".more"], r.randint(0, 2)):
        sib2 = os.path.join(layers, name + suffix)
        os.makedirs(os.path.join(sib2, "keep"))
        with open(os.path.join(sib2, "keep", "f"), "wb") as f:
            f.write(b"prefix-sibling")
        with open(sib2 + ".toml", "w") as f:
            f.write('[types]\ncache = true\n')
        for fmt in r.sample(["cdx", "spdx", "syft"], r.randint(1, 3)):
            with open(sib2 + ".sbom.%s.json" % fmt, "w") as f:
                f.write('{"of":"prefix sibling"}')
    top = r.choice(TOP_KINDS)
    ldir = os.path.join(layers, name)
    links = []
    if top == "dir":
        os.mkdir(ldir)
        build_tree(r, ldir, 1, links, chmods)
        if r.random() < 0.02:
            # big: a chain of 60 nested directories and a directory with several hundred entries
            deep = ldir
            for i in range(r.choice([60, 90, 130])):
                deep = os.path.join(deep, "n%d" % i)
                os.mkdir(deep)
            links.append((os.path.join(deep, "l-out"), r.choice(["canary-dir", "sib-dir", "hard-canary-file"])))
            wide = os.path.join(ldir, "wide")
            os.mkdir(wide)
            for i in range(r.randint(300, 700)):
                with open(os.path.join(wide, "w%d" % i), "wb") as f:
                    f.write(b"w")
            links.append((os.path.join(wide, "l-out"), "canary-dir"))
            chmods.append(("chmod", wide, r.choice(DIR_MODES)))
        if r.random() < 0.3:
            # the directories libcnb itself reads before it decides anything - env files that are links of every kind, an env directory that
            # is itself a link out of the layer. A layer that cannot be read is an error (nothing touched), never "no layer there"
            planned = set()
            for en in r.sample(["env", "env.build", "env.launch", "env.launch/web", "exec.d"], r.randint(1, 3)):
                ep = os.path.join(ldir, en)
                if os.path.lexists(ep) or en.split("/")[0] in planned:
                    continue
                planned.add(en.split("/")[0])
                if r.random() < 0.2 and "/" not in en:
                    links.append((ep, r.choice(["canary-dir", "sib-dir", "abs-canary-dir", "dangling"])))
                    continue
                os.makedirs(ep, exist_ok=True)
                with open(os.path.join(ep, "KEEP.override"), "wb") as f:
                    f.write(b"v")
                for j in range(r.randint(0, 2)):
                    links.append((os.path.join(ep, "L%d.default" % j), r.choice(["dangling", "canary-file", "abs-canary-file", "self", "sib-file", "hard-canary-file"])))
        chmods.append(("chmod", ldir, r.choice([0o755, 0o555, 0o700, 0o311])))
    else:
        tgt = {"link-sibling-dir": "sib/d", "link-canary-dir": "../canary/d", "link-canary-file": "../canary/precious", "link-dangling": "nowhere",
               "link-abs-canary-dir": os.path.join(canary, "d"), "link-canary-empty-dir": "../canary/empty", "link-sibling-empty-dir": "sib/empty"}[top]
        os.symlink(tgt, ldir)
    kinds = set()
    for p, kind in links:
        if kind.startswith("hard-"):
            os.link(os.path.join(canary, "ro") if kind == "hard-canary-file" else os.path.join(layers, "sib", "d", "file"), p)
            kinds.add(kind)
            continue
        rel_up = os.path.relpath(root, os.path.dirname(p))
        tgt = {"in-file": "f0", "in-dir": ".", "sib-file": os.path.join(rel_up, "layers/sib/precious"), "sib-dir": os.path.join(rel_up, "layers/sib/d"),
               "canary-file": os.path.join(rel_up, "canary/precious"), "canary-dir": os.path.join(rel_up, "canary/d"),
               "abs-canary-file": os.path.join(canary, "ro"), "abs-canary-dir": os.path.join(canary, "d", "inner"), "dangling": "no/such/target",
               "self": os.path.basename(p), "mutual": os.path.basename(p) + ".peer", "up": "..", "layers-root": os.path.join(rel_up, "layers")}[kind]
        os.symlink(tgt, p)
        if kind == "mutual":
            os.symlink(os.path.basename(p), p + ".peer")
        kinds.add(kind)
    # the layer's own metadata file for the routes that need a readable layer
    md = {"uncached": 'v = "1"', "cached-delete": 'v = "1"', "trait-recreate": 'v = "1"', "trait-migrate-recreate": 'other = "x"', "cached-invalid-delete": 'other = "x"', "trait-recreate-create-fails": 'v = "1"', "trait-recreate-write-fails-then-uncached": 'v = "1"'}[op]
    shape = r.random()
    if op == "trait-migrate-recreate" and shape < 0.5:
        # metadata of another type can also be NO metadata: a toml without [metadata] table, or (restored that way) no toml at all
        if shape < 0.3:
            with open(os.path.join(layers, name + ".toml"), "w") as f:
                f.write("[types]\ncache = true\nlaunch = true\n")
    elif shape < 0.9 or op not in ("uncached", "cached-delete"):
        with open(os.path.join(layers, name + ".toml"), "w") as f:
            f.write("[types]\ncache = true\nlaunch = true\n\n[metadata]\n%s\n" % md)
    if r.random() < 0.5:
        with open(os.path.join(layers, name + ".sbom.syft.json"), "w") as f:
            f.write("{}")
    hostile = set()
    for _, p, mode in chmods:
        os.chmod(p, mode)
        if p.startswith(ldir) and mode not in (0o755, 0o700, 0o644, 0o600):
            hostile.add(mode)
    layers_mode = r.choice([0o755, 0o755, 0o755, 0o555, 0o500])       # a <layers> dir without write bit: deleting must fail, not "repair" it
    os.chmod(layers, layers_mode)
    vp.chown_tree(root)
    return {"name": name, "top": top, "layers_mode": layers_mode, "link_kinds": sorted(kinds), "hostile_modes": sorted(hostile), "layers": layers, "ldir": ldir}


def request_for(op, name):
    if op == "uncached":
        return {"op": "uncached", "name": name, "build": True, "launch": False}
    if op == "cached-delete":
        return {"op": "cached", "name": name, "build": True, "launch": True, "mtype": "generic", "restored": {"action": "delete", "cause": "c"}, "invalid": {"action": "delete", "cause": "i"}}
    if op == "cached-invalid-delete":
        # the restored metadata is not of the buildpack's type, and the buildpack answers "delete the layer"
        return {"op": "cached", "name": name, "build": True, "launch": True, "mtype": "typed", "restored": {"action": "keep", "cause": "c"}, "invalid": {"action": "delete", "cause": "i"}}
    # the re-created layer gets content: anything written through a surviving link would land outside
    res = {"metadata_value": "new", "env": [["all", "override", "544f4f4c", "31"]], "exec_d": [], "sboms": [], "write_files": [["bin/tool", "2321"]], "delete_files": []}
    if op == "trait-recreate-create-fails":
        # the old layer is deleted, then the buildpack's create() fails: what was deleted stays deleted
        return {"op": "handle", "name": name, "impl": "v1", "types": {"launch": True, "build": False, "cache": True}, "strategy": "recreate",
                "migrate": {"action": "recreate", "metadata_value": "m"}, "create": {"err": "boom-create"}, "update": res}
    if op == "trait-recreate-write-fails-then-uncached":
        # the old layer is deleted, create() succeeds, writing its result fails half-way (SBOMs are written, then an exec.d program whose source
        # does not exist); the error is handled and the buildpack asks for the layer anew (see run_case): nothing of either incarnation remains
        bad = dict(res, sboms=[["syft", "7b2273223a317d"], ["cdx", "7b2263223a327d"]], exec_d=[["z-missing", "/nonexistent-vp/prog"]])
        return {"op": "handle", "name": name, "impl": "v1", "types": {"launch": True, "build": False, "cache": True}, "strategy": "recreate",
                "migrate": {"action": "recreate", "metadata_value": "m"}, "create": bad, "update": bad}
    if op == "trait-recreate":
        return {"op": "handle", "name": name, "impl": "v1", "types": {"launch": True, "build": False, "cache": True}, "strategy": "recreate",
                "migrate": {"action": "recreate", "metadata_value": "m"}, "create": res, "update": res}
    return {"op": "handle", "name": name, "impl": "v1", "types": {"launch": True, "build": False, "cache": True}, "strategy": "keep",
            "migrate": {"action": "recreate", "metadata_value": "m"}, "create": res, "update": res}


def run_case(base, idx, seed, op, shim, sh):
    r = vp.rng(seed, "c11", idx)
    root = os.path.join(base, "c%d" % idx)
    os.makedirs(root)
    os.chmod(root, 0o755)
    case = {"idx": idx, "op": op}
    try:
        info = make_case(r, root, op)
        case.update({"top": info["top"], "link_kinds": info["link_kinds"], "hostile_modes": ["%o" % m for m in info["hostile_modes"]]})
        name, layers, ldir = info["name"], info["layers"], info["ldir"]
        own = (name.encode(), name.encode() + b".toml", name.encode() + b".sbom.cdx.json", name.encode() + b".sbom.spdx.json", name.encode() + b".sbom.syft.json")

        def skip(rel):
            parts = rel.split(b"/")
            return (len(parts) >= 2 and parts[0] == b"layers" and parts[1] in own) or rel in (b"trace.log",)
        pre = vp.snapshot(root, skip)
        log = os.path.join(root, "trace.log")
        open(log, "w").close()
        os.chown(log, 65534, 65534)
        env = {"LD_PRELOAD": shim, "VP_SHIM_PREFIX": root, "VP_SHIM_MODE": "trace", "VP_SHIM_LOG": log}
        # where the process stands: anywhere (0-2), in <root> with the layers directory spelled relative to it (3), or in a directory that
        # has been removed since (4: its working directory cannot be determined any more - nothing here needs it)
        stance = idx % 5
        gone = os.path.join(root, "app", "removed-cwd")
        if stance == 4:
            os.makedirs(gone)
            os.chown(gone, 65534, 65534)
        case["cwd"] = ["elsewhere", "elsewhere", "elsewhere", "root, relative layers dir", "a removed directory"][stance]
        mon = vp.Mon("layers", env=env, prefix=vp.NOBODY, cwd=gone if stance == 4 else None)
        try:
            if stance == 4:
                os.rmdir(gone)
            mon.call({"op": "init", "layers_dir": "layers" if stance == 3 else layers, "app_dir": os.path.join(root, "app"), "bp_dir": os.path.join(root, "bp"), **({"chdir": root} if stance == 3 else {})})
            rep = mon.call(request_for(op, name))
            if op == "trait-recreate-write-fails-then-uncached":
                if "MissingExecDFile" in rep.get("detail", "") or "z-missing" in rep.get("detail", "") or "nonexistent-vp" in rep.get("detail", ""):
                    sh.count("results_that_failed_to_be_written_then_layer_requested_anew")
                rep = mon.call(request_for("uncached", name))
        except vp.ExecutorDied as e:
            sh.evaluations += 1
            sh.violation("process-died", "%s on a layer whose path is %s, containing links %r: the process died (status %s) inside the call" % (op, info["top"], info["link_kinds"], e.status), case)
            return
        finally:
            mon.close()
        post = vp.snapshot(root, skip)
        sh.evaluations += 1
        what = "%s on a layer whose path is %s, containing links %r and modes %r" % (op, info["top"], info["link_kinds"], case["hostile_modes"])
        if post != pre:
            sh.violation("outside-changed:%s" % ("top" if info["top"] != "dir" else "inner"), "%s changed something outside the layer: %s (result: %s)"
                         % (what, vp.snap_diff(pre, post), "Ok" if "err" not in rep else rep["detail"][:150]), case)
            return
        trace = vp.read_trace(log)
        L = ldir.encode()
        allowed_files = {L + b".toml", L + b".sbom.cdx.json", L + b".sbom.spdx.json", L + b".sbom.syft.json"}
        nmut = 0
        for t in trace:
            if t["class"] not in MUTATING:
                continue
            nmut += 1
            targets = t["phys"].split(b" -> ") if t["class"] == "rename" else [t["phys"]]
            for ph in targets:
                if ph.endswith(b" (deleted)"):
                    ph = ph[:-10]
                inside = ph == L or ph.startswith(L + b"/") or ph in allowed_files
                if not inside and t["result"] >= 0:
                    sh.violation("effect-outside:%s" % t["class"], "%s issued %s(%r) whose physical target %r lies outside the layer (and succeeded)" % (what, t["call"], t["raw"], ph), case)
                    return
                if not inside:
                    sh.count("failed_attempts_outside")
        sh.count("mutating_calls_traced", nmut)
        if "err" not in rep:
            stale = [fn for fn in os.listdir(layers) if fn.startswith(name + ".sbom.")]
            if stale:
                sh.violation("old-sboms-remain", "%s returned Ok but the layer's SBOM files %r from before are still there" % (what, stale), case)
                return
            if os.path.islink(os.path.join(layers, name + ".toml")):
                sh.violation("toml-link-remains", "%s returned Ok but %s.toml is still the old symlink" % (what, name), case)
                return
            v = vp.snapshot(ldir)
            leftovers = [k for k in v if not (k.split(b"/")[0] in (b"env", b"env.build", b"env.launch", b"bin"))]
            if leftovers or not os.path.isdir(ldir) or os.path.islink(ldir):
                sh.violation("old-entries-remain", "%s returned Ok but the layer still holds %r (is link: %s)" % (what, leftovers[:5], os.path.islink(ldir)), case)
                return
            sh.count("ok_results")
        elif op == "trait-recreate-create-fails" and "boom-create" in rep.get("detail", ""):
            # create() ran - on the directory the delete step left - and failed: the old layer's entries are gone all the same
            sh.count("create_failed_after_delete")
            old = [fn for fn in os.listdir(layers) if fn.startswith(name + ".sbom.") or fn == name + ".toml"]
            inside = sorted(os.listdir(ldir)) if os.path.isdir(ldir) and not os.path.islink(ldir) else ([] if not os.path.lexists(ldir) else ["<the old symlink>"])
            if old or inside:
                sh.violation("old-entries-remain-after-failed-create", "%s: the layer was deleted and create() then failed, but the old layer's %r and content %r are still there" % (what, old, inside[:5]), case)
                return
        else:
            sh.count("err_results")
            sh.add("error_kinds", rep["detail"][:90] + " | top=" + info["top"])
            if "ReadLayer" in rep["detail"] and op.startswith("trait-"):
                # the trait API reads the existing layer (its env directories included) before it decides: a layer it cannot read is reported,
                # and nothing has been touched (checked above)
                sh.count("unreadable_layers_reported")
            elif info["layers_mode"] & 0o200 and info["top"] != "link-dangling":
                # everything under <layers> belongs to the caller and <layers> is writable: "whatever its contents" the layer can be
                # deleted (the owner can always re-grant himself the rights); an error here leaves the old layer in place
                sh.violation("delete-failed:%s" % info["top"].split("-")[0], "%s failed although the caller owns the whole tree and <layers> is writable: %s; modes in the layer: %r"
                             % (what, rep["detail"][:200], info["hostile_modes"]), case)
                return
        if nmut == 0 and "err" in rep and "ReadLayer" in rep.get("detail", ""):
            pass        # reported before anything was touched
        elif nmut == 0:
            sh.inconclusive.append("case %d: the effect tracer saw no mutating call (shim not loaded?)" % idx)
            return
        sh.nontrivial.add((info["top"], tuple(info["link_kinds"]), tuple(info["hostile_modes"]), op, info["layers_mode"]))
        if info["link_kinds"] and info["hostile_modes"]:
            sh.sample({"op": op, "layer_path_kind": info["top"], "links": info["link_kinds"], "hostile_modes": case["hostile_modes"], "mutating_calls_traced": nmut,
                       "result": "Ok" if "err" not in rep else "Err"}, cap=1)
    finally:
        vp.rmtree(root)


def shard_run(arg):
    seed, items, work, shim = arg
    sh = vp.Shard()
    base = os.path.join(work, "w%d" % os.getpid())
    os.makedirs(base, exist_ok=True)
    os.chmod(base, 0o755)
    try:
        for idx, op in items:
            run_case(base, idx, seed, op, shim, sh)
    finally:
        vp.rmtree(base)
    return sh.dict()


def run(tier, seed, work):
    res = vp.Result("C11", tier, seed, "exploration")
    res.after_error_routes = ['results_that_failed_to_be_written_then_layer_requested_anew']      # routes added in round 12 (a handled failure followed by ordinary work): must have observed something
    shim = vp.build_shim()
    os.chmod(work, 0o755)
    if not vp.nobody_works():
        res.inconclusive.append("cannot drop privileges with setpriv: permission semantics cannot be exercised")
        res.evaluations = 0
        return res
    ntrees = 2400 if tier == "quick" else 40000
    ops = OPS
    items = []
    for i in range(ntrees):
        chosen = ops if tier == "thorough" else [ops[i % len(ops)], ops[(i + 1 + i // len(ops)) % len(ops)]]
        for j, op in enumerate(chosen):
            items.append((i * 8 + j, op))
    for d in vp.pmap(shard_run, [(seed, s, work, shim) for s in vp.split(items, vp.NCPU)]):
        res.merge(d)
    res.rule = ("evaluations = delete/recreate operations on generated hostile layer trees, run as uid 65534 under the libc effect tracer. distinct_nontrivial = distinct "
                "(kind of the layer path [dir or one of 5 symlink kinds], set of inner symlink kinds, set of hostile modes present, operation) tuples")
    res.required = list(getattr(res, "required", [])) + res.after_error_routes
    res.assumptions = ["fsshim sees libc calls, not raw syscalls (Rust std goes through libc for all of these)", "<name>.toml being a symlink is not generated (not in the quantifier)",
                       "an Err result is accepted as long as nothing outside changed and no mutating call took effect outside"]
    return res


def replay(case, work):
    res = vp.Result("C11", "quick", 0, "exploration")
    seed = int(os.environ.get("VERIF_SEED", "0"))
    os.chmod(work, 0o755)
    sh = vp.Shard()
    run_case(work, case["idx"], seed, case["op"], vp.build_shim(), sh)
    sh.nontrivial.update({"replay-a", "replay-b"})
    res.merge(sh.dict())
    res.rule = "replay of one recorded case (tree regenerated from VERIF_SEED and its index)"
    res.sample(case)
    return res
