"""C02 — trait-based layer handling (handle_layer): which callbacks run, what ends up on disk,
and that the returned LayerData equals the disk."""
import itertools
import os

import envmodel
import layersim
import tomlw
import vp
from vp import hx
from c01 import ENV_POOL, SBOM_FORMATS, check_others
from c04 import enc_entries, dec_env

# layer names: plain, dotted (stem = another layer), and legal names with characters that are special somewhere else (quotes,
# backslash, tab, leading / trailing space - "deps " and "deps" are two layers -, non-ASCII). A history uses three of them.
NAMES = ["a", "a.b", "a.sbom.x", "c-1", "deps", "deps ", " lead", "it's", 'q"x', "tab\tname", "é", "back\\slash", "a b"]      # "a.sbom.x" is a layer of its own, not an SBOM file of "a"
UMASK = 0o022       # umask of the executor process of this shard (set by shard_run)
SYMS = ["K1", "U1", "R1", "E1", "K2", "U2", "M2e", "D", "Rst", "Kb", "Ce"]
MKEY = {"v1": "v", "v2": "version", "defaults": "v"}
ENVROOTS = (b"env", b"env.build", b"env.launch")
PROBE_SCOPES = ["all", "build", "launch", "process:web", "process:worker", "process:nope", "process:web.1", "process:web.2"]
PROBE_STARTS = [{}, {b"A": b"s", b"B": b"s", b"PATH": b"s", b"LD_LIBRARY_PATH": b"s"}]


def gen_result(r, fail=None):
    if fail:
        return {"err": fail}
    spec = {"metadata_value": "m%d" % r.randrange(1000)}
    k = r.random()
    if k < 0.75:
        spec["env"] = r.sample(ENV_POOL, r.randint(0, len(ENV_POOL)))
    else:
        spec["env"] = None
    spec["exec_d"] = [[p, r.choice([p, p, "p1b" if p == "p1" else "p2l" if p == "p2" else p])] for p in r.sample(["p1", "p2", "p3"], r.choice([0, 0, 1, 2, 3]))]      # "p1b": size and mode of p1, other content
    spec["sboms"] = [[f, hx(b'{"s":"%s-%d"}' % (f.encode(), r.randrange(1000))) if r.random() < 0.85 else ""] for f in r.sample(SBOM_FORMATS, r.choice([0, 0, 1, 2, 3]))]      # (zero-byte documents too)
    spec["write_files"] = [[r.choice(["data.txt", "bin/tool", "lib/x.so", "deep/er/f", "include/h.h"]), hx(b"c-%d" % r.randrange(1000))] for _ in range(r.randint(0, 3))]
    spec["delete_files"] = r.sample(["data.txt", "bin/tool", "deep/er/f"], r.choice([0, 0, 1]))
    # links inside the layer: dangling, to a file, to a directory
    spec["symlinks"] = [[n, t] for n, t in r.sample([("current", "releases/nowhere"), ("latest", "data.txt"), ("cur-dir", "bin"), ("loop", "loop")], r.choice([0, 0, 1, 2]))]
    if r.random() < 0.12:
        # (only update() has a LayerData to take it from) return the env that was handed in, possibly after clearing the env dirs by hand
        spec["env_same_as_data"] = True
        spec["wipe_env_dirs"] = r.random() < 0.7
    return spec


def concrete(sym, r, name=None):
    if sym == "Rst":
        return {"op": "restore"}
    name = name or ("a.b" if sym == "Kb" else "a")
    types = {"launch": r.random() < 0.5, "build": r.random() < 0.5, "cache": r.random() < 0.7}
    impl = {"K1": "v1", "U1": "v1", "R1": "v1", "E1": "v1", "K2": "v2", "U2": "v2", "M2e": "v2", "D": "defaults", "Kb": "v1", "Ce": "v1"}[sym]
    strategy = {"K1": "keep", "U1": "update", "R1": "recreate", "E1": "boom-strategy", "K2": "keep", "U2": "update", "M2e": "keep", "D": "recreate", "Kb": "keep", "Ce": "recreate"}[sym]
    migrate = {"action": {"K2": "replace", "U2": "recreate", "M2e": "boom-migrate"}.get(sym, r.choice(["recreate", "replace"])), "metadata_value": "mig%d" % r.randrange(100)}
    step = {"op": "handle", "name": name, "impl": impl, "types": types, "strategy": strategy, "migrate": migrate,
            "create": gen_result(r, "boom-create" if sym == "Ce" else None), "update": gen_result(r, "boom-update" if r.random() < 0.08 else None)}
    if r.random() < 0.3:
        # a layer whose types depend on what its callbacks find out (cache only what was verified, ...): until the first of
        # create / update / existing_layer_strategy has run, types() answers something else. What counts is the answer afterwards.
        step["types_before"] = {"launch": not types["launch"], "build": r.random() < 0.5, "cache": not types["cache"]}
    return step


def enc_step(step, src):
    s = dict(step)
    for k in ("create", "update"):
        spec = dict(s[k])
        if spec.get("env") is not None:
            spec["env"] = enc_entries(spec["env"])
        if "exec_d" in spec:
            spec["exec_d"] = [[p, os.path.join(src, f)] for p, f in spec["exec_d"]]
        s[k] = spec
    return s


def jsonable(steps):
    out = []
    for s in steps:
        s = dict(s)
        for k in ("create", "update"):
            if k in s and s[k].get("env") is not None:
                spec = dict(s[k])
                spec["env"] = [[a, b, c.decode("latin-1"), d.decode("latin-1")] for a, b, c, d in spec["env"]]
                s[k] = spec
        out.append(s)
    return out


def unjson(steps):
    out = []
    for s in steps:
        s = dict(s)
        for k in ("create", "update"):
            if k in s and s[k].get("env") is not None:
                spec = dict(s[k])
                spec["env"] = [(a, b, c.encode("latin-1"), d.encode("latin-1")) for a, b, c, d in spec["env"]]
                s[k] = spec
        out.append(s)
    return out


def parses_as(md, impl):
    return isinstance(md, dict) and isinstance(md.get(MKEY[impl]), str)


def predict(v0, step):
    """-> list of expected callback kinds, final action in {'create','update','keep','error'}, migrated metadata or None, recreated(bool)"""
    impl = step["impl"]
    cbs = []
    if not v0["dir_present"]:
        cbs.append("create")
        return cbs, ("error" if "err" in step["create"] else "create"), None, False
    md = None
    if v0["toml"] is not None:
        _, md = layersim.parse_toml(v0["toml"])
    migrated = None
    if not parses_as(md, impl):
        cbs.append("migrate")
        act = step["migrate"]["action"] if impl != "defaults" else "recreate"
        if act == "recreate":
            cbs.append("create")
            return cbs, ("error" if "err" in step["create"] else "create"), None, True
        if act != "replace":
            return cbs, "error", None, False
        migrated = {MKEY[impl]: step["migrate"]["metadata_value"]}
    cbs.append("strategy")
    strat = step["strategy"] if impl != "defaults" else "recreate"
    if strat == "keep":
        return cbs, "keep", migrated, False
    if strat == "update":
        cbs.append("update")
        return cbs, ("error" if "err" in step["update"] else "update"), migrated, False
    if strat == "recreate":
        cbs.append("create")
        return cbs, ("error" if "err" in step["create"] else "create"), migrated, True
    return cbs, "error", migrated, False


def expected_probe(layer_dir, spelled=None):
    entries, unspec = envmodel.read_layer_dir(layer_dir.encode())
    out = []
    for scope in PROBE_SCOPES:
        for start in PROBE_STARTS:
            out.append(envmodel.apply(entries, scope, start, layer_dir=layer_dir.encode(), spelled=None if spelled is None else spelled.encode()))
    return out


def probe_equal(got, want):
    return [dec_env(g) for g in got] == want


def non_env_files(d):
    return {k: e for k, e in d.items() if k.split(b"/")[0] not in ENVROOTS and not k.startswith(b"exec.d")}


def judge(step, rep, pre, post, names, layers, src, sh, case):
    nm = step["name"]
    v0, v1 = layersim.view(pre, nm), layersim.view(post, nm)
    what = "handle_layer(%s, %s)" % (nm, step["impl"])
    if not check_others(pre, post, names, nm, sh, case, what):
        return None
    want_cbs, action, migrated, recreated = predict(v0, step)
    if step["impl"] == "defaults":
        want_cbs = [c for c in want_cbs if c == "create"]      # the trait's default methods are not observable
    got_cbs = [c["cb"] for c in rep.get("callbacks", [])]
    if got_cbs != want_cbs:
        sh.violation("callbacks:%s" % "-".join(want_cbs), "%s: callbacks ran %r, expected %r (strategy %s, migration %s)"
                     % (what, got_cbs, want_cbs, step["strategy"], step["migrate"]["action"]), case)
        return None
    for c in rep.get("callbacks", []):
        if c["cb"] == "create" and c["listing"]:
            sh.violation("create-on-nonempty", "%s: create() was handed a non-empty directory: %r" % (what, c["listing"]), case)
            return None
        if c["cb"] in ("strategy", "update"):
            d = c["data"]
            key = MKEY[step["impl"]]
            md0 = migrated
            if md0 is None and v0["toml"] is not None:
                md0 = layersim.parse_toml(v0["toml"])[1]
            if d["metadata"] is None or tomlw.untagged(d["metadata"]).get(key) != (md0 or {}).get(key):
                sh.violation("callback-data:metadata", "%s: %s() saw metadata %r, disk has %r" % (what, c["cb"], d["metadata"], md0), case)
                return None
            # ... and the [types] table as the file has it (a restored layer has none: the lifecycle strips it) - not what the layer is about to declare
            t0 = layersim.parse_toml(v0["toml"])[0] if v0["toml"] is not None else None
            t0 = None if t0 is None else {k: bool(t0.get(k, False)) for k in ("launch", "build", "cache")}
            if d.get("types") != t0:
                sh.violation("callback-data:types", "%s: %s() saw types %r, the file had %r" % (what, c["cb"], d.get("types"), t0), case)
                return None
    if "err" in rep:
        if action != "error":
            sh.violation("unexpected-error", "%s failed: %s (expected action %s)" % (what, rep["detail"][:300], action), case)
            return None
        if rep["err"] != "BuildpackError":
            sh.violation("error-variant", "%s: callback error surfaced as %s" % (what, rep["detail"][:200]), case)
            return None
        cbs_ran = [c["cb"] for c in rep.get("callbacks", [])]
        if cbs_ran[:1] == ["migrate"] and len(cbs_ran) >= 2 and step["migrate"]["action"] == "replace" and isinstance(v0["toml"], bytes):
            # the migration the callback asked for was carried out (the next callback has run on its result); that a LATER callback failed
            # does not bring the unparsable metadata back - the file holds the migrated metadata, or is gone with a deleted layer
            sh.count("failures_after_a_completed_migration")
            if v1["toml"] == v0["toml"]:
                sh.violation("migration-undone", "%s: callbacks %r - the migration to new metadata was done, a later callback failed (%s), and %s.toml holds the metadata from before the "
                             "migration again: %r" % (what, cbs_ran, rep["detail"][:100], step["name"], v0["toml"][:120]), case)
                return None
        return "error"
    if action == "error":
        sh.violation("error-swallowed", "%s succeeded although a callback failed" % what, case)
        return None
    # ---- disk post-conditions
    if not v1["dir_present"] or v1["toml"] is None:
        sh.violation("layer-missing", "%s succeeded but dir/toml is missing" % what, case)
        return None
    types, md = layersim.parse_toml(v1["toml"])
    want_types = step["types"]
    if types is None or {k: types.get(k, False) for k in want_types} != want_types:
        sh.violation("types", "%s (%s): types on disk %r, types() returned %r" % (what, action, types, want_types), case)
        return None
    key = MKEY[step["impl"]]
    if action == "keep":
        md_before = migrated if migrated is not None else layersim.parse_toml(v0["toml"])[1]
        if (md or {}) != (md_before or {}):
            sh.violation("keep:metadata", "%s kept the layer but metadata changed %r -> %r" % (what, md_before, md), case)
            return None
        if v1["dir"] != v0["dir"]:
            sh.violation("keep:files", "%s kept the layer but its directory changed: %s" % (what, vp.snap_diff(v0["dir"], v1["dir"])), case)
            return None
        if v1["sboms"] != v0["sboms"]:
            sh.violation("keep:sboms", "%s kept the layer but SBOM files changed %r -> %r" % (what, sorted(v0["sboms"]), sorted(v1["sboms"])), case)
            return None
        want_md_value = (md_before or {}).get(key)
    else:
        spec = step[action]
        want_md_value = spec["metadata_value"]
        if md != {key: want_md_value}:
            sh.violation("%s:metadata" % action, "%s: metadata on disk %r, %s() returned %r" % (what, md, action, {key: want_md_value}), case)
            return None
        want_env = envmodel.expected_tree([tuple(e) for e in (spec.get("env") or [])])
        if action == "update" and spec.get("env_same_as_data"):
            # update() handed back the env it was given (LayerData.env): on disk afterwards is that env - whatever the callback did
            # to the env directories in the meantime
            want_env = {k: e[2] for k, e in v0["dir"].items() if k.split(b"/")[0] in ENVROOTS and e[0] == "f"}
        got_env = {k: e[2] for k, e in v1["dir"].items() if k.split(b"/")[0] in ENVROOTS and e[0] == "f"}
        if got_env != want_env:
            sh.violation("%s:env" % action, "%s: env files on disk %r, %s() returned %r" % (what, sorted(got_env), action, sorted(want_env)), case)
            return None
        # (an installed program has the source's content and permission bits, whatever the process umask)
        want_x = {b"exec.d/" + p.encode(): (os.stat(os.path.join(src, f)).st_mode & 0o7777, open(os.path.join(src, f), "rb").read()) for p, f in spec["exec_d"]}
        got_x = {k: (e[1], e[2]) for k, e in v1["dir"].items() if k.startswith(b"exec.d/") and e[0] == "f"}
        if got_x != want_x:
            sh.violation("%s:execd" % action, "%s: exec.d on disk %r, %s() returned %r (name: mode)" % (what, sorted((k, oct(v[0])) for k, v in got_x.items()), action, sorted((k, oct(v[0])) for k, v in want_x.items())), case)
            return None
        shared = vp.shared_inodes(os.path.join(layers, step["name"], "exec.d"))
        if shared:
            sh.violation("%s:execd:shares-inode" % action, "%s: the installed programs %r are hard links (a later change of the source file would change the layer)" % (what, shared), case)
            return None
        want_s = {f: bytes.fromhex(h) for f, h in spec["sboms"]}
        if v1["sboms"] != want_s:
            sh.violation("%s:sboms" % action, "%s: SBOM files on disk %r, %s() returned %r" % (what, sorted(v1["sboms"]), action, sorted(want_s)), case)
            return None
        base = {} if (action == "create") else dict(non_env_files(v0["dir"]))
        for rel, h in spec["write_files"]:
            parts = rel.split("/")
            for i in range(1, len(parts)):
                base.setdefault("/".join(parts[:i]).encode(), ("d", 0o777 & ~UMASK))
            base[rel.encode()] = ("f", 0o666 & ~UMASK, bytes.fromhex(h))      # written by the scripted callback itself, under the executor's umask
        for n, t in spec.get("symlinks", []):
            base[n.encode()] = ("l", t.encode())
        for rel in spec["delete_files"]:
            base.pop(rel.encode(), None)
        if non_env_files(v1["dir"]) != base:
            sh.violation("%s:files" % action, "%s: files differ from what %s() left: %s" % (what, action, vp.snap_diff(base, non_env_files(v1["dir"]))), case)
            return None
    # ---- returned LayerData equals the disk
    d = rep["data"]
    ldir = os.path.join(layers, nm)
    # (the layers directory as the code under test was given it: possibly relative to ITS working directory)
    spelled = None if not case.get("_layers_spelled") else os.path.join(case["_layers_spelled"], nm)
    if d["name"] != nm or d["path"] != (spelled or ldir):
        sh.violation("data:identity", "%s returned name/path %r / %r" % (what, d["name"], d["path"]), case)
        return None
    if d["types"] != want_types:
        sh.violation("data:types", "%s returned types %r, disk has %r" % (what, d["types"], want_types), case)
        return None
    if d["metadata"] is None or tomlw.untagged(d["metadata"]) != {key: want_md_value}:
        sh.violation("data:metadata", "%s returned metadata %r, disk has %r" % (what, d["metadata"], md), case)
        return None
    if not probe_equal(d["env_probe"], expected_probe(ldir, spelled)):
        sh.violation("data:env", "%s: the returned LayerData.env does not behave like the env on disk (%r)"
                     % (what, sorted(k for k in v1["dir"] if k.split(b"/")[0] in ENVROOTS)), case)
        return None
    return action


def abstract_state(v, impl):
    if not v["dir_present"] and v["toml"] is None:
        return ("absent",)
    if not v["dir_present"]:
        return ("toml-only",)
    types, md = (None, None)
    if v["toml"] is not None:
        types, md = layersim.parse_toml(v["toml"])
    return ("dir", "types" if types is not None else "restored", "parsable" if parses_as(md, impl) else ("no-metadata" if not md else "other-type"),
            any(k.startswith(b"env.launch/") and k.count(b"/") == 2 for k in v["dir"]), bool(v["sboms"]), any(k.startswith(b"exec.d") for k in v["dir"]))


def result_shape(step, action):
    if action not in ("create", "update"):
        return ()
    spec = step[action]
    return (bool(spec.get("env")) and any(e[0].startswith("process:") for e in spec["env"]), spec.get("env") is None, bool(spec["exec_d"]), bool(spec["sboms"]))


def run_history(mon, base, hid, steps, names, sh, snapshots_out=None, src_mtime=None):
    root = os.path.join(base, "h%s" % hid)
    layers = os.path.join(root, "layers")
    src = os.path.join(root, "src")
    for d in (layers, os.path.join(root, "app"), os.path.join(root, "bp"), src):
        os.makedirs(d)
    # the layers directory as the platform names it: plainly, through a symbolic link, or with '.' / '..' segments
    style = sum(map(ord, str(hid))) % 4
    spelled = None
    if style == 0:
        os.symlink("layers", os.path.join(root, "layers-link"))
        layers = os.path.join(root, "layers-link")
    elif style == 1:
        layers = os.path.join(root, "app", "..", ".", "layers")
    elif style == 3:
        # relative to the working directory of the process that runs the build (which is then <root>/app, as for a real build)
        spelled = os.path.join("..", "layers")
    for p in ("p1", "p2", "p3"):
        with open(os.path.join(src, p), "wb") as f:
            f.write(b"#!/bin/sh\necho " + p.encode() + b"\n")
        os.chmod(os.path.join(src, p), {"p1": 0o755, "p2": 0o775, "p3": 0o700}[p])
    with open(os.path.join(src, "p1b"), "wb") as f:
        f.write(b"#!/bin/sh\necho pB\n")
    os.chmod(os.path.join(src, "p1b"), 0o755)
    os.symlink("p2", os.path.join(src, "p2l"))      # a source that is a symbolic link: what is installed is the program, not the link
    if src_mtime is not None:
        # (the age of the source files relative to what is installed from them is no input: C20 runs its processes with old, current and future sources)
        for p in ("p1", "p2", "p3", "p1b"):
            os.utime(os.path.join(src, p), (src_mtime, src_mtime))
    case = {"steps": jsonable(steps), "names": names, "_layers": layers, "umask": UMASK, "_layers_spelled": spelled}
    try:
        mon.call({"op": "init", "layers_dir": spelled or layers, "app_dir": os.path.join(root, "app"), "bp_dir": os.path.join(root, "bp"), "chdir": os.path.join(root, "app") if spelled else "/"})
        pre = vp.snapshot(layers)
        for i, step in enumerate(steps):
            case["failing_step"] = i
            if step["op"] == "restore":
                layersim.restore(layers, names)
                if step.get("strip"):
                    # ... and one restored layer directory comes back without its <layer>.toml (a layer with no metadata at all: not the
                    # buildpack's type, so it goes through the migration callback like any other restored layer)
                    p = os.path.join(layers, step["strip"] + ".toml")
                    if os.path.isdir(os.path.join(layers, step["strip"])) and os.path.lexists(p):
                        os.unlink(p)
                        sh.count("restores_without_toml")
                pre = vp.snapshot(layers)
                sh.count("restores")
                continue
            v0 = layersim.view(pre, step["name"])
            rep = mon.call(enc_step(step, src))
            post = vp.snapshot(layers)
            sh.evaluations += 1
            action = judge(step, rep, pre, post, names, layers, src, sh, case)
            if action is None and snapshots_out is not None:
                action = "error" if "err" in rep else "create"      # (C20 only compares snapshots across processes: carry on)
            if action is None:
                return
            sh.count("callbacks_observed", len(rep.get("callbacks", [])))
            st = abstract_state(v0, step["impl"])
            if st[0] != "absent":
                sh.nontrivial.add((st, step["impl"], step["strategy"], step["migrate"]["action"], action, result_shape(step, action)))
            if action == "error" and snapshots_out is not None:
                snapshots_out.append(post)      # (what a failed call leaves is compared across processes too: unspecified is not "differs per process")
            if action == "error":
                # the failing layer's disk state is unspecified: remove it so that later steps start from a defined state
                layersim.restore(layers, [])
                for suf in ["", ".toml"] + [s.decode() for s in layersim.SBOM_SUFFIX.values()]:
                    vp.rmtree(os.path.join(layers, step["name"] + suf))
                post = vp.snapshot(layers)
            pre = post
            if snapshots_out is not None:
                snapshots_out.append(post)
        case.pop("failing_step", None)
        # at the end: one of the layers comes back with metadata of an older shape, and the migration callback answers with metadata that
        # cannot be written as TOML (an integer beyond 64-bit signed). That is a reported error: no create/update runs, nothing changes on disk
        target = next((n for n in names if os.path.isdir(os.path.join(layers, n)) and os.path.isfile(os.path.join(layers, n + ".toml"))), None)
        if target is not None and snapshots_out is None:
            with open(os.path.join(layers, target + ".toml"), "w") as f:
                f.write('[types]\ncache = true\nlaunch = true\n\n[metadata]\nother = "from an older version"\n')
            pre = vp.snapshot(layers)
            ok_res = {"metadata_value": "created", "env": [], "exec_d": [], "sboms": [], "write_files": [], "delete_files": []}
            rep = mon.call({"op": "handle", "name": target, "impl": "v3", "types": {"launch": True, "build": True, "cache": True}, "strategy": ["keep", "update", "recreate"][len(steps) % 3],
                            "migrate": {"action": "replace", "metadata_value": "unwritable-%d" % len(steps)}, "create": ok_res, "update": ok_res})
            post = vp.snapshot(layers)
            sh.evaluations += 1
            cbs = [c["cb"] for c in rep.get("callbacks", [])]
            case["final_step"] = "migration of %s to metadata that cannot be written" % target
            if "err" not in rep or cbs != ["migrate"] or post != pre:
                sh.violation("unwritable-migration", "the migration callback answered ReplaceMetadata with a value TOML cannot hold (u64::MAX): result %s, callbacks %r, on disk: %s"
                             % ("Ok" if "err" not in rep else rep["detail"][:160], cbs, vp.snap_diff(pre, post, 4) if post != pre else "unchanged"), case)
                return
            sh.count("unwritable_migrations_refused")
        if len(steps) >= 3 and any(s["op"] == "restore" for s in steps):
            sh.sample({"history": [s["op"] + (":%s/%s/%s" % (s.get("name"), s.get("impl"), s.get("strategy")) if s["op"] == "handle" else "") for s in steps],
                       "observed": "callbacks, disk and returned LayerData matched the model at every step"}, cap=1)
    finally:
        vp.rmtree(root)


def run_mixed(mon, base, hid, steps, names, sh):
    """a history that uses BOTH layer APIs on the same layer names: trait-API steps are judged by this module's model, struct-API
    requests and LayerRef writes by C01's - both predict from the snapshot taken before the step, so they compose"""
    import c01
    root = os.path.join(base, "m%s" % hid)
    layers = os.path.join(root, "layers")
    src = os.path.join(root, "src")
    for d in (layers, os.path.join(root, "app"), os.path.join(root, "bp"), src):
        os.makedirs(d)
    for p in ("p1", "p2", "p3"):
        with open(os.path.join(src, p), "wb") as f:
            f.write(b"#!/bin/sh\necho " + p.encode() + b"\n")
        os.chmod(os.path.join(src, p), {"p1": 0o755, "p2": 0o775, "p3": 0o700}[p])
    with open(os.path.join(src, "p1b"), "wb") as f:
        f.write(b"#!/bin/sh\necho pB\n")
    os.chmod(os.path.join(src, "p1b"), 0o755)
    os.symlink("p2", os.path.join(src, "p2l"))      # a source that is a symbolic link: what is installed is the program, not the link
    case = {"mixed": True, "hid": hid, "names": names, "_layers": layers, "umask": UMASK, "seed_note": "mixed histories are regenerated from VERIF_SEED and their index"}
    alive = set()
    try:
        mon.call({"op": "init", "layers_dir": layers, "app_dir": os.path.join(root, "app"), "bp_dir": os.path.join(root, "bp")})
        pre = vp.snapshot(layers)
        for i, step in enumerate(steps):
            case["failing_step"] = i
            case["step_ops"] = [x["op"] + ":" + x.get("name", "") for x in steps[:i + 1]]
            op = step["op"]
            if op == "restore":
                layersim.restore(layers, names)
                mon.call({"op": "drop_refs"})
                alive.clear()
                pre = vp.snapshot(layers)
                continue
            if op == "fs_write":
                continue
            if op == "handle":
                # metadata written through the struct API may carry keys the trait implementation's metadata type does not know;
                # it then parses (serde ignores unknown fields) and a kept layer is rewritten without them. Whether "keep" has to
                # preserve such foreign keys is outside this property's quantifier (sequences of handle-layer calls): not exercised.
                t0 = layersim.view(pre, step["name"])["toml"]
                try:
                    md0 = layersim.parse_toml(t0)[1] if isinstance(t0, bytes) else None
                except Exception:  # noqa: BLE001
                    md0 = None
                own = {"v1": {"v"}, "v2": {"version"}, "defaults": {"v"}}.get(step["impl"], set())
                if isinstance(md0, dict) and own & set(md0) and set(md0) - own:
                    sh.count("mixed_steps_skipped_foreign_metadata_keys")
                    continue
                rep = mon.call(enc_step(step, src))
                post = vp.snapshot(layers)
                sh.evaluations += 1
                action = judge(step, rep, pre, post, names, layers, src, sh, case)
                if action is None:
                    return
                if action == "error":
                    for suf in ["", ".toml"] + [x.decode() for x in layersim.SBOM_SUFFIX.values()]:
                        vp.rmtree(os.path.join(layers, step["name"] + suf))
                    alive.discard(step["name"])
                    post = vp.snapshot(layers)
                sh.nontrivial.add(("mixed", "trait", abstract_state(layersim.view(pre, step["name"]), step["impl"])[:3], action))
            elif op in ("cached", "uncached"):
                rep = mon.call(c01.enc_step(step, src))
                post = vp.snapshot(layers)
                sh.evaluations += 1
                got = c01.judge_request(step, rep, pre, post, names, sh, case)
                if got is None:
                    return
                (alive.discard if got[0] == "error" else alive.add)(step["name"])
                sh.nontrivial.add(("mixed", "struct", op, got[0]))
            else:
                if step["name"] not in alive:
                    continue
                rep = mon.call(c01.enc_step(step, src))
                if rep.get("no_ref"):
                    continue
                post = vp.snapshot(layers)
                sh.evaluations += 1
                if not c01.judge_write(step, rep, pre, post, names, src, sh, case):
                    return
            pre = post
        sh.count("mixed_histories")
    finally:
        vp.rmtree(root)


def mixed_history(r, length):
    import c01
    mine = NAMES[:3] if r.random() < 0.5 else r.sample(NAMES, 3)
    a = [x for x in c01.random_history(r, length) if x["op"] != "fs_write"]
    steps = []
    for x in a:
        if "name" in x:
            x["name"] = mine[NAMES.index(x["name"]) % 3] if x["name"] in NAMES else mine[0]
        steps.append(x)
        if r.random() < 0.45:
            steps.append(concrete(r.choice([y for y in SYMS if y not in ("Rst",)]), r, r.choice(mine)))
    return steps


def random_history(r, length):
    steps = []
    mine = NAMES[:3] if r.random() < 0.4 else r.sample(NAMES, 3)
    for _ in range(length):
        if r.random() < 0.15:
            steps.append({"op": "restore", "strip": r.choice(mine)} if r.random() < 0.3 else {"op": "restore"})
        else:
            steps.append(concrete(r.choice([s for s in SYMS if s not in ("Rst",)]), r, r.choice(mine)))
    return steps


def shard_run(arg):
    kind, items, seed, work = arg
    sh = vp.Shard()
    global UMASK
    um = UMASK = vp.UMASKS[(items[0][0] if items else 0) % len(vp.UMASKS)]
    sh.add("umasks", oct(um))
    mon = vp.Mon("layers", umask=um)
    base = os.path.join(work, "w%d" % os.getpid())
    os.makedirs(base, exist_ok=True)
    try:
        for idx, item in items:
            r = vp.rng(seed, "c02", kind, idx)
            if kind == "enum":
                steps, names = [concrete(s, r) for s in item], ["a", "a.b"]
            elif kind == "mixed":
                steps, names = mixed_history(r, item), NAMES
            else:
                steps, names = random_history(r, item), NAMES
            try:
                if kind == "mixed":
                    run_mixed(mon, base, "%d" % idx, steps, names, sh)
                else:
                    run_history(mon, base, "%s%d" % (kind[0], idx), steps, names, sh)
            except vp.ExecutorDied as e:
                # the process running the library call died (abort / stack overflow / panic inside the call): that is behaviour of
                # the code under test, witnessed by the history that led to it
                sh.violation("process-died:%s" % e.req.get("op"), "the process died (status %s) inside %s after the history %r" % (e.status, e.req.get("op"), [s.get("op") for s in steps]),
                             {"steps": jsonable(steps), "names": names, "died_on": e.req})
                mon.close()
                mon = vp.Mon("layers", umask=um)
            sh.count("histories")
    finally:
        mon.close()
        vp.rmtree(base)
    return sh.dict()


def run(tier, seed, work):
    res = vp.Result("C02", tier, seed, "exploration")
    res.after_error_routes = ['unwritable_migrations_refused', 'failures_after_a_completed_migration']      # routes added in round 12 (a handled failure followed by ordinary work): must have observed something
    maxlen = 3 if tier == "quick" else 5
    hs = list(enumerate(h for n in range(1, maxlen + 1) for h in itertools.product(SYMS, repeat=n)))
    r = vp.rng(seed, "c02-len")
    nrand = 1200 if tier == "quick" else 6000
    rnd = [(i, r.randint(5, 20 if tier == "quick" else 40)) for i in range(nrand)]
    shards = [("enum", s, seed, work) for s in vp.split(hs, vp.NCPU * 2)] + [("rand", s, seed, work) for s in vp.split(rnd, vp.NCPU)]
    # histories that mix the struct API (C01's subject) and the trait API on the same layers
    nmixed = 600 if tier == "quick" else 5000
    mixed = [(10 ** 6 + i, r.randint(4, 14 if tier == "quick" else 30)) for i in range(nmixed)]
    shards += [("mixed", s, seed, work) for s in vp.split(mixed, vp.NCPU)]
    for d in vp.pmap(shard_run, shards):
        res.merge(d)
    res.exhaustive = True
    res.extra["exhaustive_bound"] = "all histories of length <=%d over the %d-symbol alphabet %r; result payloads (env over all four scopes, exec.d, SBOMs, files) drawn per instance from VERIF_SEED" % (maxlen, len(SYMS), SYMS)
    res.extra["enumerated_histories"] = len(hs)
    res.rule = ("evaluations = handle_layer calls judged. distinct_nontrivial = distinct (abstract pre-state [types present or stripped, metadata parsable / absent / other type, has per-process env, SBOMs, exec.d], "
                "layer impl, strategy, migration, action taken, result shape [process env, env None, exec.d, SBOMs]) transitions on a layer that existed before the call")
    res.assumptions = ["metadata on disk is only ever produced by the scripted Layer impls (V1{v}, V2{version}; V3{v, big} only in the final unwritable-migration step) or by migration",
                       "after a callback error the failing layer is removed by the monitor (its disk state is unspecified) before the history continues"]
    res.required = list(getattr(res, "required", [])) + res.after_error_routes
    return res


def replay(case, work):
    res = vp.Result("C02", "quick", 0, "exploration")
    sh = vp.Shard()
    global UMASK
    UMASK = case.get("umask", 0o022)
    mon = vp.Mon("layers", umask=UMASK)
    run_history(mon, work, "replay", unjson(case["steps"]), case["names"], sh)
    mon.close()
    sh.nontrivial.update({"replay-a", "replay-b"})
    res.merge(sh.dict())
    res.rule = "replay of one recorded history"
    res.sample({"steps": case["steps"]})
    return res
