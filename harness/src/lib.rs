//! Shared helpers for the executor binaries. Plumbing only: hex coding, the JSON-lines
//! request loop, conversions between JSON and libcnb's public types. Nothing in here
//! judges libcnb behaviour.

use serde_json::{Value, json};
use std::ffi::{OsStr, OsString};
use std::io::{BufRead, Write};
use std::os::unix::ffi::{OsStrExt, OsStringExt};

pub fn hex(b: &[u8]) -> String {
    let mut s = String::with_capacity(b.len() * 2);
    for x in b {
        s.push_str(&format!("{x:02x}"));
    }
    s
}

pub fn unhex(s: &str) -> Vec<u8> {
    let b = s.as_bytes();
    let mut out = Vec::with_capacity(b.len() / 2);
    let mut i = 0;
    while i + 1 < b.len() {
        let h = (b[i] as char).to_digit(16).expect("hex");
        let l = (b[i + 1] as char).to_digit(16).expect("hex");
        out.push((h * 16 + l) as u8);
        i += 2;
    }
    out
}

pub fn os_from_hex(s: &str) -> OsString {
    OsString::from_vec(unhex(s))
}

pub fn os_hex(s: &OsStr) -> String {
    hex(s.as_bytes())
}

pub fn jstr<'a>(v: &'a Value, k: &str) -> &'a str {
    v.get(k)
        .and_then(Value::as_str)
        .unwrap_or_else(|| panic!("missing string field {k} in {v}"))
}

pub fn jbool(v: &Value, k: &str) -> bool {
    v.get(k).and_then(Value::as_bool).unwrap_or(false)
}

pub fn jarr<'a>(v: &'a Value, k: &str) -> &'a [Value] {
    v.get(k).and_then(Value::as_array).map_or(&[], Vec::as_slice)
}

/// Request loop: one JSON document per input line, one per output line.
pub fn serve(mut f: impl FnMut(&Value) -> Value) {
    let stdin = std::io::stdin();
    let stdout = std::io::stdout();
    for line in stdin.lock().lines() {
        let line = line.expect("stdin");
        if line.trim().is_empty() {
            continue;
        }
        let req: Value = serde_json::from_str(&line).expect("request json");
        let rep = f(&req);
        let mut out = stdout.lock();
        serde_json::to_writer(&mut out, &rep).expect("reply");
        out.write_all(b"\n").expect("reply");
        out.flush().expect("flush");
    }
}

pub fn err_json(kind: &str, e: impl std::fmt::Debug) -> Value {
    json!({"err": kind, "detail": format!("{e:?}")})
}

/// JSON (from Python) -> toml::Value. Tagged encoding so that every TOML kind
/// survives: {"s":..} {"i":..} {"f":"<repr>"} {"b":..} {"dt":"..."} {"a":[..]} {"t":[[k,v],..]}
pub fn toml_from_json(v: &Value) -> toml::Value {
    let o = v.as_object().expect("tagged toml value");
    let (k, x) = o.iter().next().expect("tag");
    match k.as_str() {
        "s" => toml::Value::String(x.as_str().unwrap().to_string()),
        "i" => toml::Value::Integer(x.as_i64().unwrap()),
        "f" => {
            let s = x.as_str().unwrap();
            let f = match s {
                "inf" => f64::INFINITY,
                "-inf" => f64::NEG_INFINITY,
                "nan" => f64::NAN,
                _ => s.parse::<f64>().unwrap(),
            };
            toml::Value::Float(f)
        }
        "b" => toml::Value::Boolean(x.as_bool().unwrap()),
        "dt" => toml::Value::Datetime(x.as_str().unwrap().parse().expect("datetime")),
        "a" => toml::Value::Array(x.as_array().unwrap().iter().map(toml_from_json).collect()),
        "t" => {
            let mut t = toml::Table::new();
            for kv in x.as_array().unwrap() {
                let kv = kv.as_array().unwrap();
                t.insert(kv[0].as_str().unwrap().to_string(), toml_from_json(&kv[1]));
            }
            toml::Value::Table(t)
        }
        _ => panic!("unknown toml tag {k}"),
    }
}

pub fn toml_table_from_json(v: &Value) -> toml::Table {
    match toml_from_json(v) {
        toml::Value::Table(t) => t,
        _ => panic!("expected table"),
    }
}

/// toml::Value -> tagged JSON (same encoding as above), for dumping values read by libcnb.
pub fn toml_to_json(v: &toml::Value) -> Value {
    match v {
        toml::Value::String(s) => json!({"s": s}),
        toml::Value::Integer(i) => json!({"i": i}),
        toml::Value::Float(f) => {
            let s = if f.is_nan() {
                "nan".to_string()
            } else if f.is_infinite() {
                if *f > 0.0 { "inf".to_string() } else { "-inf".to_string() }
            } else {
                format!("{f:?}")
            };
            json!({"f": s})
        }
        toml::Value::Boolean(b) => json!({"b": b}),
        toml::Value::Datetime(d) => json!({"dt": d.to_string()}),
        toml::Value::Array(a) => json!({"a": a.iter().map(toml_to_json).collect::<Vec<_>>()}),
        toml::Value::Table(t) => {
            json!({"t": t.iter().map(|(k, v)| json!([k, toml_to_json(v)])).collect::<Vec<_>>()})
        }
    }
}
