//! Scripted stdout/stderr writer (child process for C19).
//! argv[1]: steps separated by ','; a '|' splits the script into two parts that run on two
//! threads concurrently. Steps: o<N> / e<N> write N bytes to stdout/stderr (in one write_all,
//! unless "w<K>" set a chunk size before), d<MS> sleep, co / ce close the stream, x<CODE> exit code.
//! Byte i of stream s is f(s, i) so that order and completeness are checkable.
use std::io::Write;
use std::os::fd::FromRawFd;

pub fn f(stream: u8, i: u64) -> u8 {
    ((i * 7 + i / 251 + if stream == b'e' { 13 } else { 0 }) % 256) as u8
}

fn run(part: &str, offs: &std::sync::Mutex<[u64; 2]>) -> Option<i32> {
    let mut chunk = usize::MAX;
    let mut code = None;
    for step in part.split(',').filter(|s| !s.is_empty()) {
        let (k, rest) = step.split_at(1);
        match k {
            "o" | "e" => {
                let n: u64 = rest.parse().unwrap();
                let s = k.as_bytes()[0];
                let start = {
                    let mut o = offs.lock().unwrap();
                    let idx = usize::from(s == b'e');
                    let st = o[idx];
                    o[idx] += n;
                    st
                };
                let data: Vec<u8> = (start..start + n).map(|i| f(s, i)).collect();
                let fd = if s == b'o' { 1 } else { 2 };
                let mut file = std::mem::ManuallyDrop::new(unsafe { std::fs::File::from_raw_fd(fd) });
                for c in data.chunks(chunk.min(data.len().max(1))) {
                    if file.write_all(c).is_err() {
                        break;
                    }
                }
            }
            "w" => chunk = rest.parse().unwrap(),
            "d" => std::thread::sleep(std::time::Duration::from_millis(rest.parse().unwrap())),
            "c" => unsafe {
                libc::close(if rest == "o" { 1 } else { 2 });
            },
            // "g": wait until the file named by $VP_CHILD_GOFILE exists (the parent creates it once its call has returned);
            // give up after 6 s and exit 9 - a parent that only returns when this process has exited shows as that 9
            "g" => {
                let go = std::env::var("VP_CHILD_GOFILE").unwrap_or_default();
                let t0 = std::time::Instant::now();
                let mut gave_up = false;
                while !std::path::Path::new(&go).exists() {
                    if t0.elapsed() > std::time::Duration::from_secs(6) {
                        gave_up = true;
                        break;
                    }
                    std::thread::sleep(std::time::Duration::from_millis(5));
                }
                if gave_up {
                    return Some(9);
                }
            }
            "x" => code = Some(rest.parse().unwrap()),
            _ => panic!("step {step}"),
        }
    }
    code
}

fn main() {
    if let Ok(p) = std::env::var("VP_CHILD_PIDFILE") {
        let _ = std::fs::write(p, std::process::id().to_string());
    }
    let script = std::env::args().nth(1).unwrap_or_default();
    let offs = std::sync::Mutex::new([0u64; 2]);
    let parts: Vec<&str> = script.split('|').collect();
    let mut code = 0;
    std::thread::scope(|sc| {
        let hs: Vec<_> = parts.iter().map(|p| sc.spawn(|| run(p, &offs))).collect();
        for h in hs {
            if let Some(c) = h.join().unwrap() {
                code = c;
            }
        }
    });
    std::process::exit(code);
}
