//! C19: child-output streaming (one case per process) and the writer brute force.
use libherokubuildpack::command::CommandExt;
use libherokubuildpack::write::{line_mapped, mapped, tee};
use serde_json::{Value, json};
use std::io::Write;
use std::process::Command;
use std::sync::atomic::{AtomicU64, Ordering};
use std::sync::{Arc, Mutex, mpsc};
use std::time::{Duration, Instant};
use vpharness::jstr;

static SEQ: AtomicU64 = AtomicU64::new(0);

/// Records every chunk with a global sequence number; optionally sleeps per chunk.
#[derive(Clone)]
struct Rec {
    id: u8,
    data: Arc<Mutex<Vec<u8>>>,
    stamps: Arc<Mutex<Vec<(u64, u8, usize)>>>,
    sleep_us: u64,
    max_accept: usize,
}

impl Write for Rec {
    fn write(&mut self, buf: &[u8]) -> std::io::Result<usize> {
        let n = buf.len().min(self.max_accept);
        // a writer with an ordinary appetite for stack (a formatting buffer, a regex, a decompressor): 192 KiB, a tenth of a default thread's stack
        let scratch = [buf.first().copied().unwrap_or(0); 192 * 1024];
        std::hint::black_box(&scratch);
        if self.sleep_us > 0 {
            std::thread::sleep(Duration::from_micros(self.sleep_us));
        }
        let s = SEQ.fetch_add(1, Ordering::SeqCst);
        self.data.lock().unwrap().extend_from_slice(&buf[..n]);
        self.stamps.lock().unwrap().push((s, self.id, n));
        Ok(n)
    }
    fn flush(&mut self) -> std::io::Result<()> {
        Ok(())
    }
}

/// argv: streams <json>
pub fn streams(args: &[String]) {
    let req: Value = serde_json::from_str(&args[0]).expect("json");
    let script = jstr(&req, "script").to_string();
    let child_bin = jstr(&req, "child").to_string();
    let writer = jstr(&req, "writer").to_string();
    let api = jstr(&req, "api").to_string();
    let watchdog = Duration::from_millis(req["watchdog_ms"].as_u64().unwrap_or(30000));
    let pidfile = jstr(&req, "pidfile").to_string();
    let (sleep_us, max_accept) = match writer.as_str() {
        "plain" | "mapped" => (0, usize::MAX),
        "slow" => (300, usize::MAX),
        "trickle" => (0, 7),
        _ => panic!("writer"),
    };
    let stamps = Arc::new(Mutex::new(Vec::new()));
    let ow = Rec { id: b'o', data: Arc::default(), stamps: stamps.clone(), sleep_us, max_accept };
    let ew = Rec { id: b'e', data: Arc::default(), stamps: stamps.clone(), sleep_us, max_accept };
    let (tx, rx) = mpsc::channel();
    let (ow2, ew2) = (ow.clone(), ew.clone());
    let t0 = Instant::now();
    let mapped_writers = writer == "mapped";
    std::thread::spawn(move || {
        let mut cmd = Command::new(child_bin);
        let gofile = format!("{pidfile}.go");
        cmd.arg(script).env("VP_CHILD_PIDFILE", pidfile).env("VP_CHILD_GOFILE", &gofile).stdin(std::process::Stdio::null());
        // spawn_and_write_streams hands back the child once both streams are closed - the child may well live on. The "go" file
        // tells a child that is waiting for it (script step "g") that the call has returned.
        let released = |c: std::process::Child| {
            let _ = std::fs::write(&gofile, b"go");
            c
        };
        fn pfx(p: &'static [u8]) -> impl Fn(Vec<u8>) -> Vec<u8> + Sync + Send + 'static {
            move |mut l: Vec<u8>| {
                let mut out = p.to_vec();
                out.append(&mut l);
                out
            }
        }
        let res = match (api.as_str(), mapped_writers) {
            ("output", false) => cmd.output_and_write_streams(ow2, ew2).map(|o| (o.status.code(), Some(vpharness::hex(&o.stdout)), Some(vpharness::hex(&o.stderr)))),
            // the documented use: prefix every line of the child's output while streaming it
            ("output", true) => cmd
                .output_and_write_streams(line_mapped(ow2, pfx(b"O> ")), line_mapped(ew2, pfx(b"E> ")))
                .map(|o| (o.status.code(), Some(vpharness::hex(&o.stdout)), Some(vpharness::hex(&o.stderr)))),
            (_, false) => cmd.spawn_and_write_streams(ow2, ew2).map(released).and_then(|mut c| c.wait()).map(|s| (s.code(), None, None)),
            (_, true) => cmd.spawn_and_write_streams(line_mapped(ow2, pfx(b"O> ")), line_mapped(ew2, pfx(b"E> "))).map(released).and_then(|mut c| c.wait()).map(|s| (s.code(), None, None)),
        };
        let _ = tx.send(res.map_err(|e| format!("{e:?}")));
    });
    match rx.recv_timeout(watchdog) {
        Ok(res) => {
            let mut st = stamps.lock().unwrap().clone();
            st.sort();
            // run-length compressed interleaving signature
            let mut sig = String::new();
            let mut last = 0u8;
            for (_, id, _) in &st {
                if *id != last {
                    sig.push(*id as char);
                    last = *id;
                }
            }
            let rep = match res {
                Ok((code, out, err)) => json!({"returned": true, "code": code, "output_stdout": out, "output_stderr": err}),
                Err(e) => json!({"returned": true, "io_error": e}),
            };
            let mut rep = rep;
            rep["writer_stdout"] = json!(vpharness::hex(&ow.data.lock().unwrap()));
            rep["writer_stderr"] = json!(vpharness::hex(&ew.data.lock().unwrap()));
            rep["chunks"] = json!(st.len());
            rep["interleaving"] = json!(sig);
            rep["elapsed_ms"] = json!(t0.elapsed().as_millis() as u64);
            println!("{rep}");
        }
        Err(_) => {
            // Watchdog fired: diagnose. Deadlock witness = over three samples one second apart the child
            // sits in pipe_write, no parent thread reads a pipe, and no byte arrives.
            let pid: Option<u32> = std::fs::read_to_string(jstr(&req, "pidfile")).ok().and_then(|s| s.trim().parse().ok());
            let mut samples = Vec::new();
            // pipes (by inode) a process' threads are blocked on, from /proc/<pid>/task/<tid>/syscall
            fn blocked_pipes(pid: &str, syscalls: &[u64]) -> Vec<String> {
                let mut out = Vec::new();
                if let Ok(rd) = std::fs::read_dir(format!("/proc/{pid}/task")) {
                    for t in rd.flatten() {
                        let sc = std::fs::read_to_string(format!("{}/syscall", t.path().display())).unwrap_or_default();
                        let mut it = sc.split_whitespace();
                        let nr = it.next().and_then(|x| x.parse::<u64>().ok());
                        let fd = it.next().and_then(|x| u64::from_str_radix(x.trim_start_matches("0x"), 16).ok());
                        if let (Some(nr), Some(fd)) = (nr, fd) {
                            if syscalls.contains(&nr) {
                                if let Ok(l) = std::fs::read_link(format!("/proc/{pid}/fd/{fd}")) {
                                    let l = l.to_string_lossy().to_string();
                                    if l.starts_with("pipe:") {
                                        out.push(l);
                                    }
                                }
                            }
                        }
                    }
                }
                out.sort();
                out
            }
            for _ in 0..3 {
                let received = ow.data.lock().unwrap().len() + ew.data.lock().unwrap().len();
                // x86-64: write=1, writev=20, pwrite64=18; read=0, readv=19, splice=275, poll=7
                let child_w = pid.map(|p| blocked_pipes(&p.to_string(), &[1, 20, 18])).unwrap_or_default();
                let parent_r = blocked_pipes("self", &[0, 19, 275]);
                samples.push(json!({"received": received, "child_blocked_writing": child_w, "parent_blocked_reading": parent_r}));
                std::thread::sleep(Duration::from_secs(1));
            }
            let stuck_child = samples.iter().all(|s| !s["child_blocked_writing"].as_array().unwrap().is_empty());
            // nobody in the parent reads any of the pipes the child is blocked on
            let no_reader = samples.iter().all(|s| {
                let r = s["parent_blocked_reading"].as_array().unwrap();
                s["child_blocked_writing"].as_array().unwrap().iter().all(|p| !r.contains(p))
            });
            let no_progress = samples.windows(2).all(|w| w[0]["received"] == w[1]["received"]);
            if let Some(pid) = pid {
                unsafe {
                    libc::kill(pid as i32, libc::SIGKILL);
                }
            }
            println!("{}", json!({"returned": false, "deadlock_witness": stuck_child && no_reader && no_progress,
                "child_blocked_writing_a_pipe": stuck_child, "no_parent_thread_reads_that_pipe": no_reader, "no_progress": no_progress, "samples": samples}));
            std::process::exit(0);
        }
    }
}

// ---- writer brute force (judge in Rust; uses no libherokubuildpack code for the expectation) ----

fn mapf(seg: Vec<u8>) -> Vec<u8> {
    let mut out = format!("<{}:", seg.len()).into_bytes();
    out.extend_from_slice(&seg);
    out.push(b'>');
    out
}

fn expected(input: &[u8], marker: u8) -> Vec<u8> {
    let mut out = Vec::new();
    let mut cur = Vec::new();
    for b in input {
        cur.push(*b);
        if *b == marker {
            out.extend(mapf(std::mem::take(&mut cur)));
        }
    }
    if !cur.is_empty() {
        out.extend(mapf(cur));
    }
    out
}

/// Accepts everything, but every `.2`-th call fails with `ErrorKind::Interrupted` before taking anything (as a signal would make it).
struct Hiccup<'a>(&'a mut Vec<u8>, usize, usize);
impl Write for Hiccup<'_> {
    fn write(&mut self, buf: &[u8]) -> std::io::Result<usize> {
        self.1 += 1;
        if self.1 % self.2 == 0 {
            return Err(std::io::Error::from(std::io::ErrorKind::Interrupted));
        }
        self.0.extend_from_slice(buf);
        Ok(buf.len())
    }
    fn flush(&mut self) -> std::io::Result<()> {
        Ok(())
    }
}

/// Accepts everything, except that its `.2`-th write call fails with a real error (the pipe's reader went away for a moment) and takes nothing.
struct FailOnce<'a>(&'a mut Vec<u8>, usize, usize);
impl Write for FailOnce<'_> {
    fn write(&mut self, buf: &[u8]) -> std::io::Result<usize> {
        self.1 += 1;
        if self.1 == self.2 {
            return Err(std::io::Error::new(std::io::ErrorKind::Other, "refused once"));
        }
        self.0.extend_from_slice(buf);
        Ok(buf.len())
    }
    fn flush(&mut self) -> std::io::Result<()> {
        Ok(())
    }
}

struct Trickle<'a>(&'a mut Vec<u8>, usize);
impl Write for Trickle<'_> {
    fn write(&mut self, buf: &[u8]) -> std::io::Result<usize> {
        let n = buf.len().min(self.1);
        self.0.extend_from_slice(&buf[..n]);
        Ok(n)
    }
    fn flush(&mut self) -> std::io::Result<()> {
        Ok(())
    }
}

/// argv: writers <maxlen> <shard> <nshards>
/// write all chunks through `write_vectored` (several buffers per call), advancing by whatever count the writer reports
fn write_all_vectored_manual<W: Write>(w: &mut W, chunks: &[&[u8]]) {
    let mut rest: Vec<&[u8]> = chunks.iter().copied().filter(|c| !c.is_empty()).collect();
    while !rest.is_empty() {
        let slices: Vec<std::io::IoSlice> = rest.iter().take(3).map(|c| std::io::IoSlice::new(c)).collect();
        let mut n = w.write_vectored(&slices).unwrap();
        assert!(n > 0, "write_vectored accepted nothing");
        while n > 0 {
            if n >= rest[0].len() {
                n -= rest[0].len();
                rest.remove(0);
            } else {
                rest[0] = &rest[0][n..];
                n = 0;
            }
        }
    }
}

pub fn writers(args: &[String]) {
    let maxlen: usize = args[0].parse().unwrap();
    let shard: u64 = args[1].parse().unwrap();
    let nshards: u64 = args[2].parse().unwrap();
    let marker = b'\n';
    let mut runs: u64 = 0;
    let mut cases: u64 = 0;
    let mut nontrivial: u64 = 0;
    let mut violations: Vec<Value> = Vec::new();
    let mut samples: Vec<Value> = Vec::new();
    let mut counter: u64 = 0;
    let mut handled_failures: u64 = 0;
    for len in 0..=maxlen {
        for bits in 0..(1u64 << len) {
            let input: Vec<u8> = (0..len).map(|i| if bits >> i & 1 == 1 { marker } else { b'a' + (i % 3) as u8 }).collect();
            let want = expected(&input, marker);
            let nchunkings = if len == 0 { 1 } else { 1u64 << (len - 1) };
            for cuts in 0..nchunkings {
                counter += 1;
                if counter % nshards != shard {
                    continue;
                }
                cases += 1;
                if bits != 0 && cuts != 0 {
                    nontrivial += 1; // at least one marker and at least two write calls
                }
                // chunk boundaries after position i where bit i of cuts is set
                let mut chunks: Vec<&[u8]> = Vec::new();
                let mut start = 0;
                for i in 0..len {
                    if i + 1 == len || cuts >> i & 1 == 1 {
                        chunks.push(&input[start..=i]);
                        start = i + 1;
                    }
                }
                let mut check = |variant: &str, got: &[u8], want: &[u8]| {
                    runs += 1;
                    if got != want && violations.len() < 5 {
                        violations.push(json!({"variant": variant, "input": String::from_utf8_lossy(&input), "chunks": chunks.iter().map(|c| String::from_utf8_lossy(c).to_string()).collect::<Vec<_>>(),
                            "got": String::from_utf8_lossy(got), "want": String::from_utf8_lossy(want)}));
                    }
                };
                // 1. mapped, end by drop
                let mut out = Vec::new();
                {
                    let mut w = line_mapped(&mut out, mapf);
                    for c in &chunks {
                        w.write_all(c).unwrap();
                    }
                }
                check("line_mapped+drop", &out, &want);
                // 1b. the same with flush() after every write call: flushing must not emit a partial segment
                let mut out = Vec::new();
                {
                    let mut w = line_mapped(&mut out, mapf);
                    for c in &chunks {
                        w.write_all(c).unwrap();
                        w.flush().unwrap();
                    }
                }
                check("line_mapped+flush-between-writes+drop", &out, &want);
                // 2. mapped, end by unwrap
                let mut out = Vec::new();
                {
                    let mut w = mapped(&mut out, marker, mapf);
                    for c in &chunks {
                        w.write_all(c).unwrap();
                    }
                    let _inner = w.unwrap();
                }
                check("mapped+unwrap", &out, &want);
                // 3. tee: both targets get everything, also with a target that accepts partial writes
                let (mut a, mut b) = (Vec::new(), Vec::new());
                {
                    let mut w = tee(Trickle(&mut a, 2), &mut b);
                    for c in &chunks {
                        w.write_all(c).unwrap();
                    }
                    w.flush().unwrap();
                }
                check("tee.a(trickle)", &a, &input);
                check("tee.b", &b, &input);
                // 4. mapped over tee over trickle
                let (mut a, mut b) = (Vec::new(), Vec::new());
                {
                    let mut w = line_mapped(tee(&mut a, Trickle(&mut b, 3)), mapf);
                    for c in &chunks {
                        w.write_all(c).unwrap();
                    }
                }
                check("mapped(tee).a", &a, &want);
                check("mapped(tee).b(trickle)", &b, &want);
                // 4b. a target that is interrupted now and then (EINTR: "try again", nothing was written): every target still gets the input once
                let (mut a, mut b) = (Vec::new(), Vec::new());
                {
                    let mut w = tee(&mut a, Hiccup(&mut b, 0, 3));
                    for c in &chunks {
                        w.write_all(c).unwrap();
                    }
                    w.flush().unwrap();
                }
                check("tee(plain,interrupted).a", &a, &input);
                check("tee(plain,interrupted).b", &b, &input);
                let (mut a, mut b) = (Vec::new(), Vec::new());
                {
                    let mut w = line_mapped(tee(Hiccup(&mut a, 1, 2), &mut b), mapf);
                    for c in &chunks {
                        w.write_all(c).unwrap();
                    }
                }
                check("mapped(tee(interrupted,plain)).a", &a, &want);
                check("mapped(tee(interrupted,plain)).b", &b, &want);
                // 5. tee of two mapped writers with different markers
                let (mut a, mut b) = (Vec::new(), Vec::new());
                {
                    let mut w = tee(line_mapped(&mut a, mapf), mapped(&mut b, b'a', mapf));
                    for c in &chunks {
                        w.write_all(c).unwrap();
                    }
                }
                check("tee(mapped,mapped).a", &a, &want);
                check("tee(mapped,mapped).b", &b, &expected(&input, b'a'));
                // 6. the same writers fed through write_vectored (several buffers per call): the count a writer reports is what it took
                let (mut a, mut b) = (Vec::new(), Vec::new());
                {
                    let mut w = tee(line_mapped(&mut a, mapf), Trickle(&mut b, 2));
                    write_all_vectored_manual(&mut w, &chunks);
                    w.flush().unwrap();
                }
                check("vectored tee(mapped,trickle).a", &a, &want);
                check("vectored tee(mapped,trickle).b", &b, &input);
                let (mut a, mut b) = (Vec::new(), Vec::new());
                {
                    let mut w = line_mapped(tee(tee(&mut a, Trickle(&mut b, 3)), std::io::sink()), mapf);
                    write_all_vectored_manual(&mut w, &chunks);
                }
                check("vectored mapped(tee(tee)).a", &a, &want);
                check("vectored mapped(tee(tee)).b", &b, &want);
                // 7. a target that refuses one write call with a real error; the caller handles the error and carries on with the next chunk
                // (the next line, the next command's output through the same writer): what follows the failed call arrives complete, and
                // what the refused call was given has no part in it
                if !chunks.is_empty() {
                    let k = 1 + (counter as usize / 3) % chunks.len();
                    let (mut a, mut b) = (Vec::new(), Vec::new());
                    let mut failed: Option<usize> = None;
                    {
                        let mut w = tee(&mut a, FailOnce(&mut b, 0, k));
                        for (i, c) in chunks.iter().enumerate() {
                            if w.write_all(c).is_err() {
                                failed = Some(i);
                            }
                        }
                        let _ = w.flush();
                    }
                    if let Some(f) = failed {
                        handled_failures += 1;
                        let pre: Vec<u8> = chunks[..f].concat();
                        let post: Vec<u8> = chunks[f + 1..].concat();
                        let mut want_b = pre.clone();
                        want_b.extend_from_slice(&post);
                        check("tee(plain,refuses-once).b [all chunks but the refused one]", &b, &want_b);
                        // the first target may or may not have been given (part of) the refused chunk
                        let ok = a.len() >= pre.len() + post.len() && a.starts_with(&pre) && a.ends_with(&post) && chunks[f].starts_with(&a[pre.len()..a.len() - post.len()]);
                        let mut want_a = pre.clone();
                        want_a.extend_from_slice(chunks[f]);
                        want_a.extend_from_slice(&post);
                        check("tee(plain,refuses-once).a [chunks before, at most the refused chunk, chunks after]", if ok { &want_a } else { &a }, &want_a);
                    }
                    // ... and under a mapped writer: the segment whose emission was refused is lost, every other segment arrives whole and alone
                    let nseg = bits.count_ones() as usize + 1;
                    let k = 1 + (counter as usize / 5) % nseg;
                    let mut out = Vec::new();
                    let mut failed: Option<usize> = None;
                    {
                        let mut w = line_mapped(FailOnce(&mut out, 0, k), mapf);
                        for (i, c) in chunks.iter().enumerate() {
                            if w.write_all(c).is_err() {
                                failed = Some(i);
                            }
                        }
                    }
                    // candidates: the refused chunk was consumed up to the marker whose segment was refused, or any further
                    let model = |upto: Option<usize>| -> Vec<u8> {
                        let (mut o, mut cur, mut emitted) = (Vec::new(), Vec::new(), 0usize);
                        for (i, c) in chunks.iter().enumerate() {
                            let mut stop: Option<usize> = None;
                            for (j, byte) in c.iter().enumerate() {
                                if let Some(s) = stop {
                                    if j >= s { break; }
                                }
                                cur.push(*byte);
                                if *byte == marker {
                                    emitted += 1;
                                    let seg = std::mem::take(&mut cur);
                                    if emitted == k {
                                        if Some(i) == failed { stop = Some(upto.map_or(j + 1, |u| (j + 1).max(u))); }
                                    } else {
                                        o.extend(mapf(seg));
                                    }
                                }
                            }
                        }
                        if !cur.is_empty() {
                            emitted += 1;
                            if emitted != k { o.extend(mapf(cur)); }
                        }
                        o
                    };
                    if let Some(f) = failed {
                        handled_failures += 1;
                        let cands: Vec<Vec<u8>> = (0..=chunks[f].len()).map(|u| model(Some(u))).collect();
                        let hit = cands.iter().find(|c| **c == out).cloned().unwrap_or_else(|| cands[0].clone());
                        check("line_mapped(refuses-once) [every segment but the refused one, whole and alone]", &out, &hit);
                    } else {
                        check("line_mapped(refuses-once at the final emission)", &out, &model(None));
                    }
                }
                if samples.len() < 2 && len >= 5 && chunks.len() >= 3 && bits.count_ones() >= 2 {
                    samples.push(json!({"input": String::from_utf8_lossy(&input), "chunks": chunks.iter().map(|c| String::from_utf8_lossy(c).to_string()).collect::<Vec<_>>(), "emitted": String::from_utf8_lossy(&want)}));
                }
            }
        }
    }
    // single large write calls straight into a tee (and a tee under a mapped writer whose segment is large): both targets get all of it
    if shard == 0 {
        for len in [65535usize, 65536, 65537, 131072, 200_001, 1_000_003] {
            let input: Vec<u8> = (0..len).map(|i| if i + 1 == len { b'\n' } else { b'a' + (i % 23) as u8 }).collect();
            let (mut a, mut b) = (Vec::new(), Vec::new());
            {
                let mut w = tee(&mut a, tee(&mut b, std::io::sink()));
                w.write_all(&input).unwrap();
                w.flush().unwrap();
            }
            runs += 2;
            if (a != input || b != input) && violations.len() < 5 {
                violations.push(json!({"variant": "tee (one large write)", "input": format!("{len} bytes in one write_all"), "chunks": [format!("1 x {len}")],
                    "got": format!("targets hold {} / {} bytes", a.len(), b.len()), "want": format!("{len} bytes each")}));
            }
            let (mut a, mut b) = (Vec::new(), Vec::new());
            {
                let mut w = line_mapped(tee(&mut a, &mut b), mapf);
                for c in input.chunks(7001) {
                    w.write_all(c).unwrap();
                }
            }
            let want = expected(&input, b'\n');
            runs += 2;
            if (a != want || b != want) && violations.len() < 5 {
                violations.push(json!({"variant": "mapped(tee) (one large segment)", "input": format!("{len} bytes, one segment"), "chunks": ["write calls of 7001 bytes"],
                    "got": format!("targets hold {} / {} bytes", a.len(), b.len()), "want": format!("{} bytes each", want.len())}));
            }
        }
    }
    // long segments (around and beyond common buffer sizes), split in several ways: the mapping must still see whole segments
    let mut long_cases = 0u64;
    if shard == 0 {
        for len in [8191usize, 8192, 8193, 65535, 65536, 65537, 100_000, 200_001, 1_000_003] {
            for marker_at in [None, Some(len - 1), Some(len / 2), Some(0)] {
                let mut input: Vec<u8> = (0..len).map(|i| b'a' + (i % 23) as u8).collect();
                if let Some(m) = marker_at {
                    input[m] = marker;
                }
                let want = expected(&input, marker);
                for chunk in [usize::MAX, 1, 4096, 8192, 65536, 70_000, 33_333] {
                    if chunk == 1 && len > 70_000 {
                        continue;
                    }
                    long_cases += 1;
                    let mut out = Vec::new();
                    {
                        let mut w = line_mapped(&mut out, mapf);
                        for c in input.chunks(chunk.min(len)) {
                            w.write_all(c).unwrap();
                        }
                    }
                    runs += 1;
                    if out != want && violations.len() < 5 {
                        violations.push(json!({"variant": "line_mapped+drop (long segment)", "input": format!("{len} bytes, marker at {marker_at:?}"), "chunks": [format!("write calls of {chunk} bytes")],
                            "got": format!("{} bytes, starts {:?}", out.len(), String::from_utf8_lossy(&out[..out.len().min(24)])), "want": format!("{} bytes, starts {:?}", want.len(), String::from_utf8_lossy(&want[..want.len().min(24)]))}));
                    }
                }
            }
        }
    }
    println!("{}", json!({"cases": cases + long_cases, "nontrivial": nontrivial + long_cases, "runs": runs, "violations": violations, "samples": samples, "long_segment_cases": long_cases, "handled_failures": handled_failures}));
}
