//! Executor: interprets scripted calls against libcnb's public API and reports what
//! happened. It never judges the outcome (exceptions: the brute-force modes named in
//! DESIGN.md, which use no libcnb code for judging).
#![allow(deprecated)]

mod env;
mod inventory;
mod parse;

fn main() {
    let mode = std::env::args().nth(1).unwrap_or_default();
    match mode.as_str() {
        "env" => vpharness::serve(env::handle),
        "parse" => vpharness::serve(parse::handle),
        "inventory" => vpharness::serve(inventory::handle),
        "resolve" => inventory::resolve_bruteforce(&std::env::args().skip(2).collect::<Vec<_>>()),
        other => {
            eprintln!("vpmon: unknown mode {other:?}");
            std::process::exit(2);
        }
    }
}
