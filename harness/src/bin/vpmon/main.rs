//! Executor: interprets scripted calls against libcnb's public API and reports what
//! happened. It never judges the outcome (exceptions: the brute-force modes named in
//! DESIGN.md, which use no libcnb code for judging).
#![allow(deprecated)]

mod depgraph;
mod emit;
mod env;
mod inventory;
mod layers;
mod parse;
mod pkg;
mod streams;

fn main() {
    let mode = std::env::args().nth(1).unwrap_or_default();
    match mode.as_str() {
        "env" => vpharness::serve(env::handle),
        "parse" => vpharness::serve(parse::handle),
        "layers" => {
            let mut st = layers::State::new();
            vpharness::serve(|req| layers::handle(&mut st, req));
        }
        "emit" => vpharness::serve(emit::handle),
        "execd" => emit::execd(&std::env::args().skip(2).collect::<Vec<_>>()),
        "pkg" => vpharness::serve(pkg::handle),
        "inventory" => vpharness::serve(inventory::handle),
        "streams" => streams::streams(&std::env::args().skip(2).collect::<Vec<_>>()),
        "writers" => streams::writers(&std::env::args().skip(2).collect::<Vec<_>>()),
        "depgraph" => depgraph::run(&std::env::args().skip(2).collect::<Vec<_>>()),
        "resolve" => inventory::resolve_bruteforce(&std::env::args().skip(2).collect::<Vec<_>>()),
        other => {
            eprintln!("vpmon: unknown mode {other:?}");
            std::process::exit(2);
        }
    }
}
