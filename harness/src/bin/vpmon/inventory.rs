//! Inventory executor (C18).
//!
//! `resolve_bruteforce` is one of the three places where the judge lives in Rust (see
//! DESIGN.md section 2): the case count is 10^6..10^7. The judge uses no libcnb /
//! libherokubuildpack code: it recomputes the matching set with plain comparisons on the
//! generated tuples and checks maximality by brute force.
use libherokubuildpack::inventory::Inventory;
use libherokubuildpack::inventory::artifact::{Arch, Artifact, Os};
use libherokubuildpack::inventory::checksum::{Checksum, Digest};
use libherokubuildpack::inventory::version::ArtifactRequirement;
use serde::{Deserialize, Serialize};
use serde_json::{Value, json};
use std::cmp::Ordering;
use std::collections::BTreeSet;
use vpharness::{jarr, jstr};

// ---- version types -------------------------------------------------------------------

/// Product order on pairs: genuinely partial.
#[derive(Debug, Clone, Copy, PartialEq, Eq, Serialize, Deserialize)]
pub struct Pair(pub u8, pub u8);

impl PartialOrd for Pair {
    fn partial_cmp(&self, o: &Self) -> Option<Ordering> {
        if self.0 == o.0 && self.1 == o.1 {
            Some(Ordering::Equal)
        } else if self.0 <= o.0 && self.1 <= o.1 {
            Some(Ordering::Less)
        } else if self.0 >= o.0 && self.1 >= o.1 {
            Some(Ordering::Greater)
        } else {
            None
        }
    }
}

/// Two-byte test digest named "t2".
#[derive(Debug, Clone)]
pub struct T2;
impl Digest for T2 {
    fn name_compatible(name: &str) -> bool {
        name == "t2"
    }
    fn length_compatible(len: usize) -> bool {
        len == 2
    }
}

/// Requirement over (version set as bitmask of domain indices, optional metadata value).
struct Req<V> {
    allowed: Vec<V>,
    meta: Option<u8>,
}

macro_rules! impl_req {
    ($t:ty) => {
        impl ArtifactRequirement<$t, u8> for Req<$t> {
            fn satisfies_metadata(&self, metadata: &u8) -> bool {
                self.meta.is_none_or(|m| m == *metadata)
            }
            fn satisfies_version(&self, version: &$t) -> bool {
                self.allowed.iter().any(|a| a == version)
            }
        }
    };
}
impl_req!(u8);
impl_req!(semver::Version);
impl_req!(Pair);
impl_req!(F);

/// f32 compared by bit pattern for equality (so that NaN can be named by a requirement), by
/// IEEE partial_cmp for order.
#[derive(Clone, Debug)]
pub struct F(f32);
impl PartialEq for F {
    fn eq(&self, o: &Self) -> bool {
        self.0.to_bits() == o.0.to_bits()
    }
}
impl PartialOrd for F {
    fn partial_cmp(&self, o: &Self) -> Option<Ordering> {
        self.0.partial_cmp(&o.0)
    }
}

const OSES: [Os; 2] = [Os::Linux, Os::Darwin];
const ARCHES: [Arch; 2] = [Arch::Amd64, Arch::Arm64];

#[derive(Default)]
struct Tally {
    resolutions: u64,
    classes: BTreeSet<(u8, u8, bool, u8)>, // (|M| capped 4, #maximal capped 3, has-incomparable, result position capped 3)
    violations: Vec<Value>,
    samples: Vec<Value>,
}

fn cmp_gt<V: PartialOrd>(a: &V, b: &V) -> bool {
    matches!(a.partial_cmp(b), Some(Ordering::Greater))
}

/// Enumerate every inventory (sequence with repetition) of length <= maxn over the kinds, and every query.
fn explore<V>(
    name: &str,
    versions: &[V],
    reqs: &[Vec<usize>],
    maxn: usize,
    total_order: bool,
    first_kind_filter: Option<(usize, usize)>,
    resolve_total: &dyn Fn(&Inventory<V, T2, u8>, Os, Arch, &Req<V>) -> Option<usize>,
    resolve_partial: &dyn Fn(&Inventory<V, T2, u8>, Os, Arch, &Req<V>) -> Option<usize>,
) -> Tally
where
    V: Clone + PartialOrd + PartialEq + std::fmt::Debug,
    Req<V>: ArtifactRequirement<V, u8>,
{
    // kinds: (version idx, os idx, arch idx, meta)
    let mut kinds = Vec::new();
    for v in 0..versions.len() {
        for o in 0..2 {
            for a in 0..2 {
                for m in 0..2u8 {
                    kinds.push((v, o, a, m));
                }
            }
        }
    }
    let mut tally = Tally::default();
    let nk = kinds.len();
    for n in 0..=maxn {
        let total = nk.pow(n as u32);
        for code in 0..total {
            let mut idx = Vec::with_capacity(n);
            let mut c = code;
            for _ in 0..n {
                idx.push(c % nk);
                c /= nk;
            }
            if let Some((shard, nshards)) = first_kind_filter {
                let key = if n == 0 { 0 } else { idx[0] };
                if key % nshards != shard {
                    continue;
                }
            }
            let mut inv: Inventory<V, T2, u8> = Inventory::new();
            for (pos, k) in idx.iter().enumerate() {
                let (v, o, a, m) = kinds[*k];
                inv.push(Artifact {
                    version: versions[v].clone(),
                    os: OSES[o],
                    arch: ARCHES[a],
                    url: format!("u{pos}"),
                    checksum: "t2:00ff".parse::<Checksum<T2>>().expect("checksum"),
                    metadata: m,
                });
            }
            for (qo, os) in OSES.iter().enumerate() {
                for (qa, arch) in ARCHES.iter().enumerate() {
                    for allowed in reqs {
                        for meta in [None, Some(0u8), Some(1u8)] {
                            let req = Req { allowed: allowed.iter().map(|i| versions[*i].clone()).collect(), meta };
                            // independent matching set
                            let matching: Vec<usize> = idx
                                .iter()
                                .enumerate()
                                .filter(|(_, k)| {
                                    let (v, o, a, m) = kinds[**k];
                                    o == qo && a == qa && allowed.contains(&v) && meta.is_none_or(|x| x == m)
                                })
                                .map(|(p, _)| p)
                                .collect();
                            let mut routes: Vec<(&str, Option<usize>)> = vec![("partial_resolve", resolve_partial(&inv, *os, *arch, &req))];
                            if total_order {
                                routes.push(("resolve", resolve_total(&inv, *os, *arch, &req)));
                            }
                            for (route, got) in routes {
                                tally.resolutions += 1;
                                let mut bad: Option<String> = None;
                                match got {
                                    None => {
                                        if !matching.is_empty() {
                                            bad = Some("returned nothing although artifacts match".into());
                                        }
                                    }
                                    Some(p) => {
                                        if !matching.contains(&p) {
                                            bad = Some(format!("returned artifact #{p} which does not match os/arch/requirement"));
                                        } else {
                                            let rv = &versions[kinds[idx[p]].0];
                                            for m in &matching {
                                                let mv = &versions[kinds[idx[*m]].0];
                                                if cmp_gt(mv, rv) {
                                                    bad = Some(format!("returned artifact #{p} (version {rv:?}) although matching artifact #{m} has the greater version {mv:?}"));
                                                    break;
                                                }
                                            }
                                        }
                                    }
                                }
                                // class of this case
                                let maximal = matching
                                    .iter()
                                    .filter(|m| {
                                        let mv = &versions[kinds[idx[**m]].0];
                                        !matching.iter().any(|o| cmp_gt(&versions[kinds[idx[*o]].0], mv))
                                    })
                                    .count();
                                let incomparable = matching.iter().any(|a| {
                                    matching.iter().any(|b| versions[kinds[idx[*a]].0].partial_cmp(&versions[kinds[idx[*b]].0]).is_none())
                                });
                                let respos = got.and_then(|p| matching.iter().position(|m| *m == p)).map_or(9, |x| x.min(3) as u8);
                                tally.classes.insert((matching.len().min(4) as u8, maximal.min(3) as u8, incomparable, respos));
                                let describe = || {
                                    json!({"version_type": name, "route": route,
                                        "inventory": idx.iter().map(|k| { let (v,o,a,m) = kinds[*k]; json!({"version": format!("{:?}", versions[v]), "os": OSES[o].to_string(), "arch": ARCHES[a].to_string(), "metadata": m}) }).collect::<Vec<_>>(),
                                        "query": {"os": os.to_string(), "arch": arch.to_string(), "versions_allowed": allowed.iter().map(|i| format!("{:?}", versions[*i])).collect::<Vec<_>>(), "metadata": meta},
                                        "matching_positions": matching, "returned_position": got})
                                };
                                if let Some(b) = bad {
                                    if tally.violations.len() < 5 {
                                        let mut d = describe();
                                        d["what"] = json!(b);
                                        tally.violations.push(d);
                                    }
                                } else if tally.samples.len() < 2 && matching.len() >= 3 && incomparable == !total_order {
                                    tally.samples.push(describe());
                                }
                            }
                        }
                    }
                }
            }
        }
    }
    tally
}

fn pos_of<V, D, M>(inv: &Inventory<V, D, M>, a: Option<&Artifact<V, D, M>>) -> Option<usize> {
    a.map(|a| inv.artifacts.iter().position(|x| std::ptr::eq(x, a)).expect("returned artifact is an element of the inventory"))
}

/// argv: resolve <maxn> <shard> <nshards>
pub fn resolve_bruteforce(args: &[String]) {
    let maxn: usize = args[0].parse().unwrap();
    let shard: usize = args[1].parse().unwrap();
    let nshards: usize = args[2].parse().unwrap();
    let filt = Some((shard, nshards));
    let mut out = Vec::new();

    // total order: u8
    let versions: Vec<u8> = vec![1, 2, 3];
    let reqs = vec![vec![0, 1, 2], vec![1, 2], vec![0], vec![0, 2], vec![]];
    let t = explore(
        "u8 (total order)", &versions, &reqs, maxn, true, filt,
        &|inv, os, arch, req| pos_of(inv, inv.resolve(os, arch, req)),
        &|inv, os, arch, req| pos_of(inv, inv.partial_resolve(os, arch, req)),
    );
    out.push(("u8", t));

    // semver with real VersionReq-like sets (the requirement here is a set; VersionReq itself is exercised in the toml mode)
    let versions: Vec<semver::Version> = ["1.2.3", "1.10.0", "2.0.0-rc.1"].iter().map(|s| s.parse().unwrap()).collect();
    let t = explore(
        "semver::Version", &versions, &reqs, maxn, true, filt,
        &|inv, os, arch, req| pos_of(inv, inv.resolve(os, arch, req)),
        &|inv, os, arch, req| pos_of(inv, inv.partial_resolve(os, arch, req)),
    );
    out.push(("semver", t));

    // partial order: pairs under the product order
    let versions = vec![Pair(0, 0), Pair(0, 1), Pair(1, 0), Pair(1, 1)];
    let reqs = vec![vec![0, 1, 2, 3], vec![1, 2], vec![0, 1, 2], vec![3], vec![1, 2, 3], vec![]];
    let t = explore(
        "Pair (product order, partial)", &versions, &reqs, maxn, false, filt,
        &|_, _, _, _| None,
        &|inv, os, arch, req| pos_of(inv, inv.partial_resolve(os, arch, req)),
    );
    out.push(("pair", t));

    // f32 with NaN: the doc's own example of a partial order
    let versions: Vec<f32> = vec![1.5, 2.0, f32::NAN];
    let reqs = vec![vec![0, 1, 2], vec![0, 2], vec![2], vec![]];
    let fv: Vec<F> = versions.into_iter().map(F).collect();
    let t = explore(
        "f32 with NaN", &fv, &reqs, maxn, false, filt,
        &|_, _, _, _| None,
        &|inv, os, arch, req| pos_of(inv, inv.partial_resolve(os, arch, req)),
    );
    out.push(("f32", t));

    let mut rep = json!({});
    for (k, t) in out {
        rep[k] = json!({"resolutions": t.resolutions,
            "classes": t.classes.iter().map(|c| json!([c.0, c.1, c.2, c.3])).collect::<Vec<_>>(),
            "violations": t.violations, "samples": t.samples});
    }
    println!("{rep}");
}

// ---- request mode: TOML round trip and checksum parsing ---------------------------------

#[derive(Debug, Clone, PartialEq, Eq, Serialize, Deserialize)]
struct Meta {
    tag: String,
    n: i64,
}

fn art_dump(a: &Artifact<semver::Version, sha2::Sha256, Option<Meta>>) -> Value {
    json!({"version": a.version.to_string(), "os": a.os.to_string(), "arch": a.arch.to_string(), "url": a.url,
           "checksum": format!("{}:{}", a.checksum.name, vpharness::hex(&a.checksum.value)),
           "metadata": a.metadata.as_ref().map(|m| json!({"tag": m.tag, "n": m.n}))})
}

pub fn handle(req: &Value) -> Value {
    match jstr(req, "op") {
        "roundtrip" => {
            let mut inv: Inventory<semver::Version, sha2::Sha256, Option<Meta>> = Inventory::new();
            for a in jarr(req, "artifacts") {
                inv.push(Artifact {
                    version: jstr(a, "version").parse().expect("semver"),
                    os: jstr(a, "os").parse().expect("os"),
                    arch: jstr(a, "arch").parse().expect("arch"),
                    url: jstr(a, "url").to_string(),
                    checksum: jstr(a, "checksum").parse().expect("checksum"),
                    metadata: a.get("metadata").filter(|m| !m.is_null()).map(|m| Meta { tag: jstr(m, "tag").to_string(), n: m["n"].as_i64().unwrap() }),
                });
            }
            let text = inv.to_string();
            // first a document that is refused - an entry with a malformed checksum, then one whose version (or os) is none, or a syntax
            // error -: what was refused has no part in the parse of the next document
            let n = jarr(req, "artifacts").len();
            let refused_doc = format!("[[artifacts]]\nversion = \"1.0.0\"\nos = \"linux\"\narch = \"amd64\"\nurl = \"u\"\nchecksum = \"sha256:zz\"\n\n[[artifacts]]\nversion = \"{}\"\nos = \"{}\"\narch = \"amd64\"\nurl = \"u\"\nchecksum = \"sha256:{}\"\n{}",
                                      if n % 3 == 0 { "not-a-version" } else { "1.0.0" }, if n % 3 == 1 { "plan9" } else { "linux" }, "0".repeat(64), if n % 3 == 2 { "[[artifacts\n" } else { "" });
            let refused_first = refused_doc.parse::<Inventory<semver::Version, sha2::Sha256, Option<Meta>>>().is_err();
            match text.parse::<Inventory<semver::Version, sha2::Sha256, Option<Meta>>>() {
                Ok(back) if !refused_first => { let _ = back; json!({"text": text, "parse_err": "(the malformed document parsed before this one was accepted)"}) }
                Ok(back) => {
                    let eq = back.artifacts == inv.artifacts;
                    // also resolve with a real semver::VersionReq
                    let mut res = Vec::new();
                    for q in jarr(req, "queries") {
                        let r: semver::VersionReq = jstr(q, "req").parse().expect("req");
                        let got = back.resolve(jstr(q, "os").parse().unwrap(), jstr(q, "arch").parse().unwrap(), &r);
                        res.push(got.map(|a| back.artifacts.iter().position(|x| std::ptr::eq(x, a))));
                    }
                    json!({"text": text, "eq": eq, "back": back.artifacts.iter().map(art_dump).collect::<Vec<_>>(), "resolved": res})
                }
                Err(e) => json!({"text": text, "parse_err": format!("{e}")}),
            }
        }
        "checksums" => {
            let digest = jstr(req, "digest");
            let mut out = Vec::new();
            for s in jarr(req, "items") {
                let s = s.as_str().unwrap();
                fn one<D: Digest>(s: &str) -> Value {
                    match s.parse::<Checksum<D>>() {
                        Ok(c) => {
                            let rendered = serde_json::to_value(&c).unwrap();
                            let again = rendered.as_str().unwrap().parse::<Checksum<D>>().ok().map(|c2| c2 == c);
                            json!({"ok": true, "name": c.name, "value": vpharness::hex(&c.value), "rendered": rendered, "reparse_eq": again})
                        }
                        Err(_) => json!({"ok": false}),
                    }
                }
                out.push(match digest {
                    "t2" => one::<T2>(s),
                    "sha256" => one::<sha2::Sha256>(s),
                    "sha512" => one::<sha2::Sha512>(s),
                    "unit" => one::<()>(s),
                    _ => panic!("digest"),
                });
            }
            json!({"results": out})
        }
        other => panic!("inventory: unknown op {other}"),
    }
}
