//! C14: composite package descriptor normalisation through the real package_composite_buildpack.
use libcnb_common::toml_file::read_toml_file;
use libcnb_data::buildpack::BuildpackId;
use libcnb_data::package_descriptor::PackageDescriptor;
use libcnb_package::package::package_composite_buildpack;
use serde_json::{Value, json};
use std::collections::BTreeMap;
use std::path::PathBuf;
use vpharness::{jarr, jstr};

pub fn handle(req: &Value) -> Value {
    match jstr(req, "op") {
        "composite" => {
            let mut map: BTreeMap<BuildpackId, PathBuf> = BTreeMap::new();
            for kv in jarr(req, "map") {
                let kv = kv.as_array().unwrap();
                map.insert(kv[0].as_str().unwrap().parse().expect("buildpack id"), PathBuf::from(kv[1].as_str().unwrap()));
            }
            let dest = PathBuf::from(jstr(req, "dest"));
            match package_composite_buildpack(&PathBuf::from(jstr(req, "dir")), &dest, &map) {
                Ok(()) => match read_toml_file::<PackageDescriptor>(dest.join("package.toml")) {
                    Ok(pd) => json!({"ok": true, "reread": {"buildpack": pd.buildpack.uri.to_string(),
                        "dependencies": pd.dependencies.iter().map(|d| d.uri.to_string()).collect::<Vec<_>>(),
                        "os": format!("{:?}", pd.platform.os).to_lowercase()}}),
                    Err(e) => json!({"ok": true, "reread_err": format!("{e}")}),
                },
                Err(e) => json!({"ok": false, "err": format!("{e}")}),
            }
        }
        other => panic!("pkg: unknown op {other}"),
    }
}
