//! C13: packaging order. Every labelled DAG is materialised as a directory tree of buildpacks,
//! loaded through the real `build_libcnb_buildpacks_dependency_graph`, and every ordered root
//! selection goes through the real `get_dependencies`. The judge below is brute force on the
//! adjacency matrix the generator itself drew (no petgraph, no libcnb code).
use libcnb_package::buildpack_dependency_graph::build_libcnb_buildpacks_dependency_graph;
use libcnb_package::dependency_graph::get_dependencies;
use serde_json::{Value, json};
use std::collections::BTreeSet;
use std::fs;
use std::path::{Path, PathBuf};

struct Lcg(u64);
impl Lcg {
    fn next(&mut self) -> u64 {
        self.0 = self.0.wrapping_mul(6364136223846793005).wrapping_add(1442695040888963407);
        self.0 >> 33
    }
    fn below(&mut self, n: u64) -> u64 {
        self.next() % n
    }
}

fn is_acyclic(n: usize, adj: &[Vec<bool>]) -> bool {
    // Kahn
    let mut indeg = vec![0; n];
    for i in 0..n {
        for j in 0..n {
            if adj[i][j] {
                indeg[j] += 1;
            }
        }
    }
    let mut stack: Vec<usize> = (0..n).filter(|i| indeg[*i] == 0).collect();
    let mut seen = 0;
    while let Some(i) = stack.pop() {
        seen += 1;
        for j in 0..n {
            if adj[i][j] {
                indeg[j] -= 1;
                if indeg[j] == 0 {
                    stack.push(j);
                }
            }
        }
    }
    seen == n
}

fn closure(n: usize, adj: &[Vec<bool>], roots: &[usize]) -> BTreeSet<usize> {
    let mut seen = BTreeSet::new();
    let mut stack: Vec<usize> = roots.to_vec();
    while let Some(i) = stack.pop() {
        if seen.insert(i) {
            for j in 0..n {
                if adj[i][j] {
                    stack.push(j);
                }
            }
        }
    }
    seen
}

const DIRS: [&str; 12] = ["zeta", "alpha/one", "mid", "deep/er/two", "beta", "alpha/two", "omega", "k", "deep/three", "a0", "zz/y", "m/n"];

/// sibling directories whose names are string prefixes of one another (none is nested in another)
const DIRS_PREFIX: [&str; 12] = ["bp", "bp1", "bp10", "bp1-x", "java", "java-function", "jav", "b", "bp100", "java_fn", "bp1.0", "j"];

fn id_of(i: usize) -> String {
    format!("vp/n{i}")
}

/// Writes the workspace for this DAG. `dep_order_rev`: list dependencies descending instead of ascending.
/// 0: a well-formed id that no buildpack of the workspace has; 1 / 2: `libcnb:` followed by something that is not a buildpack id at all
/// (a reserved word, a character outside the id alphabet) - a dependency that cannot be resolved either way
static DANGLING_KIND: std::sync::atomic::AtomicUsize = std::sync::atomic::AtomicUsize::new(0);

fn dangling_dependency(variant: u64) -> &'static str {
    match DANGLING_KIND.load(std::sync::atomic::Ordering::Relaxed) {
        1 => "[[dependencies]]\nuri = \"libcnb:app\"\n",
        2 => "[[dependencies]]\nuri = \"libcnb:vp/missing_one\"\n",
        _ if variant >> 2 & 1 == 1 => "[[dependencies]]\nuri = \"libcnb:vp/missing.one\"\n",
        _ => "[[dependencies]]\nuri = \"libcnb:vp/missing\"\n",
    }
}

fn materialise(root: &Path, n: usize, adj: &[Vec<bool>], variant: u64, dangling: Option<usize>) {
    fs::create_dir_all(root).unwrap();
    for i in 0..n {
        // variant bit 4: prefix-related sibling names; bit 5: every third buildpack directory is a symbolic link to a directory
        // that the walk does not see otherwise (it lives in a hidden directory)
        let names = if variant >> 4 & 1 == 1 { &DIRS_PREFIX } else { &DIRS };
        let mut d = root.join(names[(i + (variant as usize / 4 % 2) * 5) % names.len()]);
        if variant >> 5 & 1 == 1 && i % 3 == 1 {
            let real = root.join(".store").join(format!("n{i}"));
            fs::create_dir_all(&real).unwrap();
            fs::create_dir_all(d.parent().unwrap()).unwrap();
            std::os::unix::fs::symlink(&real, &d).unwrap();
            d = real;
        }
        fs::create_dir_all(&d).unwrap();
        let mut deps: Vec<usize> = (0..n).filter(|j| adj[i][*j]).collect();
        if variant & 1 == 1 {
            deps.reverse();
        }
        // variant bit 3: every second buildpack that has dependencies is a libcnb.rs *component* buildpack (Cargo.toml) that
        // declares them in its package.toml, instead of a composite
        let component_with_deps = variant >> 3 & 1 == 1 && i % 2 == 1 && (!deps.is_empty() || dangling == Some(i));
        let composite = !component_with_deps && (!deps.is_empty() || (variant >> 1 & 1 == 1 && i % 2 == 0) || dangling == Some(i));
        if component_with_deps {
            fs::write(d.join("buildpack.toml"), format!("api = \"0.10\"\n[buildpack]\nid = \"{}\"\nversion = \"1.0.0\"\n[[targets]]\nos = \"linux\"\narch = \"amd64\"\n", id_of(i))).unwrap();
            fs::write(d.join("Cargo.toml"), format!("[package]\nname = \"n{i}\"\nversion = \"0.0.0\"\n")).unwrap();
            let mut pkg = String::from("[buildpack]\nuri = \".\"\n");
            for (k, j) in deps.iter().enumerate() {
                if k % 2 == 1 {
                    pkg.push_str("[[dependencies]]\nuri = \"../relative/noise\"\n");
                }
                pkg.push_str(&format!("[[dependencies]]\nuri = \"libcnb:{}\"\n", id_of(*j)));
                if k == 0 && variant >> 9 & 1 == 1 {
                    // the same dependency listed a second time
                    pkg.push_str(&format!("[[dependencies]]\nuri = \"libcnb:{}\"\n", id_of(*j)));
                }
            }
            if dangling == Some(i) {
                pkg.push_str(dangling_dependency(variant));
            }
            fs::write(d.join("package.toml"), pkg).unwrap();
        } else if composite {
            let mut order = String::new();
            if deps.is_empty() {
                order.push_str("[[order.group]]\nid = \"vp/none\"\nversion = \"1.0.0\"\n");
            }
            // variant bit 7: two alternative [[order]] tables that share only their first group (a, b | a, c, ...): every buildpack
            // named in package.toml is a dependency, whichever alternatives mention it
            let split = variant >> 7 & 1 == 1 && deps.len() >= 2;
            for (k, j) in deps.iter().enumerate() {
                if split && k == 2.min(deps.len() - 1) {
                    order.push_str(&format!("[[order]]\n[[order.group]]\nid = \"{}\"\nversion = \"1.0.0\"\n", id_of(deps[0])));
                }
                order.push_str(&format!("[[order.group]]\nid = \"{}\"\nversion = \"1.0.0\"\n", id_of(*j)));
            }
            // variant bit 10: the order also names a buildpack of this workspace that package.toml refers to as a published image,
            // and the non-libcnb.rs buildpack next door: neither is a libcnb: dependency, so neither belongs to the closure
            let foreign_member = (0..n).find(|j| *j != i && !deps.contains(j)).filter(|_| variant >> 10 & 1 == 1);
            if variant >> 10 & 1 == 1 {
                if let Some(j) = foreign_member {
                    order.push_str(&format!("[[order.group]]\nid = \"{}\"\nversion = \"1.0.0\"\n", id_of(j)));
                }
                order.push_str("[[order.group]]\nid = \"vp/other\"\nversion = \"1.0.0\"\noptional = true\n");
            }
            fs::write(d.join("buildpack.toml"), format!("api = \"0.10\"\n[buildpack]\nid = \"{}\"\nversion = \"1.0.0\"\n[[order]]\n{order}", id_of(i))).unwrap();
            let mut pkg = String::from("[buildpack]\nuri = \".\"\n");
            if let Some(j) = foreign_member {
                pkg.push_str(&format!("[[dependencies]]\nuri = \"docker://docker.io/vp/n{j}:1.0.0\"\n"));
            }
            for (k, j) in deps.iter().enumerate() {
                if k % 2 == 0 {
                    pkg.push_str("[[dependencies]]\nuri = \"docker://docker.io/heroku/procfile-cnb:2.0.1\"\n");
                }
                pkg.push_str(&format!("[[dependencies]]\nuri = \"libcnb:{}\"\n", id_of(*j)));
                if k == 0 && variant >> 9 & 1 == 1 {
                    // the same dependency listed a second time
                    pkg.push_str(&format!("[[dependencies]]\nuri = \"libcnb:{}\"\n", id_of(*j)));
                }
            }
            if dangling == Some(i) {
                pkg.push_str(dangling_dependency(variant));
            }
            pkg.push_str("[[dependencies]]\nuri = \"../some/relative/path\"\n[[dependencies]]\nuri = \"urn:cnb:registry:heroku/nodejs@1.2.3\"\n");
            fs::write(d.join("package.toml"), pkg).unwrap();
            // variant bit 6: the composite's directory also holds a Cargo.toml (a meta buildpack at a Cargo workspace root)
            if variant >> 6 & 1 == 1 {
                fs::write(d.join("Cargo.toml"), "[workspace]\nmembers = []\n").unwrap();
            }
        } else {
            fs::write(d.join("buildpack.toml"), format!("api = \"0.10\"\n[buildpack]\nid = \"{}\"\nversion = \"1.0.0\"\n[[targets]]\nos = \"linux\"\narch = \"amd64\"\n", id_of(i))).unwrap();
            fs::write(d.join("Cargo.toml"), format!("[package]\nname = \"n{i}\"\nversion = \"0.0.0\"\n")).unwrap();
            if variant >> 1 & 1 == 1 {
                fs::write(d.join("package.toml"), "[buildpack]\nuri = \".\"\n").unwrap();
            }
        }
    }
    // noise: a component buildpack that is not a libcnb.rs one (no Cargo.toml) and a directory without buildpack.toml
    let other = root.join("other-bp");
    fs::create_dir_all(&other).unwrap();
    fs::write(other.join("buildpack.toml"), "api = \"0.10\"\n[buildpack]\nid = \"vp/other\"\nversion = \"1.0.0\"\n").unwrap();
    fs::create_dir_all(root.join("not-a-buildpack/src")).unwrap();
    // variant bit 8: directories whose buildpack.toml does not parse, sorting before and between the real ones: passed over
    if variant >> 8 & 1 == 1 {
        for name in ["0-broken", "a-broken/inner", "deep/0-broken", "zzz-broken"] {
            let d = root.join(name);
            fs::create_dir_all(&d).unwrap();
            fs::write(d.join("buildpack.toml"), "api = \"0.10\"\n[buildpack\nid = ").unwrap();
            fs::write(d.join("Cargo.toml"), "[package]\nname = \"broken\"\nversion = \"0.0.0\"\n").unwrap();
        }
    }
    // a second foreign buildpack at the directory the NEXT larger workspace uses for a real node (matters where a path is re-used)
    if n < 12 {
        let names = if variant >> 4 & 1 == 1 { &DIRS_PREFIX } else { &DIRS };
        let next = root.join(names[(n + (variant as usize / 4 % 2) * 5) % names.len()]);
        if !next.exists() {
            fs::create_dir_all(&next).unwrap();
            fs::write(next.join("buildpack.toml"), "api = \"0.10\"\n[buildpack]\nid = \"vp/other2\"\nversion = \"1.0.0\"\n").unwrap();
        }
    }
}

fn selections(n: usize, limit: Option<(usize, &mut Lcg)>) -> Vec<Vec<usize>> {
    let mut out = Vec::new();
    match limit {
        None => {
            // every non-empty ordered selection without repetition
            fn rec(n: usize, cur: &mut Vec<usize>, out: &mut Vec<Vec<usize>>) {
                if !cur.is_empty() {
                    out.push(cur.clone());
                }
                for i in 0..n {
                    if !cur.contains(&i) {
                        cur.push(i);
                        rec(n, cur, out);
                        cur.pop();
                    }
                }
            }
            rec(n, &mut Vec::new(), &mut out);
        }
        Some((count, rng)) => {
            for _ in 0..count {
                let k = 1 + rng.below(n.min(5) as u64) as usize;
                let mut sel = Vec::new();
                while sel.len() < k {
                    let x = rng.below(n as u64) as usize;
                    if !sel.contains(&x) {
                        sel.push(x);
                    }
                }
                out.push(sel);
            }
        }
    }
    out
}

#[derive(Default)]
struct Tally {
    dags: u64,
    orderings: u64,
    shapes: BTreeSet<(Vec<(usize, usize)>, usize)>,
    violations: Vec<Value>,
    samples: Vec<Value>,
}

fn check_dag(root: &Path, n: usize, adj: &[Vec<bool>], variant: u64, sels: &[Vec<usize>], tally: &mut Tally) {
    materialise(root, n, adj, variant, None);
    let edges: Vec<(usize, usize)> = (0..n).flat_map(|i| (0..n).filter(move |j| adj[i][*j]).map(move |j| (i, j))).collect();
    let describe = |extra: Value| json!({"nodes": n, "edges": edges, "variant": variant, "detail": extra});
    let graph = match build_libcnb_buildpacks_dependency_graph(root) {
        Ok(g) => g,
        Err(e) => {
            if tally.violations.len() < 5 {
                tally.violations.push(json!({"sig": "load-error", "what": format!("acyclic workspace rejected: {e}"), "case": describe(json!(null))}));
            }
            let _ = fs::remove_dir_all(root);
            return;
        }
    };
    tally.dags += 1;
    let nodes: Vec<_> = graph.node_weights().collect();
    let mut ids: Vec<String> = nodes.iter().map(|x| x.buildpack_id.to_string()).collect();
    ids.sort();
    let mut want_ids: Vec<String> = (0..n).map(id_of).collect();
    want_ids.sort();
    if ids != want_ids {
        if tally.violations.len() < 5 {
            tally.violations.push(json!({"sig": "load-nodes", "what": format!("graph holds buildpacks {ids:?}, workspace has {want_ids:?}"), "case": describe(json!(null))}));
        }
        let _ = fs::remove_dir_all(root);
        return;
    }
    let mut degs: Vec<(usize, usize)> = (0..n).map(|i| ((0..n).filter(|j| adj[*j][i]).count(), (0..n).filter(|j| adj[i][*j]).count())).collect();
    degs.sort_unstable();
    for sel in sels {
        tally.orderings += 1;
        let roots: Vec<_> = sel.iter().map(|i| *nodes.iter().find(|x| x.buildpack_id.as_str() == id_of(*i)).expect("root present")).collect();
        let got = match get_dependencies(&graph, &roots) {
            Ok(o) => o,
            Err(e) => {
                if tally.violations.len() < 5 {
                    tally.violations.push(json!({"sig": "order-error", "what": format!("get_dependencies failed: {e}"), "case": describe(json!({"roots": sel}))}));
                }
                continue;
            }
        };
        let order: Vec<usize> = got.iter().map(|x| x.buildpack_id.as_str().trim_start_matches("vp/n").parse::<usize>().unwrap()).collect();
        let want = closure(n, adj, sel);
        let got_set: BTreeSet<usize> = order.iter().copied().collect();
        let mut bad: Option<(&str, String)> = None;
        if got_set.len() != order.len() {
            bad = Some(("duplicate", format!("a buildpack appears twice in the build order {order:?}")));
        } else if got_set != want {
            bad = Some(("closure", format!("build order {order:?} is not exactly the selected buildpacks and their transitive dependencies {want:?}")));
        } else {
            'o: for (pos, i) in order.iter().enumerate() {
                for j in 0..n {
                    if adj[*i][j] && !order[..pos].contains(&j) {
                        bad = Some(("dependency-after", format!("n{i} is ordered before its dependency n{j} in {order:?}")));
                        break 'o;
                    }
                }
            }
        }
        if let Some((sig, what)) = bad {
            if tally.violations.len() < 5 {
                tally.violations.push(json!({"sig": sig, "what": what, "case": describe(json!({"roots": sel, "order": order}))}));
            }
        } else if edges.len() >= n && sel.len() >= 2 {
            tally.shapes.insert((degs.clone(), sel.len()));
            if tally.samples.len() < 2 && n >= 4 {
                tally.samples.push(describe(json!({"roots": sel, "observed_order": order})));
            }
        }
    }
    let _ = fs::remove_dir_all(root);
}

/// argv: depgraph <maxn> <shard> <nshards> <workdir> <nrandom> <seed>
pub fn run(args: &[String]) {
    let maxn: usize = args[0].parse().unwrap();
    let shard: u64 = args[1].parse().unwrap();
    let nshards: u64 = args[2].parse().unwrap();
    let work = PathBuf::from(&args[3]);
    let nrandom: u64 = args[4].parse().unwrap();
    let seed: u64 = args[5].parse().unwrap();
    let mut tally = Tally::default();
    let mut counter: u64 = 0;
    // exhaustive part
    for n in 1..=maxn {
        let pairs: Vec<(usize, usize)> = (0..n).flat_map(|i| (0..n).filter(move |j| *j != i).map(move |j| (i, j))).collect();
        let sels = selections(n, None);
        for mask in 0..(1u64 << pairs.len()) {
            let mut adj = vec![vec![false; n]; n];
            for (b, (i, j)) in pairs.iter().enumerate() {
                if mask >> b & 1 == 1 {
                    adj[*i][*j] = true;
                }
            }
            if !is_acyclic(n, &adj) {
                continue;
            }
            counter += 1;
            if counter % nshards != shard {
                continue;
            }
            let variant = ((counter.wrapping_mul(0x9E37_79B9_7F4A_7C15) >> 40) + seed) % 2048;
            // every third graph is laid out at one and the same path (removed and rebuilt in between): nothing learnt about a path
            // while loading an earlier workspace may leak into the next
            let root = if counter % 3 == 0 { work.join("reused") } else { work.join(format!("d{counter}")) };
            check_dag(&root, n, &adj, variant, &sels, &mut tally);
        }
    }
    let exhaustive_dags = tally.dags;
    // random larger DAGs
    let mut rng = Lcg(seed.wrapping_mul(1000003).wrapping_add(shard));
    for r in 0..nrandom {
        if r % nshards != shard {
            continue;
        }
        let n = 6 + rng.below(7) as usize;
        // random topological labelling so that edges do not follow index order
        let mut perm: Vec<usize> = (0..n).collect();
        for i in (1..n).rev() {
            perm.swap(i, rng.below(i as u64 + 1) as usize);
        }
        let mut adj = vec![vec![false; n]; n];
        let density = 1 + rng.below(4);
        for a in 0..n {
            for b in (a + 1)..n {
                if rng.below(6) < density {
                    adj[perm[a]][perm[b]] = true;
                }
            }
        }
        let sels = selections(n, Some((40, &mut rng)));
        let root = if r % 2 == 0 { work.join("reused") } else { work.join(format!("r{r}")) };
        check_dag(&root, n, &adj, rng.below(2048), &sels, &mut tally);
    }
    // dangling dependency
    let mut dangling_checked = 0;
    let mut dangling_with_unseen_namesake = 0;
    for r in 0..(nrandom / 4).max(8) {
        if r % nshards != shard {
            continue;
        }
        let n = 2 + rng.below(4) as usize;
        let mut adj = vec![vec![false; n]; n];
        for a in 0..n {
            for b in (a + 1)..n {
                if rng.below(2) == 0 {
                    adj[a][b] = true;
                }
            }
        }
        let who = rng.below(n as u64) as usize;
        let root = work.join(format!("m{r}"));
        let kind = (r / nshards % 3) as usize;
        DANGLING_KIND.store(kind, std::sync::atomic::Ordering::Relaxed);
        materialise(&root, n, &adj, rng.below(2048), Some(who));
        DANGLING_KIND.store(0, std::sync::atomic::Ordering::Relaxed);
        dangling_checked += 1;
        if kind == 0 && r / nshards / 3 % 2 == 1 {
            // a buildpack with the missing id exists - where the workspace's buildpacks are not looked for: in a hidden directory and in one the
            // workspace's ignore file names (packaged output, vendored copies). It is not a buildpack of this workspace: the dependency dangles
            for (k, d) in [root.join(".vendor/missing"), root.join("packaged/missing")].iter().enumerate() {
                fs::create_dir_all(d).unwrap();
                if k == 0 {
                    fs::write(d.join("buildpack.toml"), "api = \"0.10\"\n[buildpack]\nid = \"vp/missing\"\nversion = \"1.0.0\"\n[[order]]\n[[order.group]]\nid = \"vp/none\"\nversion = \"1.0.0\"\n").unwrap();
                    fs::write(d.join("package.toml"), "[buildpack]\nuri = \".\"\n").unwrap();
                } else {
                    fs::write(d.join("buildpack.toml"), "api = \"0.10\"\n[buildpack]\nid = \"vp/missing\"\nversion = \"1.0.0\"\n[[targets]]\nos = \"linux\"\narch = \"amd64\"\n").unwrap();
                    fs::write(d.join("Cargo.toml"), "[package]\nname = \"missing\"\nversion = \"0.0.0\"\n").unwrap();
                }
            }
            fs::write(root.join(".ignore"), "packaged/\n").unwrap();
            dangling_with_unseen_namesake += 1;
        }
        match build_libcnb_buildpacks_dependency_graph(&root) {
            Ok(_) => {
                if tally.violations.len() < 5 {
                    tally.violations.push(json!({"sig": format!("dangling-accepted:{kind}"), "what": format!("workspace in which n{who} depends on {} was accepted", ["the unknown buildpack vp/missing", "`libcnb:app` (a reserved word, not a buildpack id)", "`libcnb:vp/missing_one` ('_' is not an id character)"][kind]), "case": json!({"nodes": n, "dangling_in": who, "kind": kind})}));
                }
            }
            Err(e) => {
                let msg = format!("{e}");
                if kind == 0 && !msg.contains("vp/missing") && tally.violations.len() < 5 {
                    tally.violations.push(json!({"sig": "dangling-unnamed", "what": format!("error for a dangling dependency does not name it: {msg}"), "case": json!({"nodes": n, "dangling_in": who})}));
                }
            }
        }
        let _ = fs::remove_dir_all(&root);
    }
    println!(
        "{}",
        json!({"dags": tally.dags, "exhaustive_dags": exhaustive_dags, "orderings": tally.orderings, "dangling_checked": dangling_checked, "dangling_with_unseen_namesake": dangling_with_unseen_namesake,
               "shapes": tally.shapes.iter().map(|(d, k)| json!([d, k])).collect::<Vec<_>>(), "violations": tally.violations, "samples": tally.samples})
    );
}
