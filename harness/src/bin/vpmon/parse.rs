//! Parsing executor for identifiers and versions (C09).
use libcnb_data::buildpack::{BuildpackApi, BuildpackId, BuildpackVersion};
use libcnb_data::exec_d::ExecDProgramOutputKey;
use libcnb_data::launch::ProcessType;
use libcnb_data::layer::LayerName;
use serde::Deserialize;
use serde_json::{Value, json};
use std::fmt::Display;
use std::ops::Deref;
use std::str::FromStr;
use vpharness::{hex, jarr, jstr, unhex};

#[derive(Deserialize)]
struct Doc<T> {
    v: T,
}

fn newtype_routes<T>(s: &str, doc: &str) -> Value
where
    T: FromStr + Display + serde::Serialize + Deref<Target = String> + for<'de> Deserialize<'de> + Clone + Eq + std::borrow::Borrow<str> + std::borrow::Borrow<String> + AsRef<String>,
{
    let parse = match s.parse::<T>() {
        Ok(v) => {
            let ser = serde_json::to_value(&v).expect("serialize");
            // the other public views of the same value, and the TOML serialisation (the format libcnb writes)
            #[derive(serde::Serialize)]
            struct Out<'a, T> {
                v: &'a T,
            }
            let toml_ser = toml::to_string(&Out { v: &v }).ok().and_then(|d| d.parse::<toml::Table>().ok()).and_then(|t| t.get("v").and_then(|x| x.as_str().map(String::from)));
            let bs: &str = v.borrow();
            let bst: &String = v.borrow();
            let ar: &String = v.as_ref();
            let c = v.clone();
            json!({"ok": true, "display": hex(v.to_string().as_bytes()), "deref": hex(v.deref().as_bytes()),
                   "ser": hex(ser.as_str().expect("serialises as string").as_bytes()),
                   "borrow_str": hex(bs.as_bytes()), "borrow_string": hex(bst.as_bytes()), "as_ref": hex(ar.as_bytes()), "clone": hex(c.to_string().as_bytes()),
                   "clone_eq": c == v, "toml_ser": toml_ser.map(|x| hex(x.as_bytes()))})
        }
        Err(_) => json!({"ok": false}),
    };
    let de = match toml::from_str::<Doc<T>>(doc) {
        Ok(d) => json!({"ok": true, "display": hex(d.v.to_string().as_bytes())}),
        Err(_) => json!({"ok": false}),
    };
    json!({"parse": parse, "toml": de})
}

fn version_routes(s: &str, doc: &str) -> Value {
    let parse = match BuildpackVersion::try_from(s.to_string()) {
        Ok(v) => {
            let shown = v.to_string();
            let again = BuildpackVersion::try_from(shown.clone()).ok().map(|w| w == v);
            json!({"ok": true, "display": hex(shown.as_bytes()), "fields": [v.major, v.minor, v.patch], "reparse_eq": again})
        }
        Err(_) => json!({"ok": false}),
    };
    let de = match toml::from_str::<Doc<BuildpackVersion>>(doc) {
        Ok(d) => json!({"ok": true, "display": hex(d.v.to_string().as_bytes())}),
        Err(_) => json!({"ok": false}),
    };
    json!({"parse": parse, "toml": de})
}

fn api_routes(s: &str, doc: &str) -> Value {
    let parse = match BuildpackApi::try_from(s.to_string()) {
        Ok(v) => {
            let shown = v.to_string();
            let again = BuildpackApi::try_from(shown.clone()).ok().map(|w| w == v);
            json!({"ok": true, "display": hex(shown.as_bytes()), "fields": [v.major, v.minor], "reparse_eq": again})
        }
        Err(_) => json!({"ok": false}),
    };
    let de = match toml::from_str::<Doc<BuildpackApi>>(doc) {
        Ok(d) => json!({"ok": true, "display": hex(d.v.to_string().as_bytes())}),
        Err(_) => json!({"ok": false}),
    };
    json!({"parse": parse, "toml": de})
}

pub fn handle(req: &Value) -> Value {
    match jstr(req, "op") {
        // items: [[hex utf-8 string, hex toml document `v = "..."`], ...]
        "batch" => {
            let ty = jstr(req, "type");
            let mut out = Vec::new();
            for it in jarr(req, "items") {
                let it = it.as_array().unwrap();
                let s = String::from_utf8(unhex(it[0].as_str().unwrap())).expect("utf8 input");
                let doc = String::from_utf8(unhex(it[1].as_str().unwrap())).expect("utf8 doc");
                out.push(match ty {
                    "layer_name" => newtype_routes::<LayerName>(&s, &doc),
                    "process_type" => newtype_routes::<ProcessType>(&s, &doc),
                    "buildpack_id" => newtype_routes::<BuildpackId>(&s, &doc),
                    "exec_key" => newtype_routes::<ExecDProgramOutputKey>(&s, &doc),
                    "version" => version_routes(&s, &doc),
                    "api" => api_routes(&s, &doc),
                    _ => panic!("type {ty}"),
                });
            }
            json!({"results": out})
        }
        // the same strings parsed from several threads at once: every thread must get the single-threaded verdict for every string
        "batch_mt" => {
            let ty = jstr(req, "type").to_string();
            let items: Vec<String> = jarr(req, "items").iter().map(|x| String::from_utf8(unhex(x.as_str().unwrap())).expect("utf8")).collect();
            fn accepts(ty: &str, s: &str) -> bool {
                match ty {
                    "layer_name" => s.parse::<LayerName>().is_ok(),
                    "process_type" => s.parse::<ProcessType>().is_ok(),
                    "buildpack_id" => s.parse::<BuildpackId>().is_ok(),
                    "exec_key" => s.parse::<ExecDProgramOutputKey>().is_ok(),
                    "version" => BuildpackVersion::try_from(s.to_string()).is_ok(),
                    _ => BuildpackApi::try_from(s.to_string()).is_ok(),
                }
            }
            let single: Vec<bool> = items.iter().map(|s| accepts(&ty, s)).collect();
            let threads = req["threads"].as_u64().unwrap_or(8) as usize;
            let rounds = req["rounds"].as_u64().unwrap_or(3) as usize;
            let mut diffs: Vec<Value> = Vec::new();
            std::thread::scope(|sc| {
                let hs: Vec<_> = (0..threads)
                    .map(|t| {
                        let (items, single, ty) = (&items, &single, &ty);
                        sc.spawn(move || {
                            let mut bad = Vec::new();
                            for _ in 0..rounds {
                                for (i, s) in items.iter().enumerate() {
                                    if accepts(ty, s) != single[i] && bad.len() < 3 {
                                        bad.push((t, i));
                                    }
                                }
                            }
                            bad
                        })
                    })
                    .collect();
                for h in hs {
                    for (t, i) in h.join().unwrap() {
                        diffs.push(json!({"thread": t, "input": hex(items[i].as_bytes()), "single_threaded": single[i]}));
                    }
                }
            });
            json!({"single": single, "diffs": diffs, "parses": threads * rounds * items.len()})
        }
        // Display of constructed versions: triples -> display -> parse back
        "version_display" => {
            let mut out = Vec::new();
            for t in jarr(req, "triples") {
                let t = t.as_array().unwrap();
                let v = BuildpackVersion::new(t[0].as_u64().unwrap(), t[1].as_u64().unwrap(), t[2].as_u64().unwrap());
                let shown = v.to_string();
                let back = BuildpackVersion::try_from(shown.clone()).ok().map(|w| [w.major, w.minor, w.patch]);
                out.push(json!({"display": shown, "back": back}));
            }
            json!({"results": out})
        }
        "api_display" => {
            let mut out = Vec::new();
            for t in jarr(req, "pairs") {
                let t = t.as_array().unwrap();
                let v = BuildpackApi { major: t[0].as_u64().unwrap(), minor: t[1].as_u64().unwrap() };
                let shown = v.to_string();
                let back = BuildpackApi::try_from(shown.clone()).ok().map(|w| [w.major, w.minor]);
                out.push(json!({"display": shown, "back": back}));
            }
            json!({"results": out})
        }
        "docs" => handle_docs(req),
        other => panic!("parse: unknown op {other}"),
    }
}

// ---- C08: whole documents ------------------------------------------------------------------

use libcnb_data::buildpack::{Buildpack, BuildpackDescriptor, BuildpackTarget, ComponentBuildpackDescriptor, CompositeBuildpackDescriptor, Order, Stack};
use libcnb_data::buildpack_plan::BuildpackPlan;
use libcnb_data::generic::GenericMetadata;
use libcnb_data::launch::{Launch, WorkingDirectory};
use libcnb_data::layer_content_metadata::LayerContentMetadata;
use libcnb_data::package_descriptor::PackageDescriptor;
use libcnb_data::store::Store;
use vpharness::toml_to_json;

fn md_dump(m: &GenericMetadata) -> Value {
    m.as_ref().map_or(Value::Null, |t| toml_to_json(&toml::Value::Table(t.clone())))
}

fn bp_dump(b: &Buildpack) -> Value {
    let mut sbom: Vec<String> = b.sbom_formats.iter().map(|f| serde_json::to_value(f).unwrap().as_str().unwrap().to_string()).collect();
    sbom.sort();
    json!({"id": b.id.as_str(), "name": b.name, "version": [b.version.major, b.version.minor, b.version.patch], "homepage": b.homepage,
           "clear-env": b.clear_env, "description": b.description, "keywords": b.keywords,
           "licenses": b.licenses.iter().map(|l| json!({"type": l.r#type, "uri": l.uri})).collect::<Vec<_>>(), "sbom-formats": sbom})
}

fn stacks_dump(s: &[Stack]) -> Value {
    json!(s.iter().map(|s| json!({"id": s.id, "mixins": s.mixins})).collect::<Vec<_>>())
}

fn targets_dump(t: &[BuildpackTarget]) -> Value {
    json!(t.iter().map(|t| json!({"os": t.os, "arch": t.arch, "variant": t.variant,
        "distros": t.distros.iter().map(|d| json!({"name": d.name, "version": d.version})).collect::<Vec<_>>()})).collect::<Vec<_>>())
}

fn order_dump(o: &[Order]) -> Value {
    json!(o.iter().map(|o| o.group.iter().map(|g| json!({"id": g.id.as_str(), "version": [g.version.major, g.version.minor, g.version.patch], "optional": g.optional})).collect::<Vec<_>>()).collect::<Vec<_>>())
}

fn component_dump(d: &ComponentBuildpackDescriptor) -> Value {
    json!({"kind": "component", "api": [d.api.major, d.api.minor], "buildpack": bp_dump(&d.buildpack), "stacks": stacks_dump(&d.stacks),
           "targets": targets_dump(&d.targets), "metadata": md_dump(&d.metadata)})
}

fn composite_dump(d: &CompositeBuildpackDescriptor) -> Value {
    json!({"kind": "composite", "api": [d.api.major, d.api.minor], "buildpack": bp_dump(&d.buildpack), "order": order_dump(&d.order), "metadata": md_dump(&d.metadata)})
}

/// `file`: parse through libcnb's read_toml_file on that file (which holds `text`) instead of toml::from_str on the text
fn parse_doc(ty: &str, text: &str, file: Option<&str>) -> Result<Value, String> {
    fn e<E: std::fmt::Display>(x: E) -> String {
        format!("{x}")
    }
    fn rd<T: serde::de::DeserializeOwned>(text: &str, file: Option<&str>) -> Result<T, String> {
        match file {
            Some(p) => libcnb_common::toml_file::read_toml_file::<T>(p).map_err(e),
            None => toml::from_str::<T>(text).map_err(e),
        }
    }
    Ok(match ty {
        "buildpack_descriptor" => match rd::<BuildpackDescriptor>(text, file)? {
            BuildpackDescriptor::Component(d) => component_dump(&d),
            BuildpackDescriptor::Composite(d) => composite_dump(&d),
        },
        "component" => component_dump(&rd::<ComponentBuildpackDescriptor>(text, file)?),
        "composite" => composite_dump(&rd::<CompositeBuildpackDescriptor>(text, file)?),
        "buildpack_plan" => {
            let p = rd::<BuildpackPlan>(text, file)?;
            json!({"entries": p.entries.iter().map(|x| json!({"name": x.name, "metadata": toml_to_json(&toml::Value::Table(x.metadata.clone()))})).collect::<Vec<_>>()})
        }
        "layer_toml" => {
            let l = rd::<LayerContentMetadata>(text, file)?;
            json!({"types": l.types.map(|t| json!({"launch": t.launch, "build": t.build, "cache": t.cache})), "metadata": md_dump(&l.metadata)})
        }
        "launch" => {
            let l = rd::<Launch>(text, file)?;
            json!({"processes": l.processes.iter().map(|p| json!({"type": p.r#type.as_str(), "command": p.command, "args": p.args, "default": p.default,
                        "working-dir": match &p.working_directory { WorkingDirectory::App => Value::Null, WorkingDirectory::Directory(d) => json!(d.to_string_lossy()) }})).collect::<Vec<_>>(),
                   "labels": l.labels.iter().map(|x| json!({"key": x.key, "value": x.value})).collect::<Vec<_>>(),
                   "slices": l.slices.iter().map(|s| json!({"paths": s.path_globs})).collect::<Vec<_>>()})
        }
        "store" => {
            let s = rd::<Store>(text, file)?;
            json!({"metadata": toml_to_json(&toml::Value::Table(s.metadata))})
        }
        "package" => {
            let p = rd::<PackageDescriptor>(text, file)?;
            json!({"buildpack": {"uri": p.buildpack.uri.to_string()}, "dependencies": p.dependencies.iter().map(|d| json!({"uri": d.uri.to_string()})).collect::<Vec<_>>(),
                   "platform": {"os": format!("{:?}", p.platform.os).to_lowercase()}})
        }
        _ => panic!("doc type {ty}"),
    })
}

/// {"op":"docs","items":[[type, text, via_file(bool)], ...], "tmp": path}
pub fn handle_docs(req: &Value) -> Value {
    let tmp = jstr(req, "tmp");
    let mut out = Vec::new();
    for it in jarr(req, "items") {
        let it = it.as_array().unwrap();
        let ty = it[0].as_str().unwrap();
        let text = it[1].as_str().unwrap();
        // route: the text through toml::from_str, or a real file through read_toml_file (what the runtime and the packaging code use)
        let via_file = it[2].as_bool().unwrap_or(false);
        if via_file {
            std::fs::write(tmp, text).unwrap();
        }
        let r = parse_doc(ty, text, via_file.then_some(tmp));
        out.push(match &r {
            Ok(v) => json!({"ok": true, "value": v}),
            Err(e) => json!({"ok": false, "err": e}),
        });
    }
    json!({"results": out})
}
