//! Parsing executor for identifiers and versions (C09).
use libcnb_data::buildpack::{BuildpackApi, BuildpackId, BuildpackVersion};
use libcnb_data::exec_d::ExecDProgramOutputKey;
use libcnb_data::launch::ProcessType;
use libcnb_data::layer::LayerName;
use serde::Deserialize;
use serde_json::{Value, json};
use std::fmt::Display;
use std::ops::Deref;
use std::str::FromStr;
use vpharness::{hex, jarr, jstr, unhex};

#[derive(Deserialize)]
struct Doc<T> {
    v: T,
}

fn newtype_routes<T>(s: &str, doc: &str) -> Value
where
    T: FromStr + Display + serde::Serialize + Deref<Target = String> + for<'de> Deserialize<'de>,
{
    let parse = match s.parse::<T>() {
        Ok(v) => {
            let ser = serde_json::to_value(&v).expect("serialize");
            json!({"ok": true, "display": hex(v.to_string().as_bytes()), "deref": hex(v.deref().as_bytes()),
                   "ser": hex(ser.as_str().expect("serialises as string").as_bytes())})
        }
        Err(_) => json!({"ok": false}),
    };
    let de = match toml::from_str::<Doc<T>>(doc) {
        Ok(d) => json!({"ok": true, "display": hex(d.v.to_string().as_bytes())}),
        Err(_) => json!({"ok": false}),
    };
    json!({"parse": parse, "toml": de})
}

fn version_routes(s: &str, doc: &str) -> Value {
    let parse = match BuildpackVersion::try_from(s.to_string()) {
        Ok(v) => {
            let shown = v.to_string();
            let again = BuildpackVersion::try_from(shown.clone()).ok().map(|w| w == v);
            json!({"ok": true, "display": hex(shown.as_bytes()), "fields": [v.major, v.minor, v.patch], "reparse_eq": again})
        }
        Err(_) => json!({"ok": false}),
    };
    let de = match toml::from_str::<Doc<BuildpackVersion>>(doc) {
        Ok(d) => json!({"ok": true, "display": hex(d.v.to_string().as_bytes())}),
        Err(_) => json!({"ok": false}),
    };
    json!({"parse": parse, "toml": de})
}

fn api_routes(s: &str, doc: &str) -> Value {
    let parse = match BuildpackApi::try_from(s.to_string()) {
        Ok(v) => {
            let shown = v.to_string();
            let again = BuildpackApi::try_from(shown.clone()).ok().map(|w| w == v);
            json!({"ok": true, "display": hex(shown.as_bytes()), "fields": [v.major, v.minor], "reparse_eq": again})
        }
        Err(_) => json!({"ok": false}),
    };
    let de = match toml::from_str::<Doc<BuildpackApi>>(doc) {
        Ok(d) => json!({"ok": true, "display": hex(d.v.to_string().as_bytes())}),
        Err(_) => json!({"ok": false}),
    };
    json!({"parse": parse, "toml": de})
}

pub fn handle(req: &Value) -> Value {
    match jstr(req, "op") {
        // items: [[hex utf-8 string, hex toml document `v = "..."`], ...]
        "batch" => {
            let ty = jstr(req, "type");
            let mut out = Vec::new();
            for it in jarr(req, "items") {
                let it = it.as_array().unwrap();
                let s = String::from_utf8(unhex(it[0].as_str().unwrap())).expect("utf8 input");
                let doc = String::from_utf8(unhex(it[1].as_str().unwrap())).expect("utf8 doc");
                out.push(match ty {
                    "layer_name" => newtype_routes::<LayerName>(&s, &doc),
                    "process_type" => newtype_routes::<ProcessType>(&s, &doc),
                    "buildpack_id" => newtype_routes::<BuildpackId>(&s, &doc),
                    "exec_key" => newtype_routes::<ExecDProgramOutputKey>(&s, &doc),
                    "version" => version_routes(&s, &doc),
                    "api" => api_routes(&s, &doc),
                    _ => panic!("type {ty}"),
                });
            }
            json!({"results": out})
        }
        // Display of constructed versions: triples -> display -> parse back
        "version_display" => {
            let mut out = Vec::new();
            for t in jarr(req, "triples") {
                let t = t.as_array().unwrap();
                let v = BuildpackVersion::new(t[0].as_u64().unwrap(), t[1].as_u64().unwrap(), t[2].as_u64().unwrap());
                let shown = v.to_string();
                let back = BuildpackVersion::try_from(shown.clone()).ok().map(|w| [w.major, w.minor, w.patch]);
                out.push(json!({"display": shown, "back": back}));
            }
            json!({"results": out})
        }
        "api_display" => {
            let mut out = Vec::new();
            for t in jarr(req, "pairs") {
                let t = t.as_array().unwrap();
                let v = BuildpackApi { major: t[0].as_u64().unwrap(), minor: t[1].as_u64().unwrap() };
                let shown = v.to_string();
                let back = BuildpackApi::try_from(shown.clone()).ok().map(|w| [w.major, w.minor]);
                out.push(json!({"display": shown, "back": back}));
            }
            json!({"results": out})
        }
        other => panic!("parse: unknown op {other}"),
    }
}
