//! C01 / C02 / C11 / C12 / C20: scripted layer requests against the real BuildContext API.
//! Stateful: LayerRefs obtained by earlier requests are kept so that later steps can write through them.
use crate::env::layer_env_from;
use libcnb::build::{BuildContext, BuildResult};
use libcnb::data::buildpack_plan::BuildpackPlan;
use libcnb::data::layer::LayerName;
use libcnb::data::layer_content_metadata::LayerTypes;
use libcnb::data::sbom::SbomFormat;
use libcnb::detect::{DetectContext, DetectResult};
use libcnb::generic::{GenericMetadata, GenericPlatform};
use libcnb::layer::{
    CachedLayerDefinition, EmptyLayerCause, ExistingLayerStrategy, InvalidMetadataAction, Layer, LayerData, LayerRef, LayerResult, LayerResultBuilder,
    LayerState, MetadataMigration, RestoredLayerAction, UncachedLayerDefinition,
};
use libcnb::layer_env::Scope;
use libcnb::sbom::Sbom;
use libcnb::{Buildpack, Env, Target};
use serde::{Deserialize, Serialize};
use serde_json::{Value, json};
use std::cell::RefCell;
use std::collections::HashMap;
use std::path::{Path, PathBuf};
use vpharness::{jarr, jbool, jstr, toml_table_from_json, toml_to_json, unhex};

#[derive(Debug)]
#[allow(dead_code)]
pub struct TErr(pub String);

pub struct TB;
impl Buildpack for TB {
    type Platform = GenericPlatform;
    type Metadata = GenericMetadata;
    type Error = TErr;
    fn detect(&self, _: DetectContext<Self>) -> libcnb::Result<DetectResult, TErr> {
        unimplemented!()
    }
    fn build(&self, _: BuildContext<Self>) -> libcnb::Result<BuildResult, TErr> {
        unimplemented!()
    }
}

#[derive(Serialize, Deserialize, Clone, Debug)]
struct Typed {
    version: String,
    /// as buildpack authors write them: an unordered map. The harness never fills it; it is populated only by parsing a layer's
    /// restored metadata - and a layer that is merely *kept* has to keep the file it was restored with
    #[serde(default, skip_serializing_if = "HashMap::is_empty")]
    labels: HashMap<String, String>,
}

/// A metadata type as buildpacks write them: renamed fields, options, nested structs, enums, maps, datetimes, wide integers.
#[derive(Serialize, Deserialize, Clone, Debug, PartialEq)]
#[serde(rename_all = "kebab-case", deny_unknown_fields)]
struct Rich {
    schema_version: u32,
    name: String,
    opt_str: Option<String>,
    #[serde(default)]
    tags: Vec<String>,
    nums: Vec<i64>,
    big: u64,
    ratio: f64,
    flag: bool,
    when: Option<toml::value::Datetime>,
    kind: RichKind,
    inner: RichInner,
    map: std::collections::BTreeMap<String, String>,
    pairs: Vec<RichInner>,
}

#[derive(Serialize, Deserialize, Clone, Debug, PartialEq)]
#[serde(rename_all = "kebab-case")]
enum RichKind {
    Plain,
    Versioned { major: u32 },
    Named(String),
}

#[derive(Serialize, Deserialize, Clone, Debug, PartialEq)]
#[serde(deny_unknown_fields)]
struct RichInner {
    key: String,
    #[serde(skip_serializing_if = "Option::is_none", default)]
    note: Option<String>,
    depth: Vec<Vec<i64>>,
}

/// A metadata type all of whose fields are optional: with everything unset it is written as an EMPTY `[metadata]` table.
#[derive(Serialize, Deserialize, Clone, Debug, PartialEq)]
#[serde(deny_unknown_fields)]
struct AllOpt {
    #[serde(skip_serializing_if = "Option::is_none", default)]
    note: Option<String>,
    #[serde(skip_serializing_if = "Option::is_none", default)]
    count: Option<i64>,
}

fn rich_inner_from(v: &Value) -> RichInner {
    RichInner {
        key: jstr(v, "key").to_string(),
        note: v.get("note").and_then(Value::as_str).map(String::from),
        depth: jarr(v, "depth").iter().map(|r| r.as_array().unwrap().iter().map(|x| x.as_i64().unwrap()).collect()).collect(),
    }
}

fn rich_from(v: &Value) -> Rich {
    let ratio = match v["ratio"].as_str() {
        Some("nan") => f64::NAN,
        Some("inf") => f64::INFINITY,
        Some("-inf") => f64::NEG_INFINITY,
        Some(x) => x.parse().expect("ratio"),
        None => v["ratio"].as_f64().expect("ratio"),
    };
    let kind = match jstr(v, "kind") {
        "plain" => RichKind::Plain,
        "versioned" => RichKind::Versioned { major: v["kind_major"].as_u64().unwrap() as u32 },
        _ => RichKind::Named(jstr(v, "kind_name").to_string()),
    };
    Rich {
        schema_version: v["schema_version"].as_u64().unwrap() as u32,
        name: jstr(v, "name").to_string(),
        opt_str: v.get("opt_str").and_then(Value::as_str).map(String::from),
        tags: jarr(v, "tags").iter().map(|x| x.as_str().unwrap().to_string()).collect(),
        nums: jarr(v, "nums").iter().map(|x| x.as_i64().unwrap()).collect(),
        big: v["big"].as_u64().expect("big"),
        ratio,
        flag: jbool(v, "flag"),
        when: v.get("when").and_then(Value::as_str).map(|x| x.parse().expect("datetime")),
        kind,
        inner: rich_inner_from(&v["inner"]),
        map: jarr(v, "map").iter().map(|kv| (kv[0].as_str().unwrap().to_string(), kv[1].as_str().unwrap().to_string())).collect(),
        pairs: jarr(v, "pairs").iter().map(rich_inner_from).collect(),
    }
}

fn rich_same(a: &Rich, b: &Rich) -> bool {
    let mut a2 = a.clone();
    let mut b2 = b.clone();
    let ratio_same = a.ratio.to_bits() == b.ratio.to_bits() || (a.ratio.is_nan() && b.ratio.is_nan()) || a.ratio == b.ratio;
    a2.ratio = 0.0;
    b2.ratio = 0.0;
    ratio_same && a2 == b2
}

#[derive(Serialize, Deserialize, Clone, Debug)]
struct V1 {
    v: String,
}

enum Ref {
    Cached(LayerRef<TB, String, String>),
    Uncached(LayerRef<TB, (), ()>),
}

pub struct State {
    ctx: Option<BuildContext<TB>>,
    refs: HashMap<String, Ref>,
    /// the FIRST LayerRef obtained for a name since the last drop_refs: a second handle to the same layer, older than `refs`
    first_refs: HashMap<String, Ref>,
}

impl State {
    fn keep(&mut self, name: String, r: Ref) {
        if let Some(old) = self.refs.insert(name.clone(), r) {
            self.first_refs.entry(name).or_insert(old);
        }
    }

    /// the handle a write goes through: the newest one, or (request field "stale": true) the oldest one still held
    fn pick(&self, req: &Value) -> Option<&Ref> {
        let name = jstr(req, "name");
        if jbool(req, "stale") {
            self.first_refs.get(name).or_else(|| self.refs.get(name))
        } else {
            self.refs.get(name)
        }
    }
}

impl State {
    pub fn new() -> Self {
        State { ctx: None, refs: HashMap::new(), first_refs: HashMap::new() }
    }
}

fn sbom_format(s: &str) -> SbomFormat {
    match s {
        "cdx" => SbomFormat::CycloneDxJson,
        "spdx" => SbomFormat::SpdxJson,
        "syft" => SbomFormat::SyftJson,
        _ => panic!("sbom format {s}"),
    }
}

fn sboms_from(v: &[Value]) -> Vec<Sbom> {
    v.iter()
        .map(|x| {
            let x = x.as_array().unwrap();
            Sbom::from_bytes(sbom_format(x[0].as_str().unwrap()), unhex(x[1].as_str().unwrap()))
        })
        .collect()
}

fn err_variant<E: std::fmt::Debug>(e: &libcnb::Error<E>) -> Value {
    let dbg = format!("{e:?}");
    let variant = match e {
        libcnb::Error::LayerError(_) => "LayerError",
        libcnb::Error::BuildpackError(_) => "BuildpackError",
        _ => "Other",
    };
    json!({"err": variant, "detail": dbg})
}

fn md_json(m: &GenericMetadata) -> Value {
    m.as_ref().map_or(Value::Null, |t| toml_to_json(&toml::Value::Table(t.clone())))
}

fn state_json(s: &LayerState<String, String>) -> Value {
    match s {
        LayerState::Restored { cause } => json!({"restored": cause}),
        LayerState::Empty { cause } => match cause {
            EmptyLayerCause::NewlyCreated => json!({"empty": "newly"}),
            EmptyLayerCause::InvalidMetadataAction { cause } => json!({"empty": {"invalid": cause}}),
            EmptyLayerCause::RestoredLayerAction { cause } => json!({"empty": {"restored": cause}}),
        },
    }
}

fn do_ref<R>(r: &Ref, f: impl Fn(&dyn RefOps) -> R) -> R {
    match r {
        Ref::Cached(l) => f(l),
        Ref::Uncached(l) => f(l),
    }
}

trait RefOps {
    fn path(&self) -> PathBuf;
    fn write_metadata_table(&self, t: toml::Table) -> libcnb::Result<(), TErr>;
    fn write_metadata_typed(&self, v: &str) -> libcnb::Result<(), TErr>;
    fn write_env(&self, e: &libcnb::layer_env::LayerEnv) -> libcnb::Result<(), TErr>;
    fn read_env(&self) -> libcnb::Result<libcnb::layer_env::LayerEnv, TErr>;
    fn write_sboms(&self, s: &[Sbom]) -> libcnb::Result<(), TErr>;
    fn write_exec_d(&self, p: Vec<(String, PathBuf)>) -> libcnb::Result<(), TErr>;
}

impl<MAC, RAC> RefOps for LayerRef<TB, MAC, RAC> {
    fn path(&self) -> PathBuf {
        LayerRef::path(self)
    }
    fn write_metadata_table(&self, t: toml::Table) -> libcnb::Result<(), TErr> {
        self.write_metadata(t)
    }
    fn write_metadata_typed(&self, v: &str) -> libcnb::Result<(), TErr> {
        self.write_metadata(Typed { version: v.to_string(), labels: HashMap::new() })
    }
    fn write_env(&self, e: &libcnb::layer_env::LayerEnv) -> libcnb::Result<(), TErr> {
        LayerRef::write_env(self, e)
    }
    fn read_env(&self) -> libcnb::Result<libcnb::layer_env::LayerEnv, TErr> {
        LayerRef::read_env(self)
    }
    fn write_sboms(&self, s: &[Sbom]) -> libcnb::Result<(), TErr> {
        LayerRef::write_sboms(self, s)
    }
    fn write_exec_d(&self, p: Vec<(String, PathBuf)>) -> libcnb::Result<(), TErr> {
        self.write_exec_d_programs(p)
    }
}

// ---- trait API: scripted Layer implementations ------------------------------------------------

struct Script<'a> {
    req: &'a Value,
    log: &'a RefCell<Vec<Value>>,
    /// set by every `&mut self` callback: a layer whose types depend on what its callbacks found out (`types_before` in the request
    /// is what types() answers until then) - libcnb asks for the types after the callbacks
    decided: std::cell::Cell<bool>,
}

impl Script<'_> {
    fn types(&self) -> LayerTypes {
        match self.req.get("types_before").filter(|t| !t.is_null() && !self.decided.get()) {
            Some(t) => types_from(t),
            None => types_from(&self.req["types"]),
        }
    }
}

fn listing(p: &Path) -> Vec<String> {
    shim_pause(true);
    let v = listing_inner(p);
    shim_pause(false);
    v
}

fn listing_inner(p: &Path) -> Vec<String> {
    let mut v: Vec<String> = std::fs::read_dir(p).map(|rd| rd.flatten().map(|e| e.file_name().to_string_lossy().to_string()).collect()).unwrap_or_default();
    v.sort();
    v
}

fn probe_env(env: &libcnb::layer_env::LayerEnv) -> Value {
    // behavioural dump: apply for fixed scopes / starting envs
    let mut out = Vec::new();
    for scope in [Scope::All, Scope::Build, Scope::Launch, Scope::Process("web".into()), Scope::Process("worker".into()), Scope::Process("nope".into()),
                  Scope::Process("web.1".into()), Scope::Process("web.2".into())] {
        for start in 0..2 {
            let mut e = Env::new();
            if start == 1 {
                for k in ["A", "B", "PATH", "LD_LIBRARY_PATH"] {
                    e.insert(k, "s");
                }
            }
            out.push(crate::env::env_dump(&env.apply(scope.clone(), &e)));
        }
    }
    json!(out)
}

fn layer_data_json<M: Serialize>(d: &LayerData<M>) -> Value {
    let md = toml::Value::try_from(&d.content_metadata.metadata).ok();
    json!({"name": d.name.as_str(), "path": d.path.to_string_lossy(),
           "types": d.content_metadata.types.map(|t| json!({"launch": t.launch, "build": t.build, "cache": t.cache})),
           "metadata": md.as_ref().map(toml_to_json), "env_probe": probe_env(&d.env)})
}

/// Suspends / resumes the fault injector (if preloaded) around the test buildpack's own file operations:
/// the faults are meant for libcnb's calls, not for the scripted callbacks.
fn shim_pause(on: bool) {
    let f = unsafe { libc::dlsym(libc::RTLD_DEFAULT, c"vp_shim_pause".as_ptr()) };
    if !f.is_null() {
        let f: extern "C" fn(i32) = unsafe { std::mem::transmute(f) };
        f(i32::from(on));
    }
}

/// Builds the LayerResult a create/update callback returns, and performs its file-system side effects.
fn result_from<M>(spec: &Value, metadata: M, layer_path: &Path) -> Result<LayerResult<M>, TErr> {
    result_from_with(spec, metadata, layer_path, None)
}

/// `current_env`: the env of the LayerData handed to update(); returned unchanged when the spec says "env_same_as_data"
fn result_from_with<M>(spec: &Value, metadata: M, layer_path: &Path, current_env: Option<&libcnb::layer_env::LayerEnv>) -> Result<LayerResult<M>, TErr> {
    if let Some(e) = spec.get("err").and_then(Value::as_str) {
        return Err(TErr(e.to_string()));
    }
    shim_pause(true);
    let r = result_from_inner(spec, metadata, layer_path, current_env);
    shim_pause(false);
    r
}

fn result_from_inner<M>(spec: &Value, metadata: M, layer_path: &Path, current_env: Option<&libcnb::layer_env::LayerEnv>) -> Result<LayerResult<M>, TErr> {
    if jbool(spec, "wipe_env_dirs") {
        // the callback tidies the layer directory itself (env directories included) before it returns its result
        for d in ["env", "env.build", "env.launch"] {
            let _ = std::fs::remove_dir_all(layer_path.join(d));
        }
    }
    for f in jarr(spec, "write_files") {
        let f = f.as_array().unwrap();
        let p = layer_path.join(f[0].as_str().unwrap());
        if let Some(parent) = p.parent() {
            std::fs::create_dir_all(parent).unwrap();
        }
        std::fs::write(p, unhex(f[1].as_str().unwrap())).unwrap();
    }
    for l in jarr(spec, "symlinks") {
        let l = l.as_array().unwrap();
        let p = layer_path.join(l[0].as_str().unwrap());
        let _ = std::fs::remove_file(&p);
        std::os::unix::fs::symlink(l[1].as_str().unwrap(), p).unwrap();
    }
    for f in jarr(spec, "delete_files") {
        let _ = std::fs::remove_file(layer_path.join(f.as_str().unwrap()));
    }
    let mut b = LayerResultBuilder::new(metadata);
    if let (true, Some(cur)) = (jbool(spec, "env_same_as_data"), current_env) {
        b = b.env(cur.clone());
    } else if let Some(env) = spec.get("env").filter(|e| !e.is_null()) {
        b = b.env(layer_env_from(env.as_array().unwrap()));
    }
    for p in jarr(spec, "exec_d") {
        let p = p.as_array().unwrap();
        b = b.exec_d_program(p[0].as_str().unwrap(), PathBuf::from(p[1].as_str().unwrap()));
    }
    for s in sboms_from(jarr(spec, "sboms")) {
        b = b.sbom(s);
    }
    b.build()
}

fn strategy_from(s: &Value) -> Result<ExistingLayerStrategy, TErr> {
    match s.as_str().unwrap_or("recreate") {
        "keep" => Ok(ExistingLayerStrategy::Keep),
        "update" => Ok(ExistingLayerStrategy::Update),
        "recreate" => Ok(ExistingLayerStrategy::Recreate),
        e => Err(TErr(e.to_string())),
    }
}

fn types_from(t: &Value) -> LayerTypes {
    LayerTypes { launch: jbool(t, "launch"), build: jbool(t, "build"), cache: jbool(t, "cache") }
}

macro_rules! scripted_layer {
    ($name:ident, $meta:ty, $mk:expr) => {
        struct $name<'a>(Script<'a>);
        impl Layer for $name<'_> {
            type Buildpack = TB;
            type Metadata = $meta;
            fn types(&self) -> LayerTypes {
                self.0.types()
            }
            fn create(&mut self, _: &BuildContext<TB>, layer_path: &Path) -> Result<LayerResult<$meta>, TErr> {
                self.0.decided.set(true);
                self.0.log.borrow_mut().push(json!({"cb": "create", "path": layer_path.to_string_lossy(), "listing": listing(layer_path)}));
                let spec = &self.0.req["create"];
                result_from(spec, $mk(spec.get("metadata_value").and_then(Value::as_str).unwrap_or("")), layer_path)
            }
            fn existing_layer_strategy(&mut self, _: &BuildContext<TB>, d: &LayerData<$meta>) -> Result<ExistingLayerStrategy, TErr> {
                self.0.decided.set(true);
                self.0.log.borrow_mut().push(json!({"cb": "strategy", "data": layer_data_json(d)}));
                strategy_from(&self.0.req["strategy"])
            }
            fn update(&mut self, _: &BuildContext<TB>, d: &LayerData<$meta>) -> Result<LayerResult<$meta>, TErr> {
                self.0.decided.set(true);
                self.0.log.borrow_mut().push(json!({"cb": "update", "data": layer_data_json(d)}));
                let spec = &self.0.req["update"];
                result_from_with(spec, $mk(spec.get("metadata_value").and_then(Value::as_str).unwrap_or("")), &d.path, Some(&d.env))
            }
            fn migrate_incompatible_metadata(&mut self, _: &BuildContext<TB>, m: &GenericMetadata) -> Result<MetadataMigration<$meta>, TErr> {
                self.0.log.borrow_mut().push(json!({"cb": "migrate", "metadata": md_json(m)}));
                let spec = &self.0.req["migrate"];
                match spec.get("action").and_then(Value::as_str).unwrap_or("recreate") {
                    "recreate" => Ok(MetadataMigration::RecreateLayer),
                    "replace" => Ok(MetadataMigration::ReplaceMetadata($mk(spec.get("metadata_value").and_then(Value::as_str).unwrap_or("")))),
                    e => Err(TErr(e.to_string())),
                }
            }
        }
    };
}

scripted_layer!(LayerV1, V1, |s: &str| V1 { v: s.to_string() });
/// Metadata with a field TOML cannot hold for some values: a migration to "unwritable..." returns u64::MAX in it.
#[derive(Serialize, Deserialize, Clone, Debug)]
struct V3 {
    v: String,
    #[serde(default)]
    big: u64,
}
scripted_layer!(LayerV3, V3, |s: &str| V3 { v: s.to_string(), big: if s.starts_with("unwritable") { u64::MAX } else { 0 } });
scripted_layer!(LayerV2, Typed, |s: &str| Typed { version: s.to_string(), labels: HashMap::new() });

/// A Layer that relies on every default method of the trait.
struct DefaultsLayer<'a>(Script<'a>);
impl Layer for DefaultsLayer<'_> {
    type Buildpack = TB;
    type Metadata = V1;
    fn types(&self) -> LayerTypes {
        self.0.types()
    }
    fn create(&mut self, _: &BuildContext<TB>, layer_path: &Path) -> Result<LayerResult<V1>, TErr> {
        self.0.decided.set(true);
        self.0.log.borrow_mut().push(json!({"cb": "create", "path": layer_path.to_string_lossy(), "listing": listing(layer_path)}));
        let spec = &self.0.req["create"];
        result_from(spec, V1 { v: spec.get("metadata_value").and_then(Value::as_str).unwrap_or("").to_string() }, layer_path)
    }
}

pub fn handle(st: &mut State, req: &Value) -> Value {
    match jstr(req, "op") {
        "init" => {
            // the working directory of the process that handles the layers ("chdir"): the layers directory may be spelled relative to it
            if let Some(d) = req.get("chdir").and_then(Value::as_str) {
                std::env::set_current_dir(d).expect("chdir");
            }
            let descriptor = "api = \"0.10\"\n[buildpack]\nid = \"vp/test\"\nversion = \"1.0.0\"\n";
            st.refs.clear();
            st.first_refs.clear();
            st.ctx = Some(BuildContext {
                layers_dir: PathBuf::from(jstr(req, "layers_dir")),
                app_dir: PathBuf::from(jstr(req, "app_dir")),
                buildpack_dir: PathBuf::from(jstr(req, "bp_dir")),
                target: Target { os: "linux".into(), arch: "amd64".into(), arch_variant: None, distro_name: "ubuntu".into(), distro_version: "24.04".into() },
                platform: GenericPlatform::new(Env::new()),
                buildpack_plan: BuildpackPlan { entries: vec![] },
                buildpack_descriptor: toml::from_str(descriptor).expect("descriptor"),
                store: None,
            });
            json!({"ok": true})
        }
        // start / stop the fault injector's counted window (no-op when fsshim is not preloaded)
        "arm" => {
            let f = unsafe { libc::dlsym(libc::RTLD_DEFAULT, c"vp_shim_arm".as_ptr()) };
            if f.is_null() {
                return json!({"armed": false});
            }
            let f: extern "C" fn(i32) = unsafe { std::mem::transmute(f) };
            f(i32::from(jbool(req, "on")));
            json!({"armed": true})
        }
        // the process moves into another directory (e.g. into a layer it is about to delete) - handles and context stay as they are
        "chdir" => {
            match std::env::set_current_dir(jstr(req, "dir")) {
                Ok(()) => json!({"ok": true}),
                Err(e) => json!({"err": "chdir", "detail": e.to_string()}),
            }
        }
        "drop_refs" => {
            st.refs.clear();
            st.first_refs.clear();
            json!({"ok": true})
        }
        "cached" => {
            let ctx = st.ctx.as_ref().expect("init first");
            let name: LayerName = jstr(req, "name").parse().expect("layer name");
            let log: RefCell<Vec<Value>> = RefCell::new(Vec::new());
            let restored = &req["restored"];
            let invalid = &req["invalid"];
            let restored_fn_generic = |m: &GenericMetadata, p: &Path| -> Result<(RestoredLayerAction, String), TErr> {
                log.borrow_mut().push(json!({"cb": "restored", "metadata": md_json(m), "path": p.to_string_lossy()}));
                restored_decision(restored)
            };
            let restored_fn_typed = |m: &Typed, p: &Path| -> Result<(RestoredLayerAction, String), TErr> {
                log.borrow_mut().push(json!({"cb": "restored", "metadata": {"t": [["version", {"s": m.version}]]}, "path": p.to_string_lossy()}));
                restored_decision(restored)
            };
            let res = if jstr(req, "mtype") == "generic" {
                ctx.cached_layer(
                    &name,
                    CachedLayerDefinition {
                        build: jbool(req, "build"),
                        launch: jbool(req, "launch"),
                        invalid_metadata_action: &|m: &GenericMetadata| -> Result<(InvalidMetadataAction<GenericMetadata>, String), TErr> {
                            log.borrow_mut().push(json!({"cb": "invalid", "metadata": md_json(m)}));
                            match jstr(invalid, "action") {
                                "delete" => Ok((InvalidMetadataAction::DeleteLayer, jstr(invalid, "cause").to_string())),
                                "replace" => Ok((InvalidMetadataAction::ReplaceMetadata(Some(toml_table_from_json(&invalid["metadata"]))), jstr(invalid, "cause").to_string())),
                                e => Err(TErr(e.to_string())),
                            }
                        },
                        restored_layer_action: &restored_fn_generic,
                    },
                )
            } else {
                ctx.cached_layer(
                    &name,
                    CachedLayerDefinition {
                        build: jbool(req, "build"),
                        launch: jbool(req, "launch"),
                        invalid_metadata_action: &|m: &GenericMetadata| -> Result<(InvalidMetadataAction<Typed>, String), TErr> {
                            log.borrow_mut().push(json!({"cb": "invalid", "metadata": md_json(m)}));
                            match jstr(invalid, "action") {
                                "delete" => Ok((InvalidMetadataAction::DeleteLayer, jstr(invalid, "cause").to_string())),
                                "replace" => Ok((InvalidMetadataAction::ReplaceMetadata(Typed { version: jstr(invalid, "version").to_string(), labels: HashMap::new() }), jstr(invalid, "cause").to_string())),
                                e => Err(TErr(e.to_string())),
                            }
                        },
                        restored_layer_action: &restored_fn_typed,
                    },
                )
            };
            match res {
                Ok(r) => {
                    let rep = json!({"state": state_json(&r.state), "path": r.path().to_string_lossy(), "callbacks": log.into_inner()});
                    st.keep(name.to_string(), Ref::Cached(r));
                    rep
                }
                Err(e) => {
                    let mut v = err_variant(&e);
                    v["callbacks"] = json!(log.into_inner());
                    v
                }
            }
        }
        // several threads of one process, each handling a layer of its own in the same layers directory (a buildpack that prepares its
        // layers in parallel): every layer's files are that layer's, whatever the other threads do at the same moment
        "threads" => {
            let ctx = st.ctx.as_ref().expect("init first");
            let threads = req["threads"].as_u64().unwrap_or(4) as usize;
            let rounds = req["rounds"].as_u64().unwrap_or(50) as usize;
            let problems: std::sync::Mutex<Vec<String>> = std::sync::Mutex::new(Vec::new());
            std::thread::scope(|sc| {
                for k in 0..threads {
                    let problems = &problems;
                    sc.spawn(move || {
                        let name: LayerName = format!("t{k}").parse().expect("layer name");
                        let note = |m: String| {
                            let mut p = problems.lock().unwrap();
                            if p.len() < 5 {
                                p.push(m);
                            }
                        };
                        for i in 0..rounds {
                            let launch = (i + k) % 2 == 0;
                            let r = match ctx.cached_layer(
                                &name,
                                CachedLayerDefinition {
                                    build: true,
                                    launch,
                                    invalid_metadata_action: &|_: &GenericMetadata| -> Result<(InvalidMetadataAction<GenericMetadata>, String), TErr> { Ok((InvalidMetadataAction::DeleteLayer, "invalid".to_string())) },
                                    restored_layer_action: &|_: &GenericMetadata, _: &Path| -> Result<(RestoredLayerAction, String), TErr> { Ok((RestoredLayerAction::KeepLayer, "kept".to_string())) },
                                },
                            ) {
                                Ok(r) => r,
                                Err(e) => {
                                    note(format!("thread {k} round {i}: cached_layer failed: {e:?}"));
                                    return;
                                }
                            };
                            let mut t = toml::Table::new();
                            t.insert("owner".into(), toml::Value::Integer(k as i64));
                            t.insert("round".into(), toml::Value::Integer(i as i64));
                            t.insert("padding".into(), toml::Value::String("x".repeat(200 + 37 * k)));
                            if let Err(e) = r.write_metadata(Some(t)) {
                                note(format!("thread {k} round {i}: write_metadata failed: {e:?}"));
                                return;
                            }
                            let text = std::fs::read_to_string(ctx.layers_dir.join(format!("t{k}.toml"))).unwrap_or_default();
                            match toml::from_str::<toml::Table>(&text) {
                                Ok(doc) => {
                                    let md = doc.get("metadata").and_then(toml::Value::as_table);
                                    let owner = md.and_then(|m| m.get("owner")).and_then(toml::Value::as_integer);
                                    let round = md.and_then(|m| m.get("round")).and_then(toml::Value::as_integer);
                                    let l = doc.get("types").and_then(toml::Value::as_table).and_then(|t| t.get("launch")).and_then(toml::Value::as_bool);
                                    if owner != Some(k as i64) || round != Some(i as i64) || l != Some(launch) {
                                        note(format!("thread {k} round {i}: t{k}.toml holds owner {owner:?} round {round:?} launch {l:?} (expected {k} {i} {launch}): {:?}", &text.chars().take(120).collect::<String>()));
                                        return;
                                    }
                                }
                                Err(e) => {
                                    note(format!("thread {k} round {i}: t{k}.toml is not valid TOML ({e}): {:?}", &text.chars().take(120).collect::<String>()));
                                    return;
                                }
                            }
                        }
                    });
                }
            });
            let stray: Vec<String> = std::fs::read_dir(&ctx.layers_dir).map(|rd| rd.flatten().map(|e| e.file_name().to_string_lossy().to_string()).filter(|n| !(n.starts_with('t') && n.len() <= 12)).collect()).unwrap_or_default();
            json!({"problems": problems.into_inner().unwrap(), "stray": stray, "writes": threads * rounds})
        }
        // metadata whose type has only optional fields: written, then the layer is requested `requests` more times (keep each time):
        // every one of them restores the layer and hands the same value to the callback
        "allopt" => {
            let ctx = st.ctx.as_ref().expect("init first");
            let name: LayerName = jstr(req, "name").parse().expect("layer name");
            let value = AllOpt { note: req.get("note").and_then(Value::as_str).map(String::from), count: req.get("count").and_then(Value::as_i64) };
            let seen: RefCell<Option<AllOpt>> = RefCell::new(None);
            let request = |launch: bool| {
                ctx.cached_layer(
                    &name,
                    CachedLayerDefinition {
                        build: true,
                        launch,
                        invalid_metadata_action: &|_: &GenericMetadata| -> Result<(InvalidMetadataAction<AllOpt>, String), TErr> { Ok((InvalidMetadataAction::DeleteLayer, "invalid".to_string())) },
                        restored_layer_action: &|m: &AllOpt, _: &Path| -> Result<(RestoredLayerAction, String), TErr> {
                            *seen.borrow_mut() = Some(m.clone());
                            Ok((RestoredLayerAction::KeepLayer, "kept".to_string()))
                        },
                    },
                )
            };
            let first = match request(false) {
                Ok(r) => r,
                Err(e) => return err_variant(&e),
            };
            if let Err(e) = first.write_metadata(value.clone()) {
                return err_variant(&e);
            }
            let mut rounds = Vec::new();
            for k in 0..req["requests"].as_u64().unwrap_or(2) {
                *seen.borrow_mut() = None;
                let text_before = std::fs::read_to_string(ctx.layers_dir.join(format!("{}.toml", name.as_str()))).unwrap_or_default();
                match request(k % 2 == 0) {
                    Ok(r) => rounds.push(json!({"state": state_json(&r.state), "equal": seen.borrow().as_ref() == Some(&value), "seen": format!("{:?}", seen.borrow()), "toml_before": text_before})),
                    Err(e) => rounds.push(json!({"err": format!("{e:?}"), "toml_before": text_before})),
                }
            }
            json!({"rounds": rounds})
        }
        // a typed metadata value written through a LayerRef and handed back to the restored-layer callback of the next request
        "rich" => {
            let ctx = st.ctx.as_ref().expect("init first");
            let name: LayerName = jstr(req, "name").parse().expect("layer name");
            let value = rich_from(&req["value"]);
            let seen: RefCell<Option<Rich>> = RefCell::new(None);
            let request = || {
                ctx.cached_layer(
                    &name,
                    CachedLayerDefinition {
                        build: true,
                        launch: jbool(req, "launch"),
                        invalid_metadata_action: &|_: &GenericMetadata| -> Result<(InvalidMetadataAction<Rich>, String), TErr> { Ok((InvalidMetadataAction::DeleteLayer, "invalid".to_string())) },
                        restored_layer_action: &|m: &Rich, _: &Path| -> Result<(RestoredLayerAction, String), TErr> {
                            *seen.borrow_mut() = Some(m.clone());
                            Ok((RestoredLayerAction::KeepLayer, "kept".to_string()))
                        },
                    },
                )
            };
            let first = match request() {
                Ok(r) => r,
                Err(e) => return err_variant(&e),
            };
            if let Err(e) = first.write_metadata(value.clone()) {
                // the write was refused: what does the next request of this build sequence see? (the previous value, if there was one)
                let mut v = err_variant(&e);
                v["write_err"] = json!(true);
                if req.get("no_follow_up").and_then(Value::as_bool).unwrap_or(false) {
                    // (the refused write is the last thing this process does with the layer)
                    return v;
                }
                *seen.borrow_mut() = None;
                match request() {
                    Ok(r) => {
                        v["after_state"] = state_json(&r.state);
                        v["after_seen"] = json!(format!("{:?}", seen.borrow()));
                        v["after_seen_some"] = json!(seen.borrow().is_some());
                    }
                    Err(e2) => v["after_err"] = json!(format!("{e2:?}")),
                }
                return v;
            }
            let text = std::fs::read_to_string(ctx.layers_dir.join(format!("{}.toml", name.as_str()))).unwrap_or_default();
            *seen.borrow_mut() = None;
            match request() {
                Ok(r) => {
                    let got = seen.borrow().clone();
                    json!({"toml_text": text, "state": state_json(&r.state), "callback_ran": got.is_some(),
                           "restored_equal": got.as_ref().is_some_and(|g| rich_same(g, &value)), "restored_debug": format!("{got:?}"), "written_debug": format!("{value:?}")})
                }
                Err(e) => {
                    let mut v = err_variant(&e);
                    v["toml_text"] = json!(text);
                    v
                }
            }
        }
        "uncached" => {
            let ctx = st.ctx.as_ref().expect("init first");
            let name: LayerName = jstr(req, "name").parse().expect("layer name");
            match ctx.uncached_layer(&name, UncachedLayerDefinition { build: jbool(req, "build"), launch: jbool(req, "launch") }) {
                Ok(r) => {
                    let state = match &r.state {
                        LayerState::Restored { .. } => json!({"restored": null}),
                        LayerState::Empty { cause } => match cause {
                            EmptyLayerCause::NewlyCreated => json!({"empty": "newly"}),
                            EmptyLayerCause::InvalidMetadataAction { .. } => json!({"empty": {"invalid": null}}),
                            EmptyLayerCause::RestoredLayerAction { .. } => json!({"empty": {"restored": null}}),
                        },
                    };
                    let rep = json!({"state": state, "path": r.path().to_string_lossy(), "callbacks": []});
                    st.keep(name.to_string(), Ref::Uncached(r));
                    rep
                }
                Err(e) => err_variant(&e),
            }
        }
        // a common buildpack idiom: derive values from the layer's env and record them in the layer metadata
        "env_to_metadata" => {
            let Some(r) = st.pick(req) else {
                return json!({"no_ref": true});
            };
            let res = do_ref(r, |x| x.read_env()).and_then(|env| {
                let mut t = toml::Table::new();
                for (scope, label) in [(Scope::Build, "build"), (Scope::Launch, "launch"), (Scope::Process("web".into()), "web")] {
                    let applied = env.apply(scope, &Env::new());
                    // the work-dir root differs between the compared runs: it is normalised inside values
                    let root = st.ctx.as_ref().map(|c| c.layers_dir.to_string_lossy().to_string()).unwrap_or_default();
                    let mut vars: Vec<(String, String)> = applied.iter().map(|(k, v)| (k.to_string_lossy().to_string(), v.to_string_lossy().replace(&root, "<layers>"))).collect();
                    vars.sort();
                    let mut inner = toml::Table::new();
                    for (k, v) in vars {
                        inner.insert(k, toml::Value::String(v));
                    }
                    t.insert(label.to_string(), toml::Value::Table(inner));
                }
                do_ref(r, |x| x.write_metadata_table(t.clone()))
            });
            match res {
                Ok(()) => json!({"ok": true}),
                Err(e) => err_variant(&e),
            }
        }
        "write_metadata" | "write_metadata_typed" | "write_env" | "read_env" | "write_sboms" | "write_exec_d" | "path" => {
            let Some(r) = st.pick(req) else {
                return json!({"no_ref": true});
            };
            let res: libcnb::Result<Value, TErr> = match jstr(req, "op") {
                "path" => Ok(json!(do_ref(r, |x| x.path()).to_string_lossy())),
                "write_metadata" => do_ref(r, |x| x.write_metadata_table(toml_table_from_json(&req["metadata"]))).map(|()| json!(true)),
                "write_metadata_typed" => do_ref(r, |x| x.write_metadata_typed(jstr(req, "version"))).map(|()| json!(true)),
                "write_env" => {
                    let le = layer_env_from(jarr(req, "entries"));
                    do_ref(r, |x| x.write_env(&le)).map(|()| json!(true))
                }
                "read_env" => do_ref(r, |x| x.read_env()).map(|e| probe_env(&e)),
                "write_sboms" => {
                    let s = sboms_from(jarr(req, "sboms"));
                    do_ref(r, |x| x.write_sboms(&s)).map(|()| json!(true))
                }
                "write_exec_d" => {
                    let p: Vec<(String, PathBuf)> = jarr(req, "programs").iter().map(|p| {
                        let p = p.as_array().unwrap();
                        (p[0].as_str().unwrap().to_string(), PathBuf::from(p[1].as_str().unwrap()))
                    }).collect();
                    do_ref(r, |x| x.write_exec_d(p.clone())).map(|()| json!(true))
                }
                _ => unreachable!(),
            };
            match res {
                Ok(v) => json!({"ok": v}),
                Err(e) => err_variant(&e),
            }
        }
        // trait API
        "handle" => {
            let ctx = st.ctx.as_ref().expect("init first");
            let name: LayerName = jstr(req, "name").parse().expect("layer name");
            let log: RefCell<Vec<Value>> = RefCell::new(Vec::new());
            let script = Script { req, log: &log, decided: std::cell::Cell::new(false) };
            let res = match jstr(req, "impl") {
                "v1" => ctx.handle_layer(name, LayerV1(script)).map(|d| layer_data_json(&d)),
                "v2" => ctx.handle_layer(name, LayerV2(script)).map(|d| layer_data_json(&d)),
                "v3" => ctx.handle_layer(name, LayerV3(script)).map(|d| layer_data_json(&d)),
                "defaults" => ctx.handle_layer(name, DefaultsLayer(script)).map(|d| layer_data_json(&d)),
                x => panic!("impl {x}"),
            };
            match res {
                Ok(d) => json!({"data": d, "callbacks": log.into_inner()}),
                Err(e) => {
                    let mut v = err_variant(&e);
                    v["callbacks"] = json!(log.into_inner());
                    v
                }
            }
        }
        other => panic!("layers: unknown op {other}"),
    }
}

fn restored_decision(restored: &Value) -> Result<(RestoredLayerAction, String), TErr> {
    match jstr(restored, "action") {
        "keep" => Ok((RestoredLayerAction::KeepLayer, jstr(restored, "cause").to_string())),
        "delete" => Ok((RestoredLayerAction::DeleteLayer, jstr(restored, "cause").to_string())),
        e => Err(TErr(e.to_string())),
    }
}
