//! LayerEnv executor (C03, C04, C10).
use libcnb::Env;
use libcnb::layer_env::{LayerEnv, ModificationBehavior, Scope};
use serde_json::{Value, json};
use vpharness::{err_json, jarr, jstr, os_from_hex, os_hex};

pub fn scope_from(s: &str) -> Scope {
    match s {
        "all" => Scope::All,
        "build" => Scope::Build,
        "launch" => Scope::Launch,
        other => {
            let p = other.strip_prefix("process:").expect("scope");
            Scope::Process(p.to_string())
        }
    }
}

pub fn behavior_from(s: &str) -> ModificationBehavior {
    match s {
        "append" => ModificationBehavior::Append,
        "default" => ModificationBehavior::Default,
        "delim" => ModificationBehavior::Delimiter,
        "override" => ModificationBehavior::Override,
        "prepend" => ModificationBehavior::Prepend,
        _ => panic!("behavior {s}"),
    }
}

/// entries: [[scope, behaviour, namehex, valuehex], ...] inserted in the given order.
/// A name whose conversion into an OsString panics (the caller's `Into<OsString>` implementation does): the insert never happens.
struct PanickingName;
impl From<PanickingName> for std::ffi::OsString {
    fn from(_: PanickingName) -> Self {
        panic!("vp-scripted-conversion-panic")
    }
}

pub fn layer_env_from(entries: &[Value]) -> LayerEnv {
    static HOOK: std::sync::Once = std::sync::Once::new();
    HOOK.call_once(|| {
        let default = std::panic::take_hook();
        std::panic::set_hook(Box::new(move |info| {
            if !info.to_string().contains("vp-scripted-conversion-panic") {
                default(info);
            }
        }));
    });
    let mut le = LayerEnv::new();
    for (i, e) in entries.iter().enumerate() {
        let e = e.as_array().expect("entry");
        le.insert(
            scope_from(e[0].as_str().unwrap()),
            behavior_from(e[1].as_str().unwrap()),
            os_from_hex(e[2].as_str().unwrap()),
            os_from_hex(e[3].as_str().unwrap()),
        );
        if i % 3 == 1 {
            // an insert for the same scope that never completes (the conversion of its name panics; the panic is caught, the way a worker
            // thread's panic is): the entries inserted before it are still there, it contributes nothing
            let scope = scope_from(e[0].as_str().unwrap());
            let behaviour = behavior_from(e[1].as_str().unwrap());
            let caught = std::panic::catch_unwind(std::panic::AssertUnwindSafe(|| le.insert(scope, behaviour, PanickingName, "never inserted")));
            assert!(caught.is_err());
        }
    }
    le
}

pub fn env_from(pairs: &[Value]) -> Env {
    let mut env = Env::new();
    for p in pairs {
        let p = p.as_array().expect("pair");
        env.insert(os_from_hex(p[0].as_str().unwrap()), os_from_hex(p[1].as_str().unwrap()));
    }
    env
}

pub fn env_dump(env: &Env) -> Value {
    let mut v: Vec<(String, String)> = env.iter().map(|(k, v)| (os_hex(k), os_hex(v))).collect();
    v.sort();
    json!(v)
}

/// queries: [{"scope":..., "start":[[namehex,valhex],...]}, ...]
pub fn run_queries(le: &LayerEnv, queries: &[Value]) -> Value {
    let mut out = Vec::new();
    for q in queries {
        let start = env_from(jarr(q, "start"));
        let scope = scope_from(jstr(q, "scope"));
        let res = le.apply(scope.clone(), &start);
        let mut o = json!({"result": env_dump(&res), "start_after": env_dump(&start)});
        if jarr(q, "start").is_empty() {
            o["to_empty"] = env_dump(&le.apply_to_empty(scope));
        }
        out.push(o);
    }
    json!(out)
}

pub fn handle(req: &Value) -> Value {
    match jstr(req, "op") {
        // in-memory apply (C04)
        "apply" => {
            let le = layer_env_from(jarr(req, "entries"));
            let mut rep = json!({"results": run_queries(&le, jarr(req, "queries"))});
            if let Some(other) = req.get("entries2") {
                let le2 = layer_env_from(other.as_array().unwrap());
                rep["eq2"] = json!(le == le2);
                rep["results2"] = run_queries(&le2, jarr(req, "queries"));
            }
            rep
        }
        // write to a layer dir (C03)
        "write" => {
            let le = layer_env_from(jarr(req, "entries"));
            match le.write_to_layer_dir(os_from_hex(jstr(req, "dir"))) {
                Ok(()) => json!({"ok": true}),
                Err(e) => err_json("io", e),
            }
        }
        // read a layer dir and answer queries (C03, C10)
        "read_apply" => match LayerEnv::read_from_layer_dir(os_from_hex(jstr(req, "dir"))) {
            Ok(le) => {
                // "vanish": between reading the layer and applying what was read, the layer directory is moved away and the process goes
                // somewhere else - a LayerEnv is a value; what it does to an environment was settled when it was read
                let dir = std::path::PathBuf::from(os_from_hex(jstr(req, "dir")));
                let vanish = req.get("vanish").and_then(Value::as_bool).unwrap_or(false);
                let mut away = dir.clone().into_os_string();
                away.push(".moved-away");
                let moved = vanish && std::fs::rename(&dir, &away).is_ok();
                if vanish {
                    let _ = std::env::set_current_dir("/proc");
                }
                let results = run_queries(&le, jarr(req, "queries"));
                if moved {
                    let _ = std::fs::rename(&away, &dir);
                }
                json!({"results": results, "moved": moved})
            }
            Err(e) => err_json("io", e),
        },
        // read then write back n times (C10 fix-point)
        "read_write" => {
            let dir = os_from_hex(jstr(req, "dir"));
            match LayerEnv::read_from_layer_dir(&dir) {
                Ok(le) => match le.write_to_layer_dir(&dir) {
                    Ok(()) => json!({"ok": true}),
                    Err(e) => err_json("io-write", e),
                },
                Err(e) => err_json("io-read", e),
            }
        }
        other => panic!("env: unknown op {other}"),
    }
}
