//! C07: replays builder call sequences against the real builders/types and writes the result with
//! the real write_toml_file; where libcnb can read the type back, dumps what it reads.
use libcnb_common::toml_file::{read_toml_file, write_toml_file};
use libcnb_data::build_plan::{BuildPlanBuilder, Require};
use libcnb_data::launch::{Label, Launch, LaunchBuilder, ProcessBuilder, Slice, WorkingDirectory};
use libcnb_data::layer_content_metadata::{LayerContentMetadata, LayerTypes};
use libcnb_data::package_descriptor::{PackageDescriptor, PackageDescriptorBuildpackReference, PackageDescriptorDependency, Platform, PlatformOs};
use libcnb_data::store::Store;
use serde_json::{Value, json};
use std::path::PathBuf;
use vpharness::{jarr, jbool, jstr, toml_table_from_json, toml_to_json};

fn strs(v: &Value) -> Vec<String> {
    v.as_array().map(|a| a.iter().map(|s| s.as_str().unwrap().to_string()).collect()).unwrap_or_default()
}

fn process_from(p: &Value) -> libcnb_data::launch::Process {
    let mut b = ProcessBuilder::new(jstr(p, "type").parse().expect("process type"), strs(&p["command"]));
    // args: either one args() call or repeated arg() calls
    if jbool(p, "args_one_by_one") {
        for a in strs(&p["args"]) {
            b.arg(a);
        }
    } else if p.get("args").is_some_and(|a| !a.is_null()) {
        b.args(strs(&p["args"]));
    }
    if let Some(d) = p.get("default").and_then(Value::as_bool) {
        if d {
            // (the same for the process builder: an earlier build() changes nothing)
            let _snapshot = b.build();
        }
        b.default(d);
    }
    if let Some(h) = p.get("wd_hex").and_then(Value::as_str) {
        // a working directory that is not valid UTF-8 (a legal path)
        b.working_directory(WorkingDirectory::Directory(PathBuf::from(vpharness::os_from_hex(h))));
    } else if let Some(wd) = p.get("wd") {
        if wd.is_null() {
            if jbool(p, "wd_explicit_app") {
                b.working_directory(WorkingDirectory::App);
            }
        } else {
            b.working_directory(WorkingDirectory::Directory(PathBuf::from(wd.as_str().unwrap())));
        }
    }
    b.build()
}

fn wd_dump(w: &WorkingDirectory) -> Value {
    match w {
        WorkingDirectory::App => Value::Null,
        WorkingDirectory::Directory(p) => json!(p.to_string_lossy()),
    }
}

fn launch_dump(l: &Launch) -> Value {
    json!({
        "processes": l.processes.iter().map(|p| json!({"type": p.r#type.as_str(), "command": p.command, "args": p.args, "default": p.default, "wd": wd_dump(&p.working_directory)})).collect::<Vec<_>>(),
        "labels": l.labels.iter().map(|x| json!([x.key, x.value])).collect::<Vec<_>>(),
        "slices": l.slices.iter().map(|s| json!(s.path_globs)).collect::<Vec<_>>(),
    })
}

/// A panic below the writer (libcnb or its serialiser) is an observation, not the end of the executor.
pub fn handle(req: &Value) -> Value {
    let hook = std::panic::take_hook();
    std::panic::set_hook(Box::new(|_| {}));
    let r = std::panic::catch_unwind(std::panic::AssertUnwindSafe(|| handle_inner(req)));
    std::panic::set_hook(hook);
    match r {
        Ok(v) => v,
        Err(e) => json!({"panic": e.downcast_ref::<String>().cloned().or_else(|| e.downcast_ref::<&str>().map(|s| (*s).to_string())).unwrap_or_default()}),
    }
}

fn handle_inner(req: &Value) -> Value {
    let path = PathBuf::from(jstr(req, "path"));
    match jstr(req, "op") {
        "launch" => {
            let mut b = LaunchBuilder::new();
            for (n, call) in jarr(req, "calls").iter().enumerate() {
                // a builder can be asked for its result more than once ("build_midway"): what it builds later still holds everything
                if jbool(req, "build_midway") && n % 2 == 1 {
                    let _snapshot = b.build();
                }
                let c = call.as_array().unwrap();
                match c[0].as_str().unwrap() {
                    "process" => {
                        b.process(process_from(&c[1]));
                    }
                    "processes" => {
                        b.processes(c[1].as_array().unwrap().iter().map(process_from).collect::<Vec<_>>());
                    }
                    "label" => {
                        let kv = strs(&c[1]);
                        b.label(Label { key: kv[0].clone(), value: kv[1].clone() });
                    }
                    "labels" => {
                        b.labels(c[1].as_array().unwrap().iter().map(|kv| {
                            let kv = strs(kv);
                            Label { key: kv[0].clone(), value: kv[1].clone() }
                        }).collect::<Vec<_>>());
                    }
                    "slice" => {
                        b.slice(Slice { path_globs: strs(&c[1]) });
                    }
                    "slices" => {
                        b.slices(c[1].as_array().unwrap().iter().map(|g| Slice { path_globs: strs(g) }).collect::<Vec<_>>());
                    }
                    x => panic!("launch call {x}"),
                }
            }
            let launch = b.build();
            if let Err(e) = write_toml_file(&launch, &path) {
                return json!({"write_err": format!("{e}")});
            }
            match read_toml_file::<Launch>(&path) {
                Ok(l) => json!({"ok": true, "reread": launch_dump(&l)}),
                Err(e) => json!({"ok": true, "reread_err": format!("{e}")}),
            }
        }
        "build_plan" => {
            let mut b = BuildPlanBuilder::new();
            for call in jarr(req, "calls") {
                let c = call.as_array().unwrap();
                b = match c[0].as_str().unwrap() {
                    "provides" => b.provides(c[1].as_str().unwrap()),
                    "requires" => {
                        if c.len() > 2 && !c[2].is_null() {
                            let mut r = Require::new(c[1].as_str().unwrap());
                            if let Err(e) = r.metadata(toml_table_from_json(&c[2])) {
                                return json!({"write_err": format!("require.metadata: {e}")});
                            }
                            // a second metadata() call replaces the first
                            if c.len() > 3 && !c[3].is_null() {
                                if let Err(e) = r.metadata(toml_table_from_json(&c[3])) {
                                    return json!({"write_err": format!("require.metadata: {e}")});
                                }
                            }
                            // ... and one the serializer refuses leaves the Require as it was (the caller carries on with it)
                            #[derive(serde::Serialize)]
                            struct Refused { a: Vec<Option<i64>> }
                            let refused = if c[1].as_str().unwrap().len() % 2 == 0 { r.metadata(Refused { a: vec![Some(1), None] }).is_err() } else { r.metadata("not a table").is_err() };
                            if !refused {
                                return json!({"write_err": "require.metadata: a value that is no TOML table was accepted"});
                            }
                            b.requires(r)
                        } else if c.len() > 3 {
                            b.requires(Require::new(c[1].as_str().unwrap()))
                        } else {
                            b.requires(c[1].as_str().unwrap())
                        }
                    }
                    "or" => b.or(),
                    x => panic!("plan call {x}"),
                };
            }
            match write_toml_file(&b.build(), &path) {
                Ok(()) => json!({"ok": true}),
                Err(e) => json!({"write_err": format!("{e}")}),
            }
        }
        "layer_toml" => {
            let types = req.get("types").filter(|t| !t.is_null()).map(|t| LayerTypes { launch: jbool(t, "launch"), build: jbool(t, "build"), cache: jbool(t, "cache") });
            let lcm = LayerContentMetadata { types, metadata: req.get("metadata").filter(|m| !m.is_null()).map(toml_table_from_json) };
            if let Err(e) = write_toml_file(&lcm, &path) {
                return json!({"write_err": format!("{e}")});
            }
            match read_toml_file::<LayerContentMetadata>(&path) {
                Ok(l) => json!({"ok": true, "eq": l == lcm, "reread": {"types": l.types.map(|t| json!({"launch": t.launch, "build": t.build, "cache": t.cache})),
                                "metadata": l.metadata.map(|m| toml_to_json(&toml::Value::Table(m)))}}),
                Err(e) => json!({"ok": true, "reread_err": format!("{e}")}),
            }
        }
        "store" => {
            let store = Store { metadata: toml_table_from_json(&req["metadata"]) };
            if let Err(e) = write_toml_file(&store, &path) {
                return json!({"write_err": format!("{e}")});
            }
            match read_toml_file::<Store>(&path) {
                Ok(s) => json!({"ok": true, "reread": {"metadata": toml_to_json(&toml::Value::Table(s.metadata))}}),
                Err(e) => json!({"ok": true, "reread_err": format!("{e}")}),
            }
        }
        "package" => {
            let buildpack = match PackageDescriptorBuildpackReference::try_from(jstr(req, "buildpack")) {
                Ok(b) => b,
                Err(e) => return json!({"input_rejected": format!("{e:?}")}),
            };
            let mut dependencies = Vec::new();
            for d in strs(&req["dependencies"]) {
                match PackageDescriptorDependency::try_from(d.as_str()) {
                    Ok(x) => dependencies.push(x),
                    Err(e) => return json!({"input_rejected": format!("{e:?}")}),
                }
            }
            let os = match req.get("os").and_then(Value::as_str) {
                Some("windows") => PlatformOs::Windows,
                _ => PlatformOs::Linux,
            };
            let pd = PackageDescriptor { buildpack, dependencies, platform: Platform { os } };
            if let Err(e) = write_toml_file(&pd, &path) {
                return json!({"write_err": format!("{e}")});
            }
            match read_toml_file::<PackageDescriptor>(&path) {
                Ok(p) => json!({"ok": true, "reread": {"buildpack": p.buildpack.uri.to_string(), "dependencies": p.dependencies.iter().map(|d| d.uri.to_string()).collect::<Vec<_>>(),
                                "os": format!("{:?}", p.platform.os).to_lowercase()}}),
                Err(e) => json!({"ok": true, "reread_err": format!("{e}")}),
            }
        }
        other => panic!("emit: unknown op {other}"),
    }
}

/// argv: execd <json {"pairs": [[key, value], ...]}> — writes to fd 3 through the real helper.
pub fn execd(args: &[String]) {
    let req: Value = serde_json::from_str(&args[0]).expect("json");
    let mut map = std::collections::HashMap::new();
    for kv in jarr(&req, "pairs") {
        let kv = kv.as_array().unwrap();
        map.insert(kv[0].as_str().unwrap().parse::<libcnb_data::exec_d::ExecDProgramOutputKey>().expect("key"), kv[1].as_str().unwrap().to_string());
    }
    libcnb::exec_d::write_exec_d_program_output(map);
}
