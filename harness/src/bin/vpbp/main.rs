//! Scripted test buildpack, entered through a direct call of `libcnb::libcnb_runtime` (and the in-process mode of the programmatic
//! entry points). See imp.rs.
mod imp;

fn main() {
    imp::main_direct();
}
