//! Scripted test buildpack (shared by the executables vpbp - which calls `libcnb_runtime` directly - and vpbpm - whose `main` is
//! written by `buildpack_main!`). The executable is reached through symlinks named detect / build / (wrong names).
//! Behaviour comes from the JSON file named by $VPBP_SCRIPT; observations go to marker / dump files.
use libcnb::build::{BuildContext, BuildResult, BuildResultBuilder};
use libcnb::data::build_plan::{BuildPlanBuilder, Require};
use libcnb::data::launch::{LaunchBuilder, ProcessBuilder};
use libcnb::data::layer_name;
use libcnb::data::sbom::SbomFormat;
use libcnb::data::store::Store;
use libcnb::detect::{DetectContext, DetectResult, DetectResultBuilder};
use libcnb::generic::{GenericMetadata, GenericPlatform};
use libcnb::layer::UncachedLayerDefinition;
use libcnb::sbom::Sbom;
use libcnb::{Buildpack, Platform};
use serde_json::{Value, json};
use std::io::Write;
use vpharness::{jarr, jstr, os_hex, toml_table_from_json, toml_to_json};

#[derive(Debug)]
pub struct ScriptedError(#[allow(dead_code)] String);

pub struct Bp {
    script: Value,
}

fn mark(script: &Value, line: &str) {
    if let Some(p) = script.get("marker").and_then(Value::as_str) {
        let mut f = std::fs::OpenOptions::new().create(true).append(true).open(p).expect("marker");
        writeln!(f, "{line}").expect("marker write");
    }
}

/// script["print"]: what the buildpack code prints to stdout without a final newline (it stays in the process's stdout buffer)
fn chatter(script: &Value) {
    if let Some(t) = script.get("print").and_then(Value::as_str) {
        use std::io::Write as _;
        let _ = write!(std::io::stdout(), "{t}");
    }
}

fn md_json(m: &GenericMetadata) -> Value {
    m.as_ref().map_or(Value::Null, |t| toml_to_json(&toml::Value::Table(t.clone())))
}

fn common_dump(app: &std::path::Path, bp: &std::path::Path, target: &libcnb::Target, platform: &GenericPlatform,
               d: &libcnb::data::buildpack::ComponentBuildpackDescriptor<GenericMetadata>) -> Value {
    let mut env: Vec<(String, String)> = platform.env().iter().map(|(k, v)| (os_hex(k), os_hex(v))).collect();
    env.sort();
    json!({"app_dir": app.to_string_lossy(), "buildpack_dir": bp.to_string_lossy(),
           "app_dir_hex": os_hex(app.as_os_str()), "buildpack_dir_hex": os_hex(bp.as_os_str()),
           "target": {"os": target.os, "arch": target.arch, "arch_variant": target.arch_variant, "distro_name": target.distro_name, "distro_version": target.distro_version},
           "platform_env": env,
           "descriptor": {"api": [d.api.major, d.api.minor], "id": d.buildpack.id.as_str(), "version": d.buildpack.version.to_string(), "name": d.buildpack.name,
                          "metadata": md_json(&d.metadata), "targets": d.targets.len(), "stacks": d.stacks.len()}})
}

fn dump(script: &Value, v: &Value) {
    if let Some(p) = script.get("dump").and_then(Value::as_str) {
        std::fs::write(p, serde_json::to_vec(v).unwrap()).expect("dump");
    }
}

fn sbom_format(s: &str) -> SbomFormat {
    // "cdx#2": a second, different document of the same format (the whole spelling goes into the document's content)
    match s.split('#').next().unwrap_or(s) {
        "cdx" => SbomFormat::CycloneDxJson,
        "spdx" => SbomFormat::SpdxJson,
        _ => SbomFormat::SyftJson,
    }
}

/// "cdx" / "spdx" / "syft" (optionally "#n"): a document handed over as bytes. "cdxbom": a `cyclonedx_bom` model converted by libcnb
/// itself (the optional `cyclonedx-bom` feature) - libcnb writes what the model says, nothing of its own
fn make_sbom(kind: &str, f: &str) -> Sbom {
    if f == "cdxbom" {
        let mut bom = cyclonedx_bom::models::bom::Bom::default();
        bom.serial_number = None;
        return Sbom::try_from(bom).expect("cyclonedx bom to json");
    }
    Sbom::from_bytes(sbom_format(f), format!("{{\"{kind}\":\"{f}\"}}"))
}

impl Buildpack for Bp {
    type Platform = GenericPlatform;
    type Metadata = GenericMetadata;
    type Error = ScriptedError;

    fn detect(&self, c: DetectContext<Self>) -> libcnb::Result<DetectResult, ScriptedError> {
        mark(&self.script, "detect");
        chatter(&self.script);
        let mut d = common_dump(&c.app_dir, &c.buildpack_dir, &c.target, &c.platform, &c.buildpack_descriptor);
        d["phase"] = json!("detect");
        dump(&self.script, &d);
        let spec = &self.script["detect"];
        match spec.get("result").and_then(Value::as_str).unwrap_or("pass") {
            "pass" => DetectResultBuilder::pass().build(),
            "plan" => {
                let mut b = BuildPlanBuilder::new();
                for call in jarr(spec, "plan") {
                    let c = call.as_array().unwrap();
                    b = match c[0].as_str().unwrap() {
                        "provides" => b.provides(c[1].as_str().unwrap()),
                        // metadata handed over as a std HashMap (hash order differs per process)
                        "requires_hashmap" => {
                            let mut r = Require::new(c[1].as_str().unwrap());
                            let m: std::collections::HashMap<String, String> = (0..c[2].as_u64().unwrap()).map(|i| (format!("key{i}"), format!("v{i}"))).collect();
                            r.metadata(m).expect("metadata");
                            b.requires(r)
                        }
                        "requires" => {
                            let mut r = Require::new(c[1].as_str().unwrap());
                            if c.len() > 2 && !c[2].is_null() {
                                r.metadata(toml_table_from_json(&c[2])).expect("metadata");
                            }
                            b.requires(r)
                        }
                        _ => b.or(),
                    };
                }
                DetectResultBuilder::pass().build_plan(b.build()).build()
            }
            "fail" => DetectResultBuilder::fail().build(),
            other => Err(libcnb::Error::BuildpackError(ScriptedError(other.to_string()))),
        }
    }

    fn build(&self, c: BuildContext<Self>) -> libcnb::Result<BuildResult, ScriptedError> {
        mark(&self.script, "build");
        chatter(&self.script);
        let mut d = common_dump(&c.app_dir, &c.buildpack_dir, &c.target, &c.platform, &c.buildpack_descriptor);
        d["phase"] = json!("build");
        d["layers_dir"] = json!(c.layers_dir.to_string_lossy());
        d["layers_dir_hex"] = json!(os_hex(c.layers_dir.as_os_str()));
        d["plan"] = json!(c.buildpack_plan.entries.iter().map(|e| json!({"name": e.name, "metadata": toml_to_json(&toml::Value::Table(e.metadata.clone()))})).collect::<Vec<_>>());
        // the same entries through the typed accessor Entry::metadata::<T>() with a map type: exactly the keys and values of the table
        // (before each of them a typed access that is refused - a required field no entry has -, the way a buildpack probes for the shape
        // it prefers and falls back: what was refused has no part in what the next access returns)
        #[derive(serde::Deserialize)]
        #[allow(dead_code)]
        struct Preferred { vp_field_no_entry_has: String, #[serde(flatten)] rest: std::collections::BTreeMap<String, toml::Value> }
        d["plan_typed_refused"] = json!(c.buildpack_plan.entries.iter().filter(|e| e.metadata::<Preferred>().is_err()).count());
        d["plan_typed"] = json!(c.buildpack_plan.entries.iter().map(|e| match e.metadata::<Preferred>().map(|p| p.rest).or_else(|_| e.metadata::<std::collections::BTreeMap<String, toml::Value>>()) {
            Ok(m) => json!({"name": e.name, "metadata": toml_to_json(&toml::Value::Table(m.into_iter().collect()))}),
            Err(err) => json!({"name": e.name, "error": err.to_string()}),
        }).collect::<Vec<_>>());
        d["store"] = c.store.as_ref().map_or(Value::Null, |s| toml_to_json(&toml::Value::Table(s.metadata.clone())));
        dump(&self.script, &d);
        let spec = &self.script["build"];
        match spec.get("result").and_then(Value::as_str).unwrap_or("ok") {
            "ok" => {
                if spec.get("optional_layer").and_then(Value::as_bool).unwrap_or(false) {
                    // a layer the buildpack can do without: <layers>/optional.toml is planted as a link into a directory that does not exist, so
                    // writing the layer's TOML fails; the error is handled and the build goes on to return its result
                    let _ = c.uncached_layer(layer_name!("optional"), UncachedLayerDefinition { build: true, launch: true });
                }
                let mut b = BuildResultBuilder::new();
                // the builder's setters can be called in any order ("order": a permutation of launch / store / bsbom / lsbom)
                let default_order = [json!("launch"), json!("store"), json!("bsbom"), json!("lsbom")];
                let order: Vec<String> = spec.get("order").and_then(Value::as_array).map_or(&default_order[..], Vec::as_slice).iter().map(|x| x.as_str().unwrap().to_string()).collect();
                for part in order {
                match part.as_str() {
                "launch" =>
                if let Some(l) = spec.get("launch").filter(|l| !l.is_null()) {
                    let mut lb = LaunchBuilder::new();
                    let processes: Vec<libcnb::data::launch::Process> = jarr(l, "processes").iter().map(|p| {
                        let mut pb = ProcessBuilder::new(jstr(p, "type").parse().expect("type"), jarr(p, "command").iter().map(|x| x.as_str().unwrap().to_string()).collect::<Vec<_>>());
                        pb.args(jarr(p, "args").iter().map(|x| x.as_str().unwrap().to_string()).collect::<Vec<_>>());
                        pb.default(p.get("default").and_then(Value::as_bool).unwrap_or(false));
                        if let Some(wd) = p.get("wd").and_then(Value::as_str) {
                            pb.working_directory(libcnb::data::launch::WorkingDirectory::Directory(std::path::PathBuf::from(wd)));
                        }
                        pb.build()
                    }).collect();
                    let labels: Vec<libcnb::data::launch::Label> = jarr(l, "labels").iter().map(|kv| {
                        let kv = kv.as_array().unwrap();
                        libcnb::data::launch::Label { key: kv[0].as_str().unwrap().into(), value: kv[1].as_str().unwrap().into() }
                    }).collect();
                    let slices: Vec<libcnb::data::launch::Slice> = l.get("slices").and_then(Value::as_array).map(|a| a.iter().map(|g| {
                        libcnb::data::launch::Slice { path_globs: g.as_array().unwrap().iter().map(|x| x.as_str().unwrap().to_string()).collect() }
                    }).collect()).unwrap_or_default();
                    if l.get("plural").and_then(Value::as_bool).unwrap_or(false) {
                        // the batch setters: everything handed over in one call each
                        lb.processes(processes).labels(labels).slices(slices);
                    } else {
                        for p in processes {
                            lb.process(p);
                        }
                        for x in labels {
                            lb.label(x);
                        }
                        for x in slices {
                            lb.slice(x);
                        }
                    }
                    b = b.launch(lb.build());
                },
                "store" =>
                if let Some(s) = spec.get("store").filter(|s| !s.is_null()) {
                    let mut t = toml_table_from_json(s);
                    if let Some(n) = spec.get("store_hashmap_keys").and_then(Value::as_u64) {
                        // entries arriving in the iteration order of a std HashMap
                        let m: std::collections::HashMap<String, String> = (0..n).map(|i| (format!("hk{i}"), format!("v{i}"))).collect();
                        for (k, v) in m {
                            t.insert(k, toml::Value::String(v));
                        }
                    }
                    b = b.store(Store { metadata: t });
                },
                "bsbom" =>
                for f in jarr(spec, "build_sboms") {
                    b = b.build_sbom(make_sbom("build", f.as_str().unwrap()));
                },
                _ =>
                for f in jarr(spec, "launch_sboms") {
                    b = b.launch_sbom(make_sbom("launch", f.as_str().unwrap()));
                },
                }
                }
                b.build()
            }
            "layer_err" => {
                // <layers>/blocked is planted as a regular file by the workload: the layer cannot be created
                c.uncached_layer(layer_name!("blocked"), UncachedLayerDefinition { build: true, launch: false })?;
                BuildResultBuilder::new().build()
            }
            other => Err(libcnb::Error::BuildpackError(ScriptedError(other.to_string()))),
        }
    }

    fn on_error(&self, error: libcnb::Error<ScriptedError>) {
        let variant = format!("{error:?}");
        let variant = variant.split(['(', ' ', '{']).next().unwrap_or("?").to_string();
        mark(&self.script, &format!("on_error {variant}"));
    }
}

/// In-process mode: several programmatic detect / build invocations in ONE process (libcnb exposes the two entry points for
/// that), each with its own environment, working directory, arguments and script. Results go to the file named per invocation.
fn inproc(path: &str) {
    let plan: Value = serde_json::from_slice(&std::fs::read(path).expect("inproc file")).expect("inproc json");
    for inv in jarr(&plan, "invocations") {
        for k in jarr(inv, "unset") {
            unsafe { std::env::remove_var(k.as_str().unwrap()) };
        }
        for kv in jarr(inv, "env") {
            let kv = kv.as_array().unwrap();
            unsafe { std::env::set_var(kv[0].as_str().unwrap(), kv[1].as_str().unwrap()) };
        }
        std::env::set_current_dir(jstr(inv, "cwd")).expect("chdir");
        let bp = Bp { script: inv["script"].clone() };
        let args: Vec<std::path::PathBuf> = jarr(inv, "args").iter().map(|a| std::path::PathBuf::from(a.as_str().unwrap())).collect();
        let res = if jstr(inv, "phase") == "detect" {
            libcnb::libcnb_runtime_detect(&bp, libcnb::DetectArgs { platform_dir_path: args[0].clone(), build_plan_path: args[1].clone() })
        } else {
            libcnb::libcnb_runtime_build(&bp, libcnb::BuildArgs { layers_dir_path: args[0].clone(), platform_dir_path: args[1].clone(), buildpack_plan_path: args[2].clone() })
        };
        let out = match res {
            Ok(code) => json!({"code": code}),
            Err(e) => json!({"err": format!("{e:?}").chars().take(300).collect::<String>()}),
        };
        std::fs::write(jstr(inv, "result"), serde_json::to_vec(&out).unwrap()).expect("result file");
    }
}

/// The scripted buildpack for this process ($VPBP_SCRIPT).
pub fn bp_from_env() -> Bp {
    let script: Value = std::env::var("VPBP_SCRIPT").ok().and_then(|p| std::fs::read(p).ok()).and_then(|b| serde_json::from_slice(&b).ok()).unwrap_or(json!({}));
    Bp { script }
}

/// What the `vpbp` executable does: in-process mode, or the direct call of `libcnb_runtime`.
pub fn main_direct() {
    if let Ok(p) = std::env::var("VPBP_INPROC") {
        inproc(&p);
        return;
    }
    libcnb::libcnb_runtime(&bp_from_env());
}
