//! Scenario interpreter on top of the real libcnb-test TestRunner (C16, C17).
//! argv[1] = scenario JSON file. The scenario runs on a spawned thread (as libtest does); a panic
//! inside it is caught by the join, the process then exits 0 (scenario finished) or 3 (it panicked).
use libcnb_test::{BuildConfig, BuildpackReference, ContainerConfig, ContainerContext, PackResult, TestContext, TestRunner};
use serde_json::Value;
use std::path::PathBuf;
use vpharness::{jarr, jstr};

fn build_config(c: &Value) -> BuildConfig {
    // "superseded": values set first and then replaced by the final ones through the same setters (last call wins)
    let sup = c.get("superseded").filter(|x| !x.is_null());
    let mut cfg = if sup.and_then(|x| x.get("app_dir")).is_some_and(|x| !x.is_null()) {
        let mut cfg = BuildConfig::new(jstr(c, "builder"), jstr(sup.unwrap(), "app_dir"));
        cfg.app_dir(jstr(c, "app_dir"));
        cfg
    } else {
        BuildConfig::new(jstr(c, "builder"), jstr(c, "app_dir"))
    };
    if let Some(sup) = sup {
        if sup.get("buildpacks").is_some_and(|x| !x.is_null()) {
            cfg.buildpacks(jarr(sup, "buildpacks").iter().map(|b| BuildpackReference::Other(b.as_str().unwrap().to_string())).collect::<Vec<_>>());
        }
        for kv in jarr(sup, "env") {
            let kv = kv.as_array().unwrap();
            cfg.env(kv[0].as_str().unwrap(), kv[1].as_str().unwrap());
        }
    }
    // "@crate": the crate under test itself, "@ws:<id>": a buildpack of its workspace (both packaged into a temporary directory), anything else is handed to pack as it is
    let bps: Vec<BuildpackReference> = jarr(c, "buildpacks").iter().map(|b| match b.as_str().unwrap() {
        "@crate" => BuildpackReference::CurrentCrate,
        s if s.starts_with("@ws:") => BuildpackReference::WorkspaceBuildpack(s[4..].parse().expect("buildpack id")),
        s => BuildpackReference::Other(s.to_string()),
    }).collect();
    cfg.buildpacks(bps);
    if let Some(t) = c.get("target_triple").and_then(Value::as_str) {
        cfg.target_triple(t);
    }
    // half of the env through env(), half through envs()
    let env = jarr(c, "env");
    let (a, b) = env.split_at(env.len() / 2);
    for kv in a {
        let kv = kv.as_array().unwrap();
        cfg.env(kv[0].as_str().unwrap(), kv[1].as_str().unwrap());
    }
    cfg.envs(b.iter().map(|kv| {
        let kv = kv.as_array().unwrap();
        (kv[0].as_str().unwrap().to_string(), kv[1].as_str().unwrap().to_string())
    }));
    if let Some(p) = c.get("preprocessor").filter(|p| !p.is_null()) {
        let p = p.clone();
        cfg.app_dir_preprocessor(move |dir: PathBuf| {
            for f in jarr(&p, "add") {
                let f = f.as_array().unwrap();
                let path = dir.join(f[0].as_str().unwrap());
                std::fs::create_dir_all(path.parent().unwrap()).unwrap();
                std::fs::write(path, f[1].as_str().unwrap()).unwrap();
            }
            for f in jarr(&p, "append") {
                // deliberately not idempotent: running the preprocessor twice on the same copy shows
                let f = f.as_array().unwrap();
                use std::io::Write;
                let mut file = std::fs::OpenOptions::new().create(true).append(true).open(dir.join(f[0].as_str().unwrap())).unwrap();
                file.write_all(f[1].as_str().unwrap().as_bytes()).unwrap();
            }
            for f in jarr(&p, "remove") {
                let _ = std::fs::remove_file(dir.join(f.as_str().unwrap()));
            }
            // links the preprocessor plants in its copy of the app (a vendored directory, a shared cache): "@crate/<rel>" is resolved against
            // the crate under test, anything else is taken as it is
            for f in jarr(&p, "symlink") {
                let f = f.as_array().unwrap();
                let target = f[1].as_str().unwrap();
                let target = match target.strip_prefix("@crate/") {
                    Some(rel) => PathBuf::from(std::env::var("CARGO_MANIFEST_DIR").unwrap()).join(rel),
                    None => PathBuf::from(target),
                };
                let _ = std::os::unix::fs::symlink(target, dir.join(f[0].as_str().unwrap()));
            }
            if p.get("panic").and_then(Value::as_bool).unwrap_or(false) {
                panic!("scripted panic inside the app dir preprocessor");
            }
        });
    }
    if c.get("expected").and_then(Value::as_str) == Some("failure") {
        cfg.expected_pack_result(PackResult::Failure);
    }
    cfg
}

fn container_config(c: &Value) -> ContainerConfig {
    let mut cfg = ContainerConfig::new();
    if let Some(sup) = c.get("superseded").filter(|x| !x.is_null()) {
        if let Some(e) = sup.get("entrypoint").and_then(Value::as_str) {
            cfg.entrypoint(e);
        }
        if let Some(cmd) = sup.get("command").filter(|x| !x.is_null()) {
            cfg.command(cmd.as_array().unwrap().iter().map(|x| x.as_str().unwrap().to_string()).collect::<Vec<_>>());
        }
        for kv in jarr(sup, "env") {
            let kv = kv.as_array().unwrap();
            cfg.env(kv[0].as_str().unwrap(), kv[1].as_str().unwrap());
        }
        for m in jarr(sup, "mounts") {
            let m = m.as_array().unwrap();
            cfg.bind_mount(m[0].as_str().unwrap(), m[1].as_str().unwrap());
        }
    }
    if let Some(e) = c.get("entrypoint").and_then(Value::as_str) {
        cfg.entrypoint(e);
    }
    if let Some(cmd) = c.get("command").filter(|x| !x.is_null()) {
        cfg.command(cmd.as_array().unwrap().iter().map(|x| x.as_str().unwrap().to_string()).collect::<Vec<_>>());
    }
    // half of the env through env(), half through envs()
    let env = jarr(c, "env");
    let (a, b) = env.split_at(if c.get("envs_split").and_then(Value::as_bool).unwrap_or(false) { env.len() / 2 } else { env.len() });
    for kv in a {
        let kv = kv.as_array().unwrap();
        cfg.env(kv[0].as_str().unwrap(), kv[1].as_str().unwrap());
    }
    if !b.is_empty() {
        cfg.envs(b.iter().map(|kv| {
            let kv = kv.as_array().unwrap();
            (kv[0].as_str().unwrap().to_string(), kv[1].as_str().unwrap().to_string())
        }));
    }
    for p in jarr(c, "ports") {
        cfg.expose_port(p.as_u64().unwrap() as u16);
    }
    for m in jarr(c, "mounts") {
        let m = m.as_array().unwrap();
        cfg.bind_mount(m[0].as_str().unwrap(), m[1].as_str().unwrap());
    }
    cfg
}

fn container_body(cc: &ContainerContext, nodes: &[Value]) {
    for n in nodes {
        match jstr(n, "op") {
            "panic" => panic!("scripted panic inside a container closure"),
            "logs_now" => {
                let _ = cc.logs_now();
            }
            "logs_wait" => {
                let _ = cc.logs_wait();
            }
            "address_for_port" => {
                let _ = cc.address_for_port(n["port"].as_u64().unwrap() as u16);
            }
            "shell_exec" => {
                let _ = cc.shell_exec(jstr(n, "command"));
            }
            x => panic!("unknown container op {x}"),
        }
    }
}

fn build_body(ctx: TestContext, nodes: &[Value]) {
    for (i, n) in nodes.iter().enumerate() {
        match jstr(n, "op") {
            "panic" => panic!("scripted panic inside the test closure"),
            "run_shell_command" => {
                let _ = ctx.run_shell_command(jstr(n, "command"));
            }
            "download_sbom_files" => {
                let dir_seen = ctx.download_sbom_files(|files| files.path_for(libcnb_data::buildpack_id!("vp/x"), libcnb_test::SbomType::Launch, libcnb_data::sbom::SbomFormat::SyftJson));
                let _ = dir_seen;
            }
            "start_container" => {
                ctx.start_container(container_config(&n["config"]), |cc| container_body(&cc, jarr(n, "body")));
            }
            "rebuild" => {
                assert!(i + 1 == nodes.len(), "rebuild consumes the context and must be the last node");
                if n.get("reuse_config").and_then(Value::as_bool).unwrap_or(false) {
                    // the documented idiom: rebuild with the very configuration of the first build
                    let cfg = ctx.config.clone();
                    ctx.rebuild(cfg, |ctx2| build_body(ctx2, jarr(n, "body")));
                } else {
                    ctx.rebuild(build_config(&n["config"]), |ctx2| build_body(ctx2, jarr(n, "body")));
                }
                return;
            }
            x => panic!("unknown op {x}"),
        }
    }
}

fn main() {
    let path = std::env::args().nth(1).expect("scenario file");
    let scenario: Value = serde_json::from_slice(&std::fs::read(path).expect("read scenario")).expect("scenario json");
    let handle = std::thread::Builder::new().name("scenario".into()).spawn(move || {
        for (i, b) in jarr(&scenario, "builds").iter().enumerate() {
            if i > 0 && scenario.get("restore_standins").and_then(Value::as_bool).unwrap_or(false) {
                // a docker / pack executable that a scripted fault removed during the previous build is back for this one
                if let (Ok(dir), Ok(target)) = (std::env::var("VP_STANDIN_BIN"), std::env::var("VP_STANDIN_TARGET")) {
                    for n in ["docker", "pack"] {
                        let p = std::path::Path::new(&dir).join(n);
                        if p.symlink_metadata().is_err() {
                            let _ = std::os::unix::fs::symlink(&target, &p);
                        }
                    }
                }
            }
            if let Some(d) = b.get("manifest_dir").and_then(Value::as_str) {
                // (tests of several crates can share a process: the variable is read when the build starts)
                unsafe { std::env::set_var("CARGO_MANIFEST_DIR", d) };
            }
            // "catch_builds": every build is a test of its own in this process (another #[test] function, a #[should_panic] one): a build that
            // panics ends that test only, the next one runs; the scenario's outcome is the last build's
            let catch = scenario.get("catch_builds").and_then(Value::as_bool).unwrap_or(false);
            let outcome = std::panic::catch_unwind(std::panic::AssertUnwindSafe(|| {
                TestRunner::default().build(build_config(&b["config"]), |ctx| build_body(ctx, jarr(b, "body")));
            }));
            if let Err(p) = outcome {
                if !catch || i + 1 == jarr(&scenario, "builds").len() {
                    std::panic::resume_unwind(p);
                }
            }
        }
    }).expect("spawn");
    match handle.join() {
        Ok(()) => std::process::exit(0),
        Err(_) => std::process::exit(3),
    }
}
