//! The same scripted test buildpack as vpbp, with the `main` that `libcnb::buildpack_main!` writes.
#[path = "../vpbp/imp.rs"]
#[allow(dead_code)]
mod imp;

libcnb::buildpack_main!(imp::bp_from_env());
