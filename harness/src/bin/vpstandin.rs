//! Stand-in for the `docker` and `pack` CLIs (selected by argv[0]). Appends one JSON line
//! {seq, prog, argv, cwd, path_digest?} to $VP_CMDLOG (single O_APPEND write), then behaves as
//! scripted by $VP_CMDPLAN: {"fail_seq": n | null, "fail_kind": "docker rm" | ..., "exit": code}.
use serde_json::{Value, json};
use std::io::Write;
use std::path::Path;

fn digest(dir: &Path, rel: &str, out: &mut Vec<(String, String)>) {
    let Ok(rd) = std::fs::read_dir(dir) else { return };
    let mut entries: Vec<_> = rd.flatten().collect();
    entries.sort_by_key(std::fs::DirEntry::file_name);
    for e in entries {
        let name = format!("{rel}{}", e.file_name().to_string_lossy());
        let p = e.path();
        if p.is_dir() {
            out.push((format!("{name}/"), String::new()));
            digest(&p, &format!("{name}/"), out);
        } else if p.metadata().map(|m| { use std::os::unix::fs::FileTypeExt; let t = m.file_type(); t.is_fifo() || t.is_socket() || t.is_char_device() || t.is_block_device() }).unwrap_or(false) {
            // a FIFO, a socket, a device: named, never opened (reading a FIFO would block for ever)
            out.push((name, "<not a regular file>".to_string()));
        } else {
            out.push((name, vpharness::hex(&std::fs::read(&p).unwrap_or_default())));
        }
    }
}

fn main() {
    let args: Vec<String> = std::env::args().collect();
    let prog = Path::new(&args[0]).file_name().unwrap().to_string_lossy().to_string();
    let argv: Vec<String> = args[1..].to_vec();
    let log = std::env::var("VP_CMDLOG").expect("VP_CMDLOG");
    let seq = std::fs::read_to_string(&log).map(|s| s.lines().count()).unwrap_or(0);
    let kind = match (prog.as_str(), argv.first().map(String::as_str), argv.get(1).map(String::as_str)) {
        ("docker", Some("volume"), Some(x)) => format!("docker volume {x}"),
        ("pack", Some("sbom"), Some(x)) => format!("pack sbom {x}"),
        (p, Some(a), _) => format!("{p} {a}"),
        (p, None, _) => p.to_string(),
    };
    let mut entry = json!({"seq": seq, "prog": prog, "kind": kind, "argv": argv, "cwd": std::env::current_dir().map(|p| p.to_string_lossy().to_string()).unwrap_or_default()});
    // which daemon this command addresses: the variables the docker CLI (and pack) pick their endpoint from
    let mut endpoint = serde_json::Map::new();
    for k in ["DOCKER_HOST", "DOCKER_CONTEXT", "DOCKER_CONFIG", "DOCKER_TLS_VERIFY", "DOCKER_CERT_PATH", "DOCKER_API_VERSION"] {
        if let Ok(v) = std::env::var(k) {
            endpoint.insert(k.to_string(), json!(v));
        }
    }
    entry["endpoint_env"] = Value::Object(endpoint);
    if kind == "pack build" {
        if let Some(i) = argv.iter().position(|a| a == "--path") {
            if let Some(p) = argv.get(i + 1) {
                let mut d = Vec::new();
                digest(Path::new(p), "", &mut d);
                entry["path_digest"] = json!(d);
                entry["path_is_dir"] = json!(Path::new(p).is_dir());
            }
        }
    }
    let plan: Value = std::env::var("VP_CMDPLAN").ok().and_then(|p| std::fs::read(p).ok()).and_then(|b| serde_json::from_slice(&b).ok()).unwrap_or(json!({}));
    let fail = plan.get("fail_seq").and_then(Value::as_u64) == Some(seq as u64)
        || plan.get("fail_kinds").and_then(Value::as_array).is_some_and(|k| k.iter().any(|x| x.as_str() == Some(kind.as_str())));
    // natural consequence of an earlier scripted failure: a container whose `docker run` failed does not exist, so looking at its
    // logs, its ports or executing something in it fails too (removing it stays harmless)
    let mut no_such_container = false;
    if matches!(kind.as_str(), "docker logs" | "docker exec" | "docker port") {
        if let Some(name) = argv.iter().skip(1).find(|a| !a.starts_with('-')) {
            if let Ok(text) = std::fs::read_to_string(&log) {
                for line in text.lines() {
                    if let Ok(e) = serde_json::from_str::<Value>(line) {
                        let is_failed_run = e["kind"] == "docker run" && e["failed"] == true;
                        let names_it = e["argv"].as_array().is_some_and(|a| a.windows(2).any(|w| w[0] == "--name" && w[1].as_str() == Some(name.as_str())));
                        if is_failed_run && names_it {
                            no_such_container = true;
                        }
                    }
                }
            }
        }
    }
    entry["no_such_container"] = json!(no_such_container);
    entry["failed"] = json!(fail);
    let mut line = serde_json::to_vec(&entry).unwrap();
    line.push(b'\n');
    std::fs::OpenOptions::new().create(true).append(true).open(&log).expect("log").write_all(&line).expect("log write");
    // scripted disappearance of a program: after this invocation the named stand-in is unlinked, so that the next spawn of it fails
    if let Some(r) = plan.get("remove_prog_after_seq").filter(|r| r.get("seq").and_then(Value::as_u64) == Some(seq as u64)) {
        if let Ok(dir) = std::env::var("VP_STANDIN_BIN") {
            let _ = std::fs::remove_file(Path::new(&dir).join(r.get("prog").and_then(Value::as_str).unwrap_or("pack")));
        }
    }
    if no_such_container && !fail {
        eprintln!("Error response from daemon: No such container");
        std::process::exit(1);
    }
    if fail {
        if plan.get("fail_output").and_then(Value::as_str) == Some("big-unicode") {
            // > 64 KiB of multi-byte text on both streams (tools that cut logs by byte offset meet a character boundary problem)
            println!("{}", "日".repeat(30000));
            eprintln!("{}x", "é".repeat(40000));
        }
        if let Some(sig) = plan.get("signal").and_then(Value::as_i64) {
            // the command does not exit with a code at all: it dies from a signal
            unsafe {
                libc::kill(libc::getpid(), sig as i32);
            }
            std::thread::sleep(std::time::Duration::from_secs(5));
        }
        match plan.get("fail_stderr").and_then(Value::as_str) {
            // what the docker CLI prints (exit 125) when the host port it picked is taken: the container exists by then, in state "Created"
            Some("port-allocated") => eprintln!("docker: Error response from daemon: driver failed programming external connectivity on endpoint vp (0123abcd): Bind for 0.0.0.0:49153 failed: port is already allocated."),
            _ => eprintln!("stand-in: scripted failure of `{kind}`"),
        }
        std::process::exit(plan.get("exit").and_then(Value::as_i64).unwrap_or(1) as i32);
    }
    match kind.as_str() {
        "docker port" => println!("127.0.0.1:49153"),
        "pack build" => println!("===> stand-in pack build finished"),
        "docker logs" => println!("log line"),
        _ => {}
    }
}
