//! Demo for mutant 2 (property C20).
//!
//! Build logic (struct layer API): create an uncached layer and write its environment. The first
//! attempt contains a launch variable whose name the file system refuses ("BAD/NAME"), so
//! `LayerRef::write_env` fails. The buildpack handles the error and writes the environment again
//! without the offending variable. The layer directory that this leaves behind must be the same,
//! byte for byte, for every run of this logic on the same inputs.

use libcnb::build::{BuildContext, BuildResult, BuildResultBuilder};
use libcnb::data::buildpack::{
    BuildpackApi, BuildpackTarget, BuildpackVersion, ComponentBuildpackDescriptor,
};
use libcnb::data::buildpack_id;
use libcnb::data::buildpack_plan::BuildpackPlan;
use libcnb::data::layer_name;
use libcnb::detect::{DetectContext, DetectResult, DetectResultBuilder};
use libcnb::generic::{GenericError, GenericMetadata, GenericPlatform};
use libcnb::layer::UncachedLayerDefinition;
use libcnb::layer_env::{LayerEnv, ModificationBehavior, Scope};
use libcnb::{Buildpack, Env, Target};
use std::collections::{BTreeMap, HashSet};
use std::fs;
use std::path::Path;

struct DemoBuildpack;

impl Buildpack for DemoBuildpack {
    type Platform = GenericPlatform;
    type Metadata = GenericMetadata;
    type Error = GenericError;

    fn detect(&self, _: DetectContext<Self>) -> libcnb::Result<DetectResult, Self::Error> {
        DetectResultBuilder::pass().build()
    }

    fn build(&self, _: BuildContext<Self>) -> libcnb::Result<BuildResult, Self::Error> {
        BuildResultBuilder::new().build()
    }
}

fn context(root: &Path) -> BuildContext<DemoBuildpack> {
    for dir in ["layers", "app", "buildpack"] {
        fs::create_dir_all(root.join(dir)).unwrap();
    }

    BuildContext {
        layers_dir: root.join("layers"),
        app_dir: root.join("app"),
        buildpack_dir: root.join("buildpack"),
        target: Target {
            os: String::from("linux"),
            arch: String::from("amd64"),
            arch_variant: None,
            distro_name: String::from("ubuntu"),
            distro_version: String::from("22.04"),
        },
        platform: GenericPlatform::new(Env::new()),
        buildpack_plan: BuildpackPlan {
            entries: Vec::new(),
        },
        buildpack_descriptor: ComponentBuildpackDescriptor {
            api: BuildpackApi {
                major: 0,
                minor: 10,
            },
            buildpack: libcnb::data::buildpack::Buildpack {
                id: buildpack_id!("seed/demo"),
                name: None,
                version: BuildpackVersion::new(1, 0, 0),
                homepage: None,
                clear_env: true,
                description: None,
                keywords: Vec::new(),
                licenses: Vec::new(),
                sbom_formats: HashSet::new(),
            },
            stacks: Vec::new(),
            targets: vec![BuildpackTarget {
                os: Some(String::from("linux")),
                arch: Some(String::from("amd64")),
                variant: None,
                distros: Vec::new(),
            }],
            metadata: GenericMetadata::default(),
        },
        store: None,
    }
}

/// All files below `dir` (relative path -> content); directories are listed with a `/` suffix.
fn snapshot(dir: &Path, prefix: &str, into: &mut BTreeMap<String, String>) {
    for entry in fs::read_dir(dir).unwrap() {
        let entry = entry.unwrap();
        let name = format!("{prefix}{}", entry.file_name().to_string_lossy());
        if entry.file_type().unwrap().is_dir() {
            into.insert(format!("{name}/"), String::new());
            snapshot(&entry.path(), &format!("{name}/"), into);
        } else {
            into.insert(name, fs::read_to_string(entry.path()).unwrap());
        }
    }
}

/// One "run" of the build logic; returns the content of the layers directory afterwards.
fn run_once() -> BTreeMap<String, String> {
    let root = tempfile::tempdir().unwrap();
    let context = context(root.path());

    let layer_ref = context
        .uncached_layer(
            layer_name!("demo"),
            UncachedLayerDefinition {
                build: false,
                launch: true,
            },
        )
        .unwrap();

    let good_env = LayerEnv::new()
        .chainable_insert(Scope::All, ModificationBehavior::Override, "GREETING", "hello")
        .chainable_insert(Scope::Launch, ModificationBehavior::Override, "APP_MODE", "production");

    let first_attempt = good_env.clone().chainable_insert(
        Scope::Launch,
        ModificationBehavior::Override,
        "BAD/NAME",
        "refused by the file system",
    );

    // The first attempt fails; the buildpack handles the error and writes the env without the
    // offending variable.
    layer_ref
        .write_env(&first_attempt)
        .expect_err("a variable name containing '/' cannot be written");
    layer_ref.write_env(&good_env).unwrap();

    let mut content = BTreeMap::new();
    snapshot(&context.layers_dir, "", &mut content);
    content
}

#[test]
fn env_written_after_a_failed_attempt_is_identical_in_every_run() {
    let first = run_once();
    let second = run_once();

    println!("first run:  {:#?}", first.keys().collect::<Vec<_>>());
    println!("second run: {:#?}", second.keys().collect::<Vec<_>>());

    assert_eq!(
        first, second,
        "identical inputs, identical logic, but the layers directory differs between runs"
    );

    // And it is exactly what the successful second write_env call describes.
    assert_eq!(
        first.keys().map(String::as_str).collect::<Vec<_>>(),
        vec![
            "demo.toml",
            "demo/",
            "demo/env.launch/",
            "demo/env.launch/APP_MODE.override",
            "demo/env/",
            "demo/env/GREETING.override",
        ]
    );
}
